#!/bin/bash
# dev helper: run every thorough check once, print exit code and wall time (not registered in MANIFEST)
cd "$(dirname "$0")"
./setup.sh > /dev/null 2>&1
for p in C01 C02 C03 C04 C05 C06 C07 C08 C09 C10 C11 C12 C13 C14 C15 C16 C17 C18 C19 C20; do
  s=$(date +%s); ./check $p --tier thorough > thorough_$p.log 2>&1; e=$?
  echo "$p exit=$e $(( $(date +%s)-s ))s $(grep -v WARNING thorough_$p.log | tail -1 | cut -c1-160)"
done
