#!/bin/sh
# Offline setup: overlay venv (python 3.12 of /venv + z3-solver, jsonschema from the local wheelhouse).
set -e
cd "$(dirname "$0")"
if [ ! -x .venv/bin/python ] || ! .venv/bin/python -c "import z3, jsonschema, numpy, numba" 2>/dev/null; then
  rm -rf .venv
  /venv/bin/python -m venv .venv
  PIP_NO_INDEX=1 .venv/bin/pip install -q --no-index --find-links /opt/veriftools/wheels z3-solver jsonschema
  echo "import site; site.addsitedir('/venv/lib/python3.12/site-packages')" > .venv/lib/python3.12/site-packages/_repo_deps.pth
fi
.venv/bin/python -c "import z3, jsonschema, numpy, numba; print('setup ok: z3', z3.get_version_string())"
