"""pyvc -- a small deductive verifier for a fragment of Python/numpy (engine A of /verif/DESIGN.md).

It parses the *real* source file with `ast` on every run, symbolically executes one function at a
time against a sidecar contract (requires / ensures / modifies / loop invariants / ghost-lemma
calls) and emits verification conditions (VCs) that are discharged by an SMT solver.  Calls to
functions that have a contract are replaced by the contract (assert pre, havoc modifies, assume
post): the verification is modular.  Loops are cut by their invariants: there is no unrolling and
hence no bound on N, L, ... .

What the extraction drops: decorators (@njit), docstrings, comments.  `assert` statements are kept
and become proof obligations.

Encoding assumptions (reported in every evidence file):
  * Python ints are mathematical integers (no int64 overflow);
  * `%` and `//` only by positive literal constants (SMT mod/div == Python floor semantics there);
  * array parameters do not alias each other unless the contract says so;
  * numba compiles the fragment with Python/numpy semantics.
"""
import ast
import itertools
import z3

I = z3.IntSort()
R = z3.RealSort()
B = z3.BoolSort()
A1 = z3.ArraySort(I, I)
A2 = z3.ArraySort(I, A1)
RA1 = z3.ArraySort(I, R)
CPLX = z3.DeclareSort('Cplx')
CA1 = z3.ArraySort(I, CPLX)
CA2 = z3.ArraySort(I, CA1)
cmul = z3.Function('cmul', CPLX, CPLX, CPLX)
cneg = z3.Function('cneg', CPLX, CPLX)

_counter = itertools.count()


def fresh(prefix, sort):
    return z3.Const('%s!%d' % (prefix, next(_counter)), sort)


class OutOfFragment(Exception):
    def __init__(self, what, node=None):
        self.what = what
        self.lineno = getattr(node, 'lineno', None)
        super().__init__('%s at line %s' % (what, self.lineno))


class ContractError(Exception):
    pass


class UnknownName(ContractError):
    """a contract expression mentions a program variable that is not bound on this path"""


class MissingSnapshot(ContractError):
    """at(label, ...) on a path that never passed the labelled site"""


# ----------------------------------------------------------------------------- values
class AV(object):
    """array value: z3 term + shape (tuple of z3 Int) + element kind ('int'|'real'|'cplx')."""
    __slots__ = ('term', 'shape', 'elem')

    def __init__(self, term, shape, elem='int'):
        self.term = term
        self.shape = tuple(shape)
        self.elem = elem

    @property
    def ndim(self):
        return len(self.shape)


class Ref(object):
    __slots__ = ('loc',)

    def __init__(self, loc):
        self.loc = loc


class View(object):
    """row view gs[row] of a 2-D array at heap location loc (resolved lazily at each read)."""
    __slots__ = ('loc', 'row')

    def __init__(self, loc, row):
        self.loc = loc
        self.row = row


class IdxList(object):
    """numpy.array([p, q]) used as a fancy index."""
    def __init__(self, items):
        self.items = items


class Gather(object):
    """snapshot of rows a[IdxList]."""
    def __init__(self, rows, cols):
        self.rows = rows
        self.cols = cols


class ArrCmp(object):
    """(a == b) between arrays (or array and scalar), waiting for .all()"""
    def __init__(self, a, b, op):
        self.a, self.b, self.op = a, b, op


class ListObj(object):
    def __init__(self, items):
        self.items = list(items)


class Obj(object):
    def __init__(self, cls, fields):
        self.cls = cls
        self.fields = dict(fields)


class OptV(object):
    """an optional object inside a symbolic sequence element: `present` is a Bool term, `value` the object it is when present
    (spec mode only: `x is None` is Not(present); attribute access reads the value - contracts guard it with implies)"""
    def __init__(self, present, value):
        self.present, self.value = present, value


class SymSeq(object):
    """a Python list of objects of unknown length, read-only: length term + per-field columns (field f of element k is column f at k).
    column = ('int', array term) | ('int1', 2-D array term, lengths) | ('int2', 3-D array term, rows, cols)
             | ('obj', cls, {field: column}) | ('opt', Bool array term, column)"""
    def __init__(self, cls, length, cols):
        self.cls, self.length, self.cols = cls, length, cols

    @staticmethod
    def col_elem(c, k, presence=None, path=''):
        kind = c[0]
        if kind == 'int':
            return z3.Select(c[1], k)
        if kind == 'int1':
            return AV(z3.Select(c[1], k), (z3.Select(c[2], k),), 'int')
        if kind == 'int2':
            return AV(z3.Select(c[1], k), (z3.Select(c[2], k), z3.Select(c[3], k)), 'int')
        if kind == 'obj':
            return Obj(c[1], {f: SymSeq.col_elem(cc, k, presence, path + f + '.') for f, cc in c[2].items()})
        if kind == 'opt':
            inner = SymSeq.col_elem(c[2], k, presence, path)
            if presence is not None:
                return inner if presence[path.rstrip('.')] else None      # materialised element: statically None or present
            return OptV(z3.Select(c[1], k), inner)
        raise ContractError('sequence column kind %r' % (kind,))

    def elem(self, k, presence=None):
        return Obj(self.cls, {f: SymSeq.col_elem(c, k, presence, f + '.') for f, c in self.cols.items()})

    def opt_paths(self):
        out = []

        def walk(c, path):
            if c[0] == 'opt':
                out.append((path.rstrip('.'), c[1]))
                walk(c[2], path)
            elif c[0] == 'obj':
                for f, cc in c[2].items():
                    walk(cc, path + f + '.')
        for f, c in self.cols.items():
            walk(c, f + '.')
        return out


class BList(object):
    """a Python list of at most len(items) arrays whose length is a term: the result of a callee whose contract bounds the length of
    the list it returns (the bound is an obligation of the callee).  Element k exists iff k < length."""
    def __init__(self, items, length):
        self.items, self.length = list(items), length


class PyConst(object):
    """a concrete Python constant bound to a parameter by a contract variant (e.g. c = 1j)"""
    def __init__(self, value):
        self.value = value


class Unbound(object):
    def __init__(self, why):
        self.why = why


def is_z3(v):
    return isinstance(v, z3.ExprRef)


def to_z3(v):
    if is_z3(v):
        return v
    if isinstance(v, bool):
        return z3.BoolVal(v)
    if isinstance(v, int):
        return z3.IntVal(v)
    if isinstance(v, float):
        if v == int(v):
            return z3.RealVal(int(v))
        return z3.RealVal(repr(v))
    raise OutOfFragment('cannot lift %r to a term' % (v,))


def as_bool(v):
    """Python truthiness of a scalar."""
    v = to_z3(v)
    if z3.is_bool(v):
        return v
    if z3.is_int(v) or z3.is_real(v):
        return v != 0
    raise OutOfFragment('truthiness of %s' % v.sort())


def as_num(v):
    v = to_z3(v)
    if z3.is_bool(v):
        return z3.If(v, z3.IntVal(1), z3.IntVal(0))
    return v


class State(object):
    def __init__(self):
        self.env = {}
        self.heap = {}
        self.pc = []
        self.fresh_locs = set()   # locations allocated by this function (not parameters)
        self.snaps = {}           # label -> (env, heap): ghost snapshots ('loopK.pre', 'loopK.head') for at(label, expr)

    def copy(self):
        s = State()
        s.env = dict(self.env)
        s.heap = dict(self.heap)
        s.pc = list(self.pc)
        s.fresh_locs = set(self.fresh_locs)
        s.snaps = dict(self.snaps)
        return s

    def alloc(self, obj):
        loc = 'L%d' % next(_counter)
        self.heap[loc] = obj
        self.fresh_locs.add(loc)
        return Ref(loc)


class VC(object):
    def __init__(self, oid, hyps, goal, lineno=None, note=''):
        self.oid = oid
        self.hyps = list(hyps)
        self.goal = goal
        self.lineno = lineno
        self.note = note


# ----------------------------------------------------------------------------- spec function translation
class SpecTheory(object):
    """z3 declarations for the executable spec functions of contracts/spec_pauli.py."""

    def __init__(self, spec_module):
        self.mod = spec_module
        self.funcs = {}      # name -> callable(*z3 args) -> z3 term
        self.decls = {}
        self.defs = {}       # name -> (param consts, body term): F(params) == body
        self.macros = {}     # name -> (param consts, index const, element term): F(params)[c] == elt
        self.src = {}
        import inspect
        import textwrap
        pending = []
        for name, f in spec_module.SPEC_FUNCS.items():
            if hasattr(f, '_spec_table'):
                self.funcs[name] = self._table_fn(f._spec_table)
                continue
            argsorts = [self._sort(t) for t in f._spec_argtypes]
            retsort = self._sort(f._spec_ret)
            if getattr(f, '_spec_abstract', False):
                d = z3.Function(name, *(argsorts + [retsort]))      # declared only: no definition is ever given to the solver
                self.decls[name] = d
                self.funcs[name] = d
                self.abstract = getattr(self, 'abstract', set()) | {name}
                continue
            tree = ast.parse(textwrap.dedent(inspect.getsource(f)))
            fdef = [n for n in tree.body if isinstance(n, ast.FunctionDef)][0]
            rets = [n for n in fdef.body if isinstance(n, ast.Return)]
            if len(rets) != 1:
                raise ContractError('spec function %s must be a single return' % name)
            body = rets[0].value
            params = [a.arg for a in fdef.args.args]
            if getattr(f, '_spec_inline', False):
                # a non-recursive scalar helper: every application IS its body (no declaration, nothing to unfold)
                self.funcs[name] = self._inline_fn(name, params, f._spec_argtypes, body)
                continue
            if isinstance(body, ast.ListComp):
                # pointwise definition of an array-valued spec function:  F(args)[c] == elt
                d = z3.Function(name, *(argsorts + [retsort]))
                self.decls[name] = d
                self.funcs[name] = d
                pending.append(('macro', name, params, f._spec_argtypes, body))
            else:
                d = z3.Function(name, *(argsorts + [retsort]))      # uninterpreted; unfolded explicitly (fuel)
                self.decls[name] = d
                self.funcs[name] = d
                pending.append(('rec', name, params, f._spec_argtypes, body))
        for kind, name, params, types, body in pending:
            if kind == 'macro':
                consts = [z3.Const('%s_%s' % (name, p), self._sort(t)) for p, t in zip(params, types)]
                env = {p: self._wrap(c, t) for p, t, c in zip(params, types, consts)}
                var = body.generators[0].target.id
                cv = z3.Const('%s_%s' % (name, var), I)
                env[var] = cv
                ev = SpecEval(self, env, {}, None, None)
                elt = ev.ev(body.elt)
                self.macros[name] = (consts, cv, elt.term if isinstance(elt, AV) else to_z3(elt))     # 2-D macro: the element is a row
        for kind, name, params, types, body in pending:
            if kind == 'rec':
                consts = [z3.Const('%s_%s' % (name, p), self._sort(t)) for p, t in zip(params, types)]
                env = {}
                for p, t, c in zip(params, types, consts):
                    env[p] = self._wrap(c, t)
                ev = SpecEval(self, env, {}, None, None)
                term = ev.ev(body)
                self.defs[name] = (consts, to_z3(term))

    @staticmethod
    def _sort(t):
        return {'int': I, 'int1': A1, 'int2': A2, 'real': R, 'bool': B}[t]

    @staticmethod
    def _wrap(c, t):
        if t == 'int1':
            return AV(c, (fresh('len', I),))
        if t == 'int2':
            return AV(c, (fresh('rows', I), fresh('cols', I)))
        return c

    @staticmethod
    def _table_fn(table):
        def fn(*args):
            args = [as_num(a) for a in args]
            e = z3.IntVal(0)
            for key, val in table.items():
                e = z3.If(z3.And(*[a == k for a, k in zip(args, key)]), z3.IntVal(val), e)
            return e
        return fn

    def _inline_fn(self, name, params, types, body):
        if any(t != 'int' for t in types):
            raise ContractError('inline spec function %s: integer arguments only' % name)
        if any(isinstance(x, ast.Call) and isinstance(x.func, ast.Name) and x.func.id == name for x in ast.walk(body)):
            raise ContractError('inline spec function %s is recursive' % name)

        def fn(*args):
            ev = SpecEval(self, {p: as_num(a) for p, a in zip(params, args)}, {}, None, None)
            return to_z3(ev.ev(body))
        return fn

    def _macro_fn(self, name, params, types, body):
        # [elt for c in range(...)]  ->  Lambda c. elt   (total; the range bound is the array length)
        comp = body.generators[0]
        var = comp.target.id

        def fn(*args):
            env = {}
            for p, t, a in zip(params, types, args):
                env[p] = a if isinstance(a, AV) or not t.startswith('int') or t == 'int' else a
            c = fresh(var, I)
            env[var] = c
            ev = SpecEval(self, env, {}, None, None)
            elt = to_z3(ev.ev(body.elt))
            return AV(z3.Lambda([c], elt), (fresh('len', I),))
        return fn

    def unfoldings(self, formulas, fuel=1):
        """definitional instances  F(args) == body[params := args]  for every application of a recursive spec function
        occurring in `formulas` (ground, or quantified over arguments that are exactly a bound variable), plus the
        pointwise definition of every array-valued (macro) spec function application.
        The spec functions are uninterpreted for the solver; these instances are the only thing it knows about them
        (plus proved ghost lemmas).  Measured: z3's own define-fun-rec unfolding goes `unknown` on the same VCs that are
        instant with one explicit level.
        Depth accounting: applications in the input have depth 0; the result of a recursive unfolding has depth + 1 and is
        only scanned again while depth < fuel; macro expansions are free (same depth as the application)."""
        by_decl = {d.get_id(): (n, d) for n, d in self.decls.items()}
        seen_terms = {}
        hv = {}
        keep = list(formulas)     # keeps every visited ast alive so that ids stay unique
        out = []
        frontier = [(f, 0) for f in formulas]
        rounds = 0
        while frontier and rounds < fuel + 8:
            rounds += 1
            apps = {}
            visited = set()

            def walk(e, d):
                i = e.get_id()
                if i in visited:
                    return
                visited.add(i)
                if z3.is_quantifier(e):
                    walk(e.body(), d)
                    return
                if z3.is_app(e):
                    if e.decl().get_id() in by_decl and i not in seen_terms:
                        apps[i] = (e, d)
                    for c in e.children():
                        walk(c, d)
            for f, d in frontier:
                if d < fuel:
                    walk(f, d)
            nxt = []
            for i, (e, d) in apps.items():
                seen_terms[i] = e
                keep.append(e)
                name = by_decl[e.decl().get_id()][0]
                args = e.children()
                if name in self.macros:
                    if has_var(e, 0, hv):
                        # an application under a binder: add the fully general definition once (macros are not
                        # recursive in themselves, so the general axiom cannot loop)
                        if ('general', name) not in seen_terms:
                            seen_terms[('general', name)] = True
                            consts, cv, elt = self.macros[name]
                            gs_ = [fresh('m', c.sort()) for c in consts]
                            q = fresh('u', I)
                            app = e.decl()(*gs_)
                            inst = z3.substitute(elt, *([(c, g) for c, g in zip(consts, gs_)] + [(cv, q)]))
                            ax = z3.ForAll(gs_ + [q], z3.Select(app, q) == inst, patterns=[z3.Select(app, q)])
                            out.append(ax)
                            nxt.append((ax, d))
                        continue
                    consts, cv, elt = self.macros[name]
                    q = fresh('u', I)
                    inst = z3.substitute(elt, *([(c, a) for c, a in zip(consts, args)] + [(cv, q)]))
                    try:
                        ax = z3.ForAll([q], z3.Select(e, q) == inst, patterns=[z3.Select(e, q)])
                    except z3.Z3Exception:
                        ax = z3.ForAll([q], z3.Select(e, q) == inst)
                    out.append(ax)
                    nxt.append((ax, d))          # macro expansions are free: scanned again at the same depth
                    continue
                if name not in self.defs:
                    continue                     # abstract spec function: declared only
                consts, body = self.defs[name]
                if not has_var(e, 0, hv):
                    inst = z3.substitute(body, *[(c, a) for c, a in zip(consts, args)])
                    out.append(e == inst)
                    nxt.append((inst, d + 1))
                    continue
                # arguments that are exactly a bound variable are generalised (quantified definitional
                # instance with the application as pattern); any other occurrence of a binder: give up
                qs = []
                actual = []
                ok = True
                for c, a in zip(consts, args):
                    if z3.is_var(a):
                        q = fresh('u', a.sort())
                        qs.append(q)
                        actual.append(q)
                    elif has_var(a, 0, hv):
                        ok = False
                        break
                    else:
                        actual.append(a)
                if not ok:
                    continue
                key = (name, tuple(a.get_id() for a in actual if not any(a is q for q in qs)),
                       tuple(k for k, a in enumerate(args) if z3.is_var(a)))
                if key in seen_terms:
                    continue
                seen_terms[key] = True
                app = e.decl()(*actual)
                inst = z3.substitute(body, *[(c, a) for c, a in zip(consts, actual)])
                try:
                    ax = z3.ForAll(qs, app == inst, patterns=[app])
                except z3.Z3Exception:
                    ax = z3.ForAll(qs, app == inst)       # e.g. an if-then-else inside the would-be pattern
                out.append(ax)
                nxt.append((ax, d + 1))
            frontier = nxt
            keep.extend(f for f, _ in nxt)
        return out

    def call(self, name, args):
        f = self.mod.SPEC_FUNCS[name]
        fn = self.funcs[name]
        if hasattr(f, '_spec_table'):
            return fn(*args)
        zargs = []
        for a, t in zip(args, f._spec_argtypes):
            if t in ('int1', 'int2'):
                if not isinstance(a, AV):
                    raise ContractError('spec function %s expects array, got %r' % (name, a))
                zargs.append(a.term)
            else:
                zargs.append(as_num(a))
        if len(zargs) != len(f._spec_argtypes):
            raise ContractError('arity of %s' % name)
        r = fn(*zargs)
        if f._spec_ret == 'int1':
            return AV(r, (fresh('len', I),))
        if f._spec_ret == 'int2':
            return AV(r, (fresh('rows', I), fresh('cols', I)))
        return r


# ----------------------------------------------------------------------------- spec expression evaluator
class SpecEval(object):
    """Evaluates contract expressions (Python expression syntax) to z3 terms.

    env      : name -> value (z3 scalar | AV | Ref | View | tuple | Obj-ref)
    heap     : loc -> AV / Obj  (current state)
    old_env, old_heap : entry state for old(...)
    """

    def __init__(self, theory, env, heap, old_env, old_heap, preds=None, bound=None):
        self.th = theory
        self.env = env
        self.heap = heap
        self.old_env = old_env
        self.old_heap = old_heap
        self.preds = preds or {}
        self.bound = dict(bound or {})   # quantifier-bound names (shadow program variables, survive old())

    def resolve(self, v):
        if isinstance(v, Ref):
            o = self.heap[v.loc]
            return o
        if isinstance(v, View):
            base = self.heap[v.loc]
            return AV(z3.Select(base.term, v.row), base.shape[1:], base.elem)
        return v

    def eval_ref(self, n):
        """the heap reference an expression denotes (no dereferencing), or None"""
        if isinstance(n, ast.Name):
            v = self.bound.get(n.id, self.env.get(n.id))
            return v if isinstance(v, Ref) else None
        if isinstance(n, ast.Attribute):
            base = self.eval_ref(n.value)
            if base is None:
                return None
            o = self.heap.get(base.loc)
            if isinstance(o, Obj):
                v = o.fields.get(n.attr)
                return v if isinstance(v, Ref) else None
            return None
        if isinstance(n, ast.Call) and isinstance(n.func, ast.Name) and n.func.id == 'old' and self.old_env is not None:
            sub = SpecEval(self.th, self.old_env, self.old_heap, self.old_env, self.old_heap, self.preds, self.bound)
            return sub.eval_ref(n.args[0])
        if isinstance(n, ast.Subscript):
            base = self.ev(n.value)
            if isinstance(base, tuple):
                k = z3.simplify(to_z3(self.ev(n.slice)))
                if z3.is_int_value(k):
                    v = base[k.as_long()]
                    return v if isinstance(v, Ref) else None
        return None

    def ev_str(self, s):
        try:
            tree = ast.parse(s.strip(), mode='eval')
        except SyntaxError as e:
            raise ContractError('bad contract expression %r: %s' % (s, e))
        return self.ev(tree.body)

    def ev_bool(self, s):
        v = self.ev_str(s) if isinstance(s, str) else self.ev(s)
        return as_bool(v)

    def ev(self, n):
        m = getattr(self, 'ev_' + type(n).__name__, None)
        if m is None:
            raise ContractError('unsupported spec syntax %s' % type(n).__name__)
        return m(n)

    def ev_Constant(self, n):
        if isinstance(n.value, (bool, int, float)):
            return to_z3(n.value)
        return n.value

    def ev_Name(self, n):
        if n.id in self.bound:
            return self.bound[n.id]
        if n.id not in self.env:
            raise UnknownName('unknown name %r in contract expression' % n.id)
        v = self.env[n.id]
        if isinstance(v, Unbound):
            raise UnknownName('name %r is unbound here (%s)' % (n.id, v.why))
        return self.resolve(v)

    def ev_Tuple(self, n):
        return tuple(self.ev(e) for e in n.elts)

    def ev_Attribute(self, n):
        v = self.ev(n.value)
        if isinstance(v, AV) and n.attr == 'shape':
            return v.shape
        if isinstance(v, OptV):
            v = v.value
        if isinstance(v, Obj):
            if n.attr not in v.fields:
                raise ContractError('object %s has no field %s' % (v.cls, n.attr))
            return self.resolve(v.fields[n.attr])
        if hasattr(v, 'kind') and v.kind == 'slice' and n.attr in ('start', 'stop'):
            r = v.data[0] if n.attr == 'start' else v.data[1]
            if r is None:
                raise ContractError('slice.%s is None' % n.attr)
            return r
        raise ContractError('attribute %s' % n.attr)

    def ev_Subscript(self, n):
        v = self.ev(n.value)
        sl = n.slice
        if isinstance(v, ListObj):
            v = tuple(v.items)
        if isinstance(v, BList):
            v = tuple(v.items)            # element k is meaningful only under k < len(list): contracts guard it with implies(len(..) > k, ..)
        if isinstance(v, tuple):
            k = self.ev(sl)
            k = z3.simplify(to_z3(k))
            if not z3.is_int_value(k):
                raise ContractError('tuple index must be constant')
            return self.resolve(v[k.as_long()])
        if isinstance(v, SymSeq):
            return v.elem(as_num(self.ev(sl)))
        if isinstance(v, AV):
            if isinstance(sl, ast.Tuple):
                idx = [as_num(self.ev(e)) for e in sl.elts]
            else:
                idx = [as_num(self.ev(sl))]
            t = v.term
            for k in idx:
                t = z3.Select(t, k)
            if len(idx) == v.ndim:
                return t
            return AV(t, v.shape[len(idx):], v.elem)
        raise ContractError('subscript of %r' % (v,))

    def ev_UnaryOp(self, n):
        v = self.ev(n.operand)
        if isinstance(n.op, ast.Not):
            return z3.Not(as_bool(v))
        if isinstance(n.op, ast.USub):
            return -as_num(v)
        raise ContractError('unary op')

    def ev_BoolOp(self, n):
        vs = [as_bool(self.ev(e)) for e in n.values]
        return z3.And(*vs) if isinstance(n.op, ast.And) else z3.Or(*vs)

    def ev_IfExp(self, n):
        c = as_bool(self.ev(n.test))
        a = self.ev(n.body)
        b = self.ev(n.orelse)
        if isinstance(a, AV) or isinstance(b, AV):
            return AV(z3.If(c, a.term, b.term), a.shape, a.elem)
        a, b = to_z3(a), to_z3(b)
        if z3.is_bool(a) != z3.is_bool(b):
            a, b = as_num(a), as_num(b)
        return z3.If(c, a, b)

    def ev_Compare(self, n):
        left = self.ev(n.left)
        out = []
        for op, rn in zip(n.ops, n.comparators):
            right = self.ev(rn)
            out.append(compare(op, left, right))
            left = right
        return out[0] if len(out) == 1 else z3.And(*out)

    def ev_BinOp(self, n):
        a = self.ev(n.left)
        b = self.ev(n.right)
        return binop(n.op, a, b, n)

    def ev_Call(self, n):
        if not isinstance(n.func, ast.Name):
            raise ContractError('only plain function calls in contract expressions')
        f = n.func.id
        if f in ('forall', 'exists'):
            # forall(k, lo, hi, body); directly nested quantifiers of the same kind are merged into one binder list
            # (one multi-variable quantifier with one multi-pattern instead of nested ones)
            kvs, rngs = [], []
            saved = dict(self.bound)
            node = n
            try:
                while True:
                    if len(node.args) != 4 or not isinstance(node.args[0], ast.Name):
                        raise ContractError('%s(k, lo, hi, body)' % f)
                    k = node.args[0].id
                    lo = as_num(self.ev(node.args[1]))
                    hi = as_num(self.ev(node.args[2]))
                    kv = fresh(k, I)
                    self.bound[k] = kv
                    kvs.append(kv)
                    rngs += [lo <= kv, kv < hi]
                    inner = node.args[3]
                    if isinstance(inner, ast.Call) and isinstance(inner.func, ast.Name) and inner.func.id == f:
                        node = inner
                        continue
                    body = as_bool(self.ev(inner))
                    break
            finally:
                self.bound = saved
            rng = z3.And(*rngs)
            if f == 'forall':
                return z3.ForAll(kvs, z3.Implies(rng, body))
            return z3.Exists(kvs, z3.And(rng, body))
        if f in ('fresh_loc', 'same_loc'):
            refs = [self.eval_ref(a) for a in n.args]
            if any(r is None for r in refs):
                return z3.BoolVal(False)
            if f == 'fresh_loc':
                return z3.BoolVal(refs[0].loc in getattr(self, 'fresh_locs', ()) and refs[0].loc not in getattr(self, 'entry_locs', ()))
            return z3.BoolVal(refs[0].loc == refs[1].loc)
        if f == 'at':
            label = n.args[0].value if isinstance(n.args[0], ast.Constant) else None
            snaps = getattr(self, 'snaps', {})
            if label not in snaps:
                raise MissingSnapshot('at(%r, ...): no such snapshot here' % (label,))
            env_, heap_ = snaps[label]
            sub = SpecEval(self.th, env_, heap_, self.old_env, self.old_heap, self.preds, self.bound)
            sub.snaps = snaps
            return sub.ev(n.args[1])
        if f == 'old':
            if self.old_env is None:
                raise ContractError('old() not available here')
            sub = SpecEval(self.th, self.old_env, self.old_heap, self.old_env, self.old_heap, self.preds, self.bound)
            return sub.ev(n.args[0])
        if f == 'implies' and len(n.args) == 2:
            a0 = as_bool(self.ev(n.args[0]))
            if z3.is_false(z3.simplify(a0)):
                return z3.BoolVal(True)          # lazily: the consequent may not even be well-formed (e.g. result[1] of a 1-element list)
            return z3.Implies(a0, as_bool(self.ev(n.args[1])))
        args = [self.ev(a) for a in n.args]
        if f == 'len':
            if isinstance(args[0], SymSeq):
                return args[0].length
            if isinstance(args[0], ListObj):
                return z3.IntVal(len(args[0].items))
            if isinstance(args[0], BList):
                return args[0].length
            return args[0].shape[0] if isinstance(args[0], AV) else z3.IntVal(len(args[0]))
        if f == 'rows':
            return args[0].shape[0]
        if f == 'cols':
            return args[0].shape[1]
        if f == 'implies':
            return z3.Implies(as_bool(args[0]), as_bool(args[1]))
        if f == 'iff':
            return as_bool(args[0]) == as_bool(args[1])
        if f == 'b2i':
            return as_num(as_bool(args[0]))
        if f == 'same':
            return args[0].term == args[1].term
        if f == 'eq1':
            a, b = args
            k = fresh('k', I)
            return z3.And(a.shape[0] == b.shape[0],
                          z3.ForAll([k], z3.Implies(z3.And(0 <= k, k < a.shape[0]), a.term[k] == b.term[k])))
        if f == 'cmul':
            return cmul(args[0], args[1])
        if f == 'cneg':
            return cneg(args[0])
        if f == 'cplx_one':
            return z3.Const('cplx_one', CPLX)
        if f == 'min':
            return z3.If(as_num(args[0]) <= as_num(args[1]), as_num(args[0]), as_num(args[1]))
        if f == 'max':
            return z3.If(as_num(args[0]) >= as_num(args[1]), as_num(args[0]), as_num(args[1]))
        if f == 'abs':
            return z3.If(as_num(args[0]) >= 0, as_num(args[0]), -as_num(args[0]))
        if f == 'xor1':
            # array value (a + b) % 2 pointwise, total
            a, b = args
            c = fresh('c', I)
            return AV(z3.Lambda([c], (a.term[c] + b.term[c]) % 2), a.shape, 'int')
        if f in self.preds:
            params, body = self.preds[f]
            if len(params) != len(args):
                raise ContractError('arity of predicate %s' % f)
            sub = SpecEval(self.th, dict(zip(params, args)), self.heap, None, None, self.preds)
            if isinstance(body, (list, tuple)):
                return z3.And(*[sub.ev_bool(b) for b in body])
            return sub.ev_str(body)
        if f in self.th.mod.SPEC_FUNCS:
            return self.th.call(f, args)
        raise ContractError('unknown function %r in contract expression' % f)


def has_var(e, depth=0, cache=None):
    """does e contain a de Bruijn variable that is free at binder depth `depth`?
    (cache: per-call dict; z3 ast ids are only unique among live terms, so no global cache)"""
    if cache is None:
        cache = {}
    key = (e.get_id(), depth)
    if key in cache:
        return cache[key]
    if z3.is_var(e):
        r = z3.get_var_index(e) >= depth
    elif z3.is_quantifier(e):
        r = has_var(e.body(), depth + e.num_vars(), cache)
    else:
        r = any(has_var(c, depth, cache) for c in e.children())
    cache[key] = r
    return r


def compare(op, a, b):
    if (isinstance(a, OptV) and b is None) or (isinstance(b, OptV) and a is None):
        pres = a.present if isinstance(a, OptV) else b.present
        if isinstance(op, (ast.Is, ast.Eq)):
            return z3.Not(pres)
        if isinstance(op, (ast.IsNot, ast.NotEq)):
            return pres
    if isinstance(a, AV) or isinstance(b, AV):
        raise ContractError('array comparison in spec: use eq1/same')
    if a is None or b is None:
        res = (a is None and b is None)
        if isinstance(op, (ast.Is, ast.Eq)):
            return z3.BoolVal(res)
        if isinstance(op, (ast.IsNot, ast.NotEq)):
            return z3.BoolVal(not res)
    if (isinstance(a, PyConst) and is_z3(b) and b.sort() == CPLX) or (isinstance(b, PyConst) and is_z3(a) and a.sort() == CPLX):
        # a concrete complex constant against an abstract complex value: the constant as a named constant of the abstract sort
        def cz(v):
            if not isinstance(v, PyConst):
                return v
            if v.value == 1:
                return z3.Const('cplx_one', CPLX)
            return z3.Const('cplx_const_%s' % repr(complex(v.value)).strip('()').replace('+', 'p').replace('-', 'm').replace('.', '_'), CPLX)
        if isinstance(op, ast.Eq):
            return cz(a) == cz(b)
        if isinstance(op, ast.NotEq):
            return cz(a) != cz(b)
    if isinstance(a, PyConst) or isinstance(b, PyConst):
        # comparison with a concrete Python constant (e.g. the complex unit 1j): decided concretely
        av = a.value if isinstance(a, PyConst) else (z3.simplify(to_z3(a)).as_long() if z3.is_int_value(z3.simplify(to_z3(a))) else None)
        bv = b.value if isinstance(b, PyConst) else (z3.simplify(to_z3(b)).as_long() if z3.is_int_value(z3.simplify(to_z3(b))) else None)
        if av is None or bv is None or not isinstance(op, (ast.Eq, ast.NotEq)):
            raise OutOfFragment('comparison of a Python constant with a symbolic value')
        return z3.BoolVal((av == bv) if isinstance(op, ast.Eq) else (av != bv))
    a, b = to_z3(a), to_z3(b)
    if z3.is_bool(a) != z3.is_bool(b):
        a, b = as_num(a), as_num(b)
    if isinstance(op, ast.Eq):
        return a == b
    if isinstance(op, ast.NotEq):
        return a != b
    if isinstance(op, ast.Lt):
        return a < b
    if isinstance(op, ast.LtE):
        return a <= b
    if isinstance(op, ast.Gt):
        return a > b
    if isinstance(op, ast.GtE):
        return a >= b
    raise OutOfFragment('comparison %s' % type(op).__name__)


def scalar_binop(op, a, b, node=None):
    a, b = as_num(a), as_num(b)
    if isinstance(op, ast.Add):
        return a + b
    if isinstance(op, ast.Sub):
        return a - b
    if isinstance(op, ast.Mult):
        return a * b
    if isinstance(op, (ast.Mod, ast.FloorDiv)):
        bs = z3.simplify(b)
        if not (z3.is_int_value(bs) and bs.as_long() > 0) or not z3.is_int(a):
            raise OutOfFragment('%% or // with a divisor that is not a positive integer literal', node)
        return a % bs if isinstance(op, ast.Mod) else a / bs
    if isinstance(op, ast.Div):
        bs = z3.simplify(b)
        if not (z3.is_rational_value(bs) or z3.is_int_value(bs)):
            raise OutOfFragment('true division by a non-constant', node)
        return z3.ToReal(a) / z3.ToReal(bs) if z3.is_int(a) else a / (z3.ToReal(bs) if z3.is_int(bs) else bs)
    if isinstance(op, ast.Pow):
        asim, bsim = z3.simplify(a), z3.simplify(b)
        if z3.is_int_value(asim) and asim.as_long() == -1:
            return z3.If(b % 2 == 0, z3.IntVal(1), z3.IntVal(-1))
        if z3.is_int_value(bsim) and 0 <= bsim.as_long() <= 4:
            r = z3.IntVal(1)
            for _ in range(bsim.as_long()):
                r = r * a
            return r
        raise OutOfFragment('** outside (-1)**e and x**{0..4}', node)
    raise OutOfFragment('binary operator %s' % type(op).__name__, node)


def binop(op, a, b, node=None):
    if isinstance(a, AV) or isinstance(b, AV):
        raise ContractError('array arithmetic in a contract expression (use xor1 or pointwise quantifiers)')
    return scalar_binop(op, a, b, node)


def array_binop(op, a, b, node=None):
    """elementwise; returns (AV, [shape-equality side conditions], [defining axioms]).
    The result is a fresh array constant r with  forall idx. r[idx] == op(a[idx], b[idx])  (total: no range
    guard, so that rows produced by the same operation from equal operands are equal as arrays)."""
    side = []
    av = a if isinstance(a, AV) else b
    if isinstance(a, AV) and isinstance(b, AV):
        if a.ndim != b.ndim:
            raise OutOfFragment('broadcast between different ranks', node)
        for x, y in zip(a.shape, b.shape):
            side.append(x == y)
    idx = [fresh('c', I) for _ in range(av.ndim)]

    def at(v):
        if isinstance(v, AV):
            t = v.term
            for k in idx:
                t = z3.Select(t, k)
            return t
        return v
    body = scalar_binop(op, at(a), at(b), node)
    elem = 'int' if z3.is_int(body) else 'real'
    r = fresh('ew', arr_sort(av.ndim, elem))
    lhs = r
    for k in idx:
        lhs = z3.Select(lhs, k)
    axiom = z3.ForAll(idx, lhs == body, patterns=[lhs])
    return AV(r, av.shape, elem), side, [axiom]


def elem_sort(elem):
    return {'int': I, 'real': R, 'cplx': CPLX, 'bool': I, 'char': I, 'strc': I}[elem]      # boolean arrays are 0/1 integer arrays; characters are their code points


def arr_sort(ndim, elem='int'):
    s_ = elem_sort(elem)
    for _ in range(ndim):
        s_ = z3.ArraySort(I, s_)
    return s_
