"""Load real source + sidecar contracts, generate VCs per function, discharge, aggregate per obligation."""
import ast
import hashlib
import os
import sys
import time

from . import engine, executor, solve

ROOT = os.path.dirname(os.path.dirname(os.path.abspath(__file__)))
REPO = os.environ.get('PYCLIFFORD_REPO', '/repo')


def load_library():
    sys.path.insert(0, ROOT)
    from contracts import spec_pauli, all_contracts
    theory = engine.SpecTheory(spec_pauli)
    lib = executor.Library(theory, all_contracts.CONTRACTS, all_contracts.LEMMAS, all_contracts.PREDS)
    return lib


_src_cache = {}


def parse_file(filekey):
    if filekey not in _src_cache:
        path = os.path.join(REPO, filekey)
        src = open(path).read()
        _src_cache[filekey] = (src, ast.parse(src, path))
    return _src_cache[filekey]


def find_function(filekey, qualname):
    src, tree = parse_file(filekey)
    parts = qualname.split('.')
    body = tree.body
    node = None
    for i, p in enumerate(parts):
        found = None
        for n in body:
            if isinstance(n, (ast.FunctionDef, ast.ClassDef)) and n.name == p:
                found = n      # last definition wins, like Python
        if found is None:
            return None, None
        node = found
        body = found.body
    seg = ast.get_source_segment(src, node)
    return node, seg


def module_function_names(filekey):
    src, tree = parse_file(filekey)
    return {n.name for n in tree.body if isinstance(n, ast.FunctionDef)}


class Modules(object):
    """name resolution across the files of the package: functions, classes, `from .x import ...`"""

    def __init__(self):
        self.info = {}

    def get(self, filekey):
        if filekey in self.info:
            return self.info[filekey]
        src, tree = parse_file(filekey)
        funcs, classes, imports = {}, {}, {}
        pkg = os.path.dirname(filekey)
        for n in tree.body:
            if isinstance(n, ast.FunctionDef):
                funcs[n.name] = n
            elif isinstance(n, ast.ClassDef):
                classes[n.name] = n
            elif isinstance(n, ast.ImportFrom) and n.level == 1 and n.module:
                target = os.path.join(pkg, n.module + '.py')
                for a in n.names:
                    imports[a.asname or a.name] = (target, a.name)
        self.info[filekey] = {'funcs': funcs, 'classes': classes, 'imports': imports}
        return self.info[filekey]

    def resolve(self, filekey, name, depth=0):
        """-> ('func'|'class', defining filekey, node) or None"""
        if depth > 5:
            return None
        try:
            inf = self.get(filekey)
        except (OSError, SyntaxError):
            return None
        if name in inf['funcs']:
            return ('func', filekey, inf['funcs'][name])
        if name in inf['classes']:
            return ('class', filekey, inf['classes'][name])
        if name in inf['imports']:
            f2, n2 = inf['imports'][name]
            return self.resolve(f2, n2, depth + 1)
        return None

    def mro(self, filekey, cname):
        """linearised single-inheritance chain [(filekey, ClassDef), ...]"""
        out = []
        cur = self.resolve(filekey, cname)
        while cur is not None and cur[0] == 'class':
            out.append((cur[1], cur[2]))
            bases = [b.id for b in cur[2].bases if isinstance(b, ast.Name)]
            if not bases or bases[0] == 'object':
                break
            cur = self.resolve(cur[1], bases[0])
        return out


MODULES = Modules()

LOCALS_FILE = os.path.join(ROOT, 'contracts', 'LOCALS.json')
_locals_rec = None


def ordered_locals(fdef):
    """parameter names, then every name bound in the body, in order of first binding (source order)"""
    out = [a.arg for a in fdef.args.args]
    if fdef.args.vararg:
        out.append(fdef.args.vararg.arg)
    seen = set(out)

    def targets(t):
        if isinstance(t, ast.Name):
            yield t.id
        elif isinstance(t, (ast.Tuple, ast.List)):
            for e in t.elts:
                yield from targets(e)
        elif isinstance(t, ast.Starred):
            yield from targets(t.value)

    class V(ast.NodeVisitor):
        def visit_FunctionDef(self, n):
            if n is not fdef:
                return              # nested functions have their own scope
            self.generic_visit(n)

        def _bind(self, t):
            for nm in targets(t):
                if nm not in seen:
                    seen.add(nm)
                    out.append(nm)

        def visit_Assign(self, n):
            self.generic_visit(n)
            for t in n.targets:
                self._bind(t)

        def visit_AugAssign(self, n):
            self.generic_visit(n)
            self._bind(n.target)

        def visit_For(self, n):
            self._bind(n.target)
            self.generic_visit(n)

    V().visit(fdef)
    return out


def recorded_locals():
    global _locals_rec
    if _locals_rec is None:
        import json
        try:
            _locals_rec = json.load(open(LOCALS_FILE))
        except (OSError, ValueError):
            _locals_rec = {}
    return _locals_rec


def rename_contract(lib, key, fdef):
    """If the function's locals differ from the ones recorded when its contract was written ONLY by a consistent renaming (same
    number of names, same order of first binding), return the contract with the old names replaced by the new ones, and the mapping.
    A wrong guess cannot make anything pass: the renamed contract is still verified against the real code."""
    import copy
    import re
    rec = recorded_locals().get(key.split('#')[0])
    c = lib.contracts[key]
    if not rec:
        return c, {}
    cur = ordered_locals(fdef)
    if cur == rec or len(cur) != len(rec):
        return c, {}
    # names that disappeared are matched, in order of first binding, with the names that appeared; names that are still there keep
    # their meaning even if the ORDER of first binding changed (two initialisations swapped is not a renaming).
    # `result` in a contract always means the returned value, never a local that happens to be called result
    removed = [o for o in rec if o not in cur]
    added = [n_ for n_ in cur if n_ not in rec]
    if len(removed) != len(added):
        return c, {}
    mapping = {o: n_ for o, n_ in zip(removed, added) if o != 'result'}
    if not mapping:
        return c, {}
    raw = copy.deepcopy(lib.raw_contracts[key])
    pat = re.compile(r'(?<![\w.\'"])(%s)(?![\w\'"])' % '|'.join(re.escape(o) for o in sorted(mapping, key=len, reverse=True)))

    def sub(x):
        if isinstance(x, str):
            return pat.sub(lambda m: mapping[m.group(1)], x)
        if isinstance(x, list):
            return [sub(y) for y in x]
        if isinstance(x, tuple):
            return tuple(sub(y) for y in x)
        if isinstance(x, dict):
            # keys: a local's name as a key (loop specs keyed by name), or a site / call text that mentions a local ('call:gate.forward#0.before')
            return {(sub(k) if isinstance(k, str) else k): sub(v) for k, v in x.items()}
        return x
    for fld in ('requires', 'ensures', 'loops', 'hints', 'modifies', 'modifies_scalar', 'result_term', 'calls', 'ghost', 'decreases'):
        if fld in raw:
            raw[fld] = sub(raw[fld])
    raw['params'] = [(mapping.get(p, p), t) for p, t in raw['params']]
    if 'defaults' in raw:
        raw['defaults'] = {mapping.get(k, k): v for k, v in raw['defaults'].items()}
    return executor.Contract(key, raw), mapping


def optional_combinations(c):
    """A parameter object may declare a field as ('opt', T): None or a T.  The function is then verified once per combination of
    absent / present optional fields (each combination is an ordinary contract with 'none' / T in place of the option; obligations
    of the same name are aggregated: all combinations must discharge them).  `x is None` in requires / ensures is decided per case."""
    import copy
    import itertools
    slots = []
    for pi, (p, t) in enumerate(c.params):
        if isinstance(t, dict) and 'fields' in t:
            for f, ft in t['fields'].items():
                if isinstance(ft, tuple) and len(ft) == 2 and ft[0] == 'opt':
                    slots.append((pi, f, ft[1]))
    if not slots:
        return [('', c)]
    out = []
    for choice in itertools.product([False, True], repeat=len(slots)):
        cc = copy.copy(c)
        cc.params = [(p, copy.deepcopy(t)) for p, t in c.params]
        for (pi, f, inner), present in zip(slots, choice):
            cc.params[pi][1]['fields'][f] = inner if present else 'none'
        out.append((''.join('1' if x else '0' for x in choice), cc))
    return out


def gen_function_vcs(lib, key):
    """key = 'pyclifford/utils.py::acq'.  returns (vcs, info)"""
    c = lib.contracts[key]
    filekey, qual = key.split('::')
    qual = qual.split('#')[0]      # 'Class.method#variant': several contracts for one method (dispatch cases)
    fdef, seg = find_function(filekey, qual)
    info = {'key': key, 'file': filekey, 'function': qual}
    if fdef is None:
        info['status'] = 'missing'
        info['error'] = 'function not found in %s' % filekey
        return [], info
    info['lines'] = [fdef.lineno, fdef.end_lineno]
    info['sha256'] = hashlib.sha256(seg.encode()).hexdigest()
    info['dropped'] = ['decorators: ' + ', '.join(ast.unparse(d) for d in fdef.decorator_list)] if fdef.decorator_list else []
    if c.trusted or c.bounded_only:
        info['status'] = 'trusted' if c.trusted else 'bounded_only'
        return [], info
    c, renamed = rename_contract(lib, key, fdef)
    if renamed:
        info['renamed_locals'] = renamed
    outer = find_function(filekey, qual.split('.')[0])[0] if '.' in qual else None
    cls_name = qual.split('.')[0] if isinstance(outer, ast.ClassDef) else None
    try:
        combos = optional_combinations(c)
        vcs, reach, callees, lemmas, nl, skipped = [], [0, 0], set(), set(), 0, 0
        for label, cc in combos:
            fv = executor.FuncVerifier(lib, filekey, fdef, cc, module_function_names(filekey), modules=MODULES, class_name=cls_name)
            try:
                v_ = fv.run()
            except engine.ContractError as e:
                if len(combos) > 1 and str(e).startswith('vacuous'):
                    skipped += 1          # this combination of absent / present optional fields is excluded by the requires
                    continue
                raise
            vcs += v_
            r_ = getattr(fv, 'reachable_returns', (0, 0))
            reach = [reach[0] + (r_[0] or 0), reach[1] + (r_[1] or 0)]
            callees |= fv.used_callees
            lemmas |= fv.used_lemmas
            nl = fv.n_loops
        if len(combos) > 1:
            info['optional_field_cases'] = {'total': len(combos), 'excluded_by_requires': skipped}
            if skipped == len(combos):
                raise engine.ContractError('vacuous: the requires of %s exclude every combination of its optional fields' % key)
        info['status'] = 'ok'
        info['n_loops'] = nl
        info['reachable_returns'] = reach
        info['callees'] = sorted(callees - {key})
        info['lemmas'] = sorted(lemmas)
    except engine.OutOfFragment as e:
        info['status'] = 'out-of-fragment'
        info['error'] = str(e)
        vcs = []
    except engine.ContractError as e:
        # the contract no longer fits the code (extra loop, renamed local used by an invariant, ...): the
        # function's obligations cannot be generated -> undischarged (never silently skipped)
        info['status'] = 'out-of-fragment'
        info['error'] = 'contract does not fit the current source: %s' % e
        vcs = []
    return vcs, info


def gen_lemma_vcs(lib, name):
    return executor.lemma_vcs(lib, lib.lemmas[name])


def aggregate(vcs, results):
    """obligation id -> {'n': path VCs, 'discharged': bool, 'time': s, 'backends': set, 'failed': [..]}"""
    obl = {}
    for vc, r in zip(vcs, results):
        o = obl.setdefault(vc.oid, {'n': 0, 'ok': 0, 'time': 0.0, 'backends': set(), 'failed': []})
        o['n'] += 1
        o['time'] += sum(a[2] for a in r['attempts'])
        if r['result'] == 'unsat':
            o['ok'] += 1
            o['backends'].add(r['attempts'][-1][0])
        else:
            o['failed'].append({'result': r['result'], 'line': vc.lineno, 'note': vc.note,
                                'attempts': r['attempts'], 'output': r['output'][:4000]})
    for o in obl.values():
        o['discharged'] = (o['ok'] == o['n'])
        o['backends'] = sorted(o['backends'])
    return obl
