"""Load real source + sidecar contracts, generate VCs per function, discharge, aggregate per obligation."""
import ast
import hashlib
import os
import sys
import time

from . import engine, executor, solve

ROOT = os.path.dirname(os.path.dirname(os.path.abspath(__file__)))
REPO = os.environ.get('PYCLIFFORD_REPO', '/repo')


def load_library():
    sys.path.insert(0, ROOT)
    from contracts import spec_pauli, all_contracts
    theory = engine.SpecTheory(spec_pauli)
    lib = executor.Library(theory, all_contracts.CONTRACTS, all_contracts.LEMMAS, all_contracts.PREDS)
    return lib


_src_cache = {}


def parse_file(filekey):
    if filekey not in _src_cache:
        path = os.path.join(REPO, filekey)
        src = open(path).read()
        _src_cache[filekey] = (src, ast.parse(src, path))
    return _src_cache[filekey]


def find_function(filekey, qualname):
    src, tree = parse_file(filekey)
    parts = qualname.split('.')
    body = tree.body
    node = None
    for i, p in enumerate(parts):
        found = None
        for n in body:
            if isinstance(n, (ast.FunctionDef, ast.ClassDef)) and n.name == p:
                found = n      # last definition wins, like Python
        if found is None:
            return None, None
        node = found
        body = found.body
    seg = ast.get_source_segment(src, node)
    return node, seg


def module_function_names(filekey):
    src, tree = parse_file(filekey)
    return {n.name for n in tree.body if isinstance(n, ast.FunctionDef)}


def gen_function_vcs(lib, key):
    """key = 'pyclifford/utils.py::acq'.  returns (vcs, info)"""
    c = lib.contracts[key]
    filekey, qual = key.split('::')
    fdef, seg = find_function(filekey, qual)
    info = {'key': key, 'file': filekey, 'function': qual}
    if fdef is None:
        info['status'] = 'missing'
        info['error'] = 'function not found in %s' % filekey
        return [], info
    info['lines'] = [fdef.lineno, fdef.end_lineno]
    info['sha256'] = hashlib.sha256(seg.encode()).hexdigest()
    info['dropped'] = ['decorators: ' + ', '.join(ast.unparse(d) for d in fdef.decorator_list)] if fdef.decorator_list else []
    if c.trusted or c.bounded_only:
        info['status'] = 'trusted' if c.trusted else 'bounded_only'
        return [], info
    fv = executor.FuncVerifier(lib, filekey, fdef, c, module_function_names(filekey))
    try:
        vcs = fv.run()
        info['status'] = 'ok'
        info['n_loops'] = fv.n_loops
    except engine.OutOfFragment as e:
        info['status'] = 'out-of-fragment'
        info['error'] = str(e)
        vcs = []
    return vcs, info


def gen_lemma_vcs(lib, name):
    return executor.lemma_vcs(lib, lib.lemmas[name])


def aggregate(vcs, results):
    """obligation id -> {'n': path VCs, 'discharged': bool, 'time': s, 'backends': set, 'failed': [..]}"""
    obl = {}
    for vc, r in zip(vcs, results):
        o = obl.setdefault(vc.oid, {'n': 0, 'ok': 0, 'time': 0.0, 'backends': set(), 'failed': []})
        o['n'] += 1
        o['time'] += sum(a[2] for a in r['attempts'])
        if r['result'] == 'unsat':
            o['ok'] += 1
            o['backends'].add(r['attempts'][-1][0])
        else:
            o['failed'].append({'result': r['result'], 'line': vc.lineno, 'note': vc.note,
                                'attempts': r['attempts'], 'output': r['output'][:4000]})
    for o in obl.values():
        o['discharged'] = (o['ok'] == o['n'])
        o['backends'] = sorted(o['backends'])
    return obl
