"""Discharge VCs: every VC is written as SMT-LIB text and handed to solver CLIs in parallel.

Primary back end: z3 5.1 (`z3-new` = the z3-solver wheel's CLI, or .venv/bin/z3).  On `unknown`/timeout the
same text is retried with /usr/bin/z3 4.8.12 and a different seed, then cvc5 (plain mode).  A VC is
*discharged* only when some back end answers `unsat` for hyps /\\ not goal.
"""
import hashlib
import os
import shutil
import subprocess
import tempfile
import time
from concurrent.futures import ThreadPoolExecutor
import z3

HERE = os.path.dirname(os.path.abspath(__file__))
ROOT = os.path.dirname(HERE)


def _find(cands):
    for c in cands:
        p = shutil.which(c) if not os.path.isabs(c) else (c if os.path.exists(c) else None)
        if p:
            return p
    return None


Z3_NEW = _find([os.path.join(ROOT, '.venv', 'bin', 'z3'), 'z3-new'])
Z3_OLD = _find(['/usr/bin/z3'])
CVC5 = _find(['/usr/bin/cvc5'])


def vc_text(vc, theory=None, fuel=1):
    s = z3.Solver()
    for h in vc.hyps:
        s.add(h)
    if theory is not None:
        for d in theory.unfoldings(list(vc.hyps) + [vc.goal], fuel):
            s.add(d)
    s.add(z3.Not(vc.goal))
    return s.to_smt2()


def run_cli(cmd, text, timeout_s, cpu_s=None):
    """cpu_s: budget in CPU seconds (ulimit -t of the solver process; the solvers are single-threaded, so on an idle machine this is
    the wall-clock budget); the wall-clock limit is then only a generous safety net, so that a verdict does not depend on how many
    other checks share the machine."""
    t0 = time.time()
    with tempfile.NamedTemporaryFile('w', suffix='.smt2', delete=False, dir=os.environ.get('PYVC_TMP')) as f:
        f.write(text)
        path = f.name
    try:
        if cpu_s is not None:
            full = ['/bin/sh', '-c', 'ulimit -t %d; exec "$@"' % int(cpu_s), 'sh'] + cmd + [path]
            p = subprocess.run(full, capture_output=True, text=True, timeout=12 * cpu_s + 60)
            out = (p.stdout or '') + (p.stderr or '')
            if p.returncode < 0 or p.returncode in (137, 152, 158) or (not out.strip() and p.returncode != 0):
                out = 'timeout (cpu limit %ds)' % int(cpu_s)
        else:
            p = subprocess.run(cmd + [path], capture_output=True, text=True, timeout=timeout_s + 10)
            out = (p.stdout or '') + (p.stderr or '')
    except subprocess.TimeoutExpired:
        out = 'timeout'
    finally:
        os.unlink(path)
    first = out.strip().split('\n')[0].strip() if out.strip() else 'empty'
    res = first if first in ('sat', 'unsat', 'unknown') else ('unknown' if 'timeout' in out else 'error:' + first[:200])
    return res, time.time() - t0, out


def solve_one(item):
    """item: (index, text, timeout_s, want_model) -> dict"""
    idx, text, timeout_s, want_model = item
    attempts = []
    txt = text
    if want_model:
        txt = text.replace('(check-sat)', '(check-sat)\n(get-model)')
    # portfolio: quantifier instantiation in z3 is sensitive to the random seed (measured on the Gram-preservation VCs:
    # 0.4 s with seed 1, > 30 s with seed 4 on the same text), so several cheap attempts beat one long one
    t1 = max(2, int(timeout_s * 0.3))
    t2 = max(2, int(timeout_s * 0.2))
    backends = []
    if Z3_NEW:
        backends.append(('z3-5.1', [Z3_NEW, 'model.completion=true'], t1))
        backends.append(('z3-5.1/seed1', [Z3_NEW, 'smt.random_seed=1', 'sat.random_seed=1'], t2))
        backends.append(('z3-5.1/seed2/arith2', [Z3_NEW, 'smt.random_seed=2', 'smt.arith.solver=2'], t2))
    if Z3_OLD:
        backends.append(('z3-4.8.12', [Z3_OLD, 'smt.random_seed=7'], t1))
    res = 'unknown'
    out = ''
    for name, cmd, cpu in backends:
        r, dt, o = run_cli(cmd, txt, timeout_s, cpu_s=cpu)
        if r.startswith('error') and 'model' in o and 'sat' in o.split('\n')[0]:
            r = 'sat'
        attempts.append((name, r, round(dt, 3)))
        if r in ('sat', 'unsat'):
            res, out = r, o
            break
        out = o
    return {'index': idx, 'result': res, 'attempts': attempts, 'output': out if res != 'unsat' else ''}


def discharge(vcs, timeout_s=30, jobs=None, want_model=True, progress=None, theory=None, fuel=1, retry=True, cross=False):
    """returns list of result dicts aligned with vcs (trivially true goals are not sent to a solver)"""
    jobs = jobs or min(16, os.cpu_count() or 4)
    results = [None] * len(vcs)
    items = []
    for i, vc in enumerate(vcs):
        g = z3.simplify(vc.goal)
        if z3.is_true(g):
            results[i] = {'index': i, 'result': 'unsat', 'attempts': [('simplify', 'unsat', 0.0)], 'output': ''}
            continue
        if z3.is_false(g) and not vc.hyps:
            results[i] = {'index': i, 'result': 'sat', 'attempts': [('simplify', 'sat', 0.0)], 'output': ''}
            continue
        items.append((i, vc_text(vc, theory, getattr(vc, 'fuel', fuel)), timeout_s, want_model))
    with ThreadPoolExecutor(max_workers=jobs) as ex:
        for r in ex.map(solve_one, items):
            results[r['index']] = r
            if progress:
                progress(r)
    # second pass: anything still `unknown` is retried with three times the budget and little parallelism, so that a
    # verdict does not depend on how busy the machine was during the first pass
    again = [it for it in items if results[it[0]]['result'] == 'unknown'] if retry else []
    if again:
        retry = [(i, text, timeout_s * 3, wm) for (i, text, _t, wm) in again]
        with ThreadPoolExecutor(max_workers=max(2, jobs // 4)) as ex:
            for r in ex.map(solve_one, retry):
                prev = results[r['index']]
                r['attempts'] = prev['attempts'] + [('retry',) + tuple(a[1:]) if False else a for a in r['attempts']]
                results[r['index']] = r
    if cross and Z3_OLD:
        # thorough tier: every VC discharged by the primary back end is shown to the second one as well; `sat` there is a
        # disagreement between solvers (reported as a checker problem), `unknown` is just recorded
        def other(it):
            i, text, _t, _w = it
            r, dt, _o = run_cli([Z3_OLD, 'smt.random_seed=3'], text, timeout_s, cpu_s=max(5, timeout_s // 3))
            return i, r, dt
        todo = [it for it in items if results[it[0]]['result'] == 'unsat' and not results[it[0]]['attempts'][-1][0].startswith('z3-4')]
        with ThreadPoolExecutor(max_workers=jobs) as ex:
            for i, r, dt in ex.map(other, todo):
                results[i]['cross'] = r
                results[i]['attempts'] = results[i]['attempts'] + [('cross:z3-4.8.12', r, round(dt, 3))]
    return results
