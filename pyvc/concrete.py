"""Concrete (native) evaluation of contracts: the same contract strings that engine A turns into VCs are
compiled to ordinary Python and evaluated on numpy arrays.  Used for
  * replay of failing inputs against the real code (compiled kernels and their py_func),
  * the failing-input search that accompanies a failed obligation,
  * the run-time monitor / bounded stand-in (contract as oracle over an enumerated input space).
"""
import ast
import copy
import numpy as np

from contracts import spec_pauli


class _Rewrite(ast.NodeTransformer):
    def __init__(self, preds):
        self.preds = preds
        self.bound = []
        self.in_old = 0

    def visit_Name(self, n):
        if self.in_old and n.id not in self.bound and n.id not in _HELPERS and n.id not in self.preds \
                and n.id not in spec_pauli.SPEC_FUNCS and n.id not in ('True', 'False', 'None'):
            return ast.copy_location(ast.Subscript(ast.Name('__old', ast.Load()), ast.Constant(n.id), ast.Load()), n)
        return n

    def visit_Compare(self, n):
        # equality with a complex product / negation: floating-point complex arithmetic (numpy array loops, numba scalars and Python
        # scalars round differently in the last place) is compared with a relative tolerance of 1e-9; exactness of the coefficient
        # arithmetic is not part of any contract
        n = self.generic_visit(n)
        if len(n.ops) == 1 and isinstance(n.ops[0], ast.Eq):
            sides = [n.left, n.comparators[0]]
            if any(isinstance(x, ast.Call) and isinstance(x.func, ast.Name) and x.func.id in ('cmul', 'cneg') for x in sides):
                return ast.copy_location(ast.Call(ast.Name('_ceq', ast.Load()), sides, []), n)
        return n

    def visit_Call(self, n):
        if isinstance(n.func, ast.Name):
            f = n.func.id
            if f in ('forall', 'exists'):
                k = n.args[0].id
                lo = self.visit(n.args[1])
                hi = self.visit(n.args[2])
                self.bound.append(k)
                body = self.visit(n.args[3])
                self.bound.pop()
                gen = ast.GeneratorExp(
                    elt=ast.Call(ast.Name('bool', ast.Load()), [body], []),
                    generators=[ast.comprehension(ast.Name(k, ast.Store()),
                                                  ast.Call(ast.Name('range', ast.Load()),
                                                           [ast.Call(ast.Name('int', ast.Load()), [lo], []),
                                                            ast.Call(ast.Name('int', ast.Load()), [hi], [])], []), [], 0)])
                return ast.Call(ast.Name('all' if f == 'forall' else 'any', ast.Load()), [gen], [])
            if f == 'same_loc' and any(isinstance(x, ast.Call) and isinstance(x.func, ast.Name) and x.func.id == 'old'
                                       for a in n.args for x in ast.walk(a)):
                return ast.Constant(True)      # identity with the pre-state object: decided deductively only
            if f == 'implies' and len(n.args) == 2:
                a = self.visit(n.args[0])
                b_ = self.visit(n.args[1])
                return ast.BoolOp(ast.Or(), [ast.UnaryOp(ast.Not(), ast.Call(ast.Name('bool', ast.Load()), [a], [])),
                                             ast.Call(ast.Name('bool', ast.Load()), [b_], [])])      # lazy, like the symbolic evaluator
            if f == 'old':
                self.in_old += 1
                inner = self.visit(n.args[0])
                self.in_old -= 1
                return inner
        n.args = [self.visit(a) for a in n.args]
        return n


def _rows(a):
    return a.shape[0]


def _cols(a):
    return a.shape[1]


def _implies(a, b):
    return (not a) or bool(b)


def _iff(a, b):
    return bool(a) == bool(b)


def _same(a, b):
    return np.array_equal(np.asarray(a), np.asarray(b))


def _xor1(a, b):
    return (np.asarray(a) + np.asarray(b)) % 2


def _arrays(o, depth=0):
    if isinstance(o, np.ndarray):
        return [o]
    out = []
    if depth > 4 or o is None:
        return out
    if isinstance(o, (list, tuple)):
        for x in o:
            out += _arrays(x, depth + 1)
    elif hasattr(o, '__dict__'):
        for v in vars(o).values():
            out += _arrays(v, depth + 1)
    return out


def _same_loc(a, b):
    if isinstance(a, np.ndarray) and isinstance(b, np.ndarray):
        return a is b or (a.shape == b.shape and a.size > 0 and np.shares_memory(a, b))
    return a is b


_HELPERS = {'same_loc': _same_loc, 'fresh_loc': lambda x: True, 'rows': _rows, 'cols': _cols, 'implies': _implies, 'iff': _iff, 'same': _same, 'eq1': _same,
            'b2i': lambda x: int(bool(x)), 'cmul': lambda a, b: a * b, 'cneg': lambda a: -a, '_ceq': lambda a, b: abs(complex(a) - complex(b)) <= 1e-9 * (1.0 + abs(complex(b))), 'cplx_one': lambda: 1.0 + 0j, 'len': len, 'min': min, 'max': max, 'abs': abs,
            'all': all, 'any': any, 'range': range, 'int': int, 'bool': bool, 'xor1': _xor1}


class Evaluator(object):
    def __init__(self, preds):
        self.preds = preds
        self.cache = {}
        self.ns = dict(_HELPERS)
        self.ns.update(spec_pauli.SPEC_FUNCS)
        for name, (params, body) in preds.items():
            self.ns[name] = self._mk_pred(name, params, body)

    def _compile(self, s):
        if s not in self.cache:
            tree = ast.parse(s.strip(), mode='eval')
            tree = _Rewrite(self.preds).visit(tree)
            ast.fix_missing_locations(tree)
            self.cache[s] = compile(tree, '<contract>', 'eval')
        return self.cache[s]

    def _mk_pred(self, name, params, body):
        def pred(*args):
            env = dict(zip(params, args))
            if isinstance(body, (list, tuple)):
                return all(bool(self.eval(b, env, None)) for b in body)
            return self.eval(body, env, None)          # a single expression: value-returning macro (may be an integer)
        return pred

    def eval(self, s, env, old):
        ns = dict(self.ns)
        ns.update(env)
        ns['__old'] = old if old is not None else env
        return eval(self._compile(s), ns)


def _deep_equal(x, y, depth=0):
    if isinstance(x, np.ndarray) or isinstance(y, np.ndarray):
        return isinstance(x, np.ndarray) and isinstance(y, np.ndarray) and np.array_equal(x, y)
    if isinstance(x, (list, tuple)) and isinstance(y, (list, tuple)) and depth < 4:
        return len(x) == len(y) and all(_deep_equal(a, b, depth + 1) for a, b in zip(x, y))
    if hasattr(x, '__dict__') and hasattr(y, '__dict__') and depth < 4 and type(x).__module__.split('.')[0] in ('pyclifford', 'torchclifford'):
        dx, dy = vars(x), vars(y)
        return type(x) is type(y) and dx.keys() == dy.keys() and all(_deep_equal(dx[k], dy[k], depth + 1) for k in dx)
    try:
        return bool(x == y)
    except Exception:
        return x is y


def _clone(v):
    if isinstance(v, np.ndarray):
        return v.copy()
    return copy.deepcopy(v)


def _spec_view(t, v):
    """contracts see a str / a list of one-character strings as the array of its code points (the real call gets the real value)"""
    if t in ('char1', 'str') and not isinstance(v, np.ndarray):
        return np.array([ord(ch) for ch in v], dtype=np.int64)
    return v


def check_call(ev, contract, func, args, check_frame=True):
    """args: dict name -> value.  Returns (status, detail):
       'skip' (requires false), 'ok', or 'fail' with the failing clause."""
    names = [p for p, _ in contract.params]
    types = dict(contract.params)
    env0 = {k: _spec_view(types[k], _clone(args[k])) for k in names}
    for r in contract.requires:
        try:
            if not ev.eval(r, env0, env0):
                return 'skip', r
        except Exception as e:      # a requires that cannot be evaluated on this input: treat as not satisfied
            return 'skip', '%s (%s)' % (r, e)
    call_args = [_clone(args[k]) for k in names]
    inputs = _arrays(call_args)      # arrays reachable from the arguments before the call
    exc = None
    flat = []
    for (p_, t_), v_ in zip(contract.params, call_args):
        if isinstance(t_, tuple) and t_ and t_[0] == 'varargs':
            flat.extend(list(v_))            # *name parameter: the tuple is spread over the positional arguments
        else:
            flat.append(v_)
    try:
        result = func(*flat)
    except Exception as e:          # noqa
        exc = e
        result = None
    if exc is not None:
        name = type(exc).__name__
        if name in getattr(contract, 'may_raise', ()):
            return 'ok', 'raised (allowed on any input: partial-correctness contract)'
        if name in contract.raises:
            ok = bool(ev.eval(contract.raises[name], env0, env0))
            return ('ok', 'raised as specified') if ok else ('fail', 'raises.%s.only_when: raised %r' % (name, exc))
        return 'fail', 'no_raise: %s: %s' % (name, exc)
    for name, cond in contract.raises.items():
        if ev.eval(cond, env0, env0):
            return 'fail', 'raises.%s: should have raised' % name
    env1 = {k: _spec_view(types[k], v) for k, v in zip(names, call_args)}
    env1['result'] = result
    env1['fresh_loc'] = lambda x: not any(isinstance(x, np.ndarray) and x.size and a.size and np.shares_memory(x, a) for a in inputs)
    for k, e in enumerate(contract.ensures):
        if getattr(contract, 'ghost', None) and any(isinstance(x_, ast.Name) and x_.id in contract.ghost for x_ in ast.walk(ast.parse(e.strip(), mode='eval'))):
            continue      # names a local of the function (a witness): decided deductively only
        try:
            ok = bool(ev.eval(e, env1, env0))
        except Exception as ex:
            return 'fail', 'post%d: %s -- evaluation error %r' % (k, e, ex)
        if not ok:
            return 'fail', 'post%d: %s' % (k, e)
    if check_frame:
        for p, t in contract.params:
            if p in contract.modifies:
                continue
            a, b = env0[p], env1[p]
            if isinstance(a, np.ndarray):
                if not np.array_equal(a, b):
                    return 'fail', 'frame.%s' % p
            elif isinstance(t, dict):
                for fld in t['fields']:
                    pf = '%s.%s' % (p, fld)
                    if pf in contract.modifies or pf in getattr(contract, 'modifies_scalar', ()):
                        continue
                    x, y = getattr(a, fld, None), getattr(b, fld, None)
                    same_ = _deep_equal(x, y)
                    if not same_:
                        return 'fail', 'frame.%s' % pf
    if contract.returns is not None:
        descs = contract.returns if isinstance(contract.returns, (tuple, list)) else (contract.returns,)
        vals = result if isinstance(contract.returns, (tuple, list)) else (result,)
        for k, (d, v) in enumerate(zip(descs, vals)):
            if isinstance(d, str) and d.startswith('='):
                tgt = call_args[names.index(d[1:])]
                if not (v is tgt or (isinstance(v, np.ndarray) and isinstance(tgt, np.ndarray) and v.shape == tgt.shape
                                     and (v.size == 0 or np.shares_memory(v, tgt)))):
                    return 'fail', 'post.result%d_is_%s' % (k, d[1:])
            elif isinstance(d, str) and d.endswith('fresh'):
                for a in call_args:
                    if isinstance(a, np.ndarray) and isinstance(v, np.ndarray) and v.size and np.shares_memory(v, a):
                        return 'fail', 'post.result%d_fresh' % k
    return 'ok', ''


def to_jsonable(v):
    if isinstance(v, np.ndarray):
        return {'__ndarray__': v.tolist(), 'dtype': str(v.dtype)}
    if isinstance(v, (np.integer,)):
        return int(v)
    if isinstance(v, (np.floating,)):
        return float(v)
    if isinstance(v, (np.bool_,)):
        return bool(v)
    if isinstance(v, complex):
        return {'__complex__': [v.real, v.imag]}
    if isinstance(v, slice):
        return {'__slice__': [v.start, v.stop, v.step]}
    if isinstance(v, dict):
        return {k: to_jsonable(x) for k, x in v.items()}
    if isinstance(v, (list, tuple)):
        return [to_jsonable(x) for x in v]
    if hasattr(v, '__dict__') and type(v).__module__.split('.')[0] in ('pyclifford', 'torchclifford'):
        return {'__obj__': type(v).__name__, 'module': type(v).__module__, 'fields': {k: to_jsonable(x) for k, x in vars(v).items()}}
    return v


def from_jsonable(v):
    if isinstance(v, dict) and '__obj__' in v:
        import importlib
        cls = getattr(importlib.import_module(v['module']), v['__obj__'])
        o = cls.__new__(cls)
        for k, x in v['fields'].items():
            setattr(o, k, from_jsonable(x))
        return o
    if isinstance(v, dict) and '__ndarray__' in v:
        dt = v.get('dtype', 'int64')
        return np.array(v['__ndarray__'], dtype=dt if dt != 'object' else None)
    if isinstance(v, dict) and '__complex__' in v:
        return complex(*v['__complex__'])
    if isinstance(v, dict) and '__slice__' in v:
        return slice(*v['__slice__'])
    if isinstance(v, dict):
        return {k: from_jsonable(x) for k, x in v.items()}
    if isinstance(v, list):
        return [from_jsonable(x) for x in v]
    return v
