"""Symbolic executor / VC generator over the Python ast (see engine.py docstring)."""
import ast
import z3
from .engine import (I, R, B, A1, A2, CPLX, cmul, fresh, OutOfFragment, ContractError, MissingSnapshot, UnknownName, AV, Ref, View, IdxList,
                     Gather, ArrCmp, ListObj, BList, Obj, OptV, Unbound, PyConst, SymSeq, State, VC, SpecEval, elem_sort, arr_sort,
                     is_z3, to_z3, as_bool, as_num, compare, scalar_binop, array_binop)

TYPE_ARR = {'bool1': (1, 'bool'), 'int1': (1, 'int'), 'int2': (2, 'int'), 'real1': (1, 'real'), 'cplx1': (1, 'cplx'), 'cplx2': (2, 'cplx'), 'int3': (3, 'int'),
            'char1': (1, 'char'), 'str': (1, 'strc')}      # a list of one-character strings / a str: arrays of code points


class Tag(object):
    """non-value expression results: modules, bound methods, functions"""
    def __init__(self, kind, *data):
        self.kind = kind
        self.data = data

    def __getitem__(self, k):
        return self.kind if k == 0 else self.data[k - 1]


POW2 = z3.Function('pow2', I, I)


_FN = [0]


def fresh_name(prefix):
    _FN[0] += 1
    return '%s!f%d' % (prefix, _FN[0])


def fresh_array(prefix, ndim, elem='int', shape=None):
    term = fresh(prefix, arr_sort(ndim, elem))
    if shape is None:
        shape = tuple(fresh(prefix + '_n%d' % d, I) for d in range(ndim))
    return AV(term, shape, elem)


def const_array(ndim, elem, value):
    t = value
    sorts = []
    s = elem_sort(elem)
    for _ in range(ndim):
        t = z3.K(I, t)
    return t


class LoopSpec(object):
    def __init__(self, d):
        self.var = d.get('var')
        # an invariant entry is a clause string, or (clause, {'by': [facts], 'cases': [...]}): its preservation is then proved
        # from the listed facts (each proved in the full end-of-body context; '@head' = this clause at the loop head) and the
        # arithmetic part of the path condition only
        self.invariant = []
        self.step_by = {}
        for ci, item in enumerate(d.get('invariant', [])):
            if isinstance(item, (tuple, list)):
                self.invariant.append(item[0])
                self.step_by[ci] = dict(item[1])
            else:
                self.invariant.append(item)
        self.hints_head = list(d.get('hints_head', []))       # lemma calls / asserts after assuming the invariant
        self.hints_end = list(d.get('hints_end', []))         # ... at the end of the body before re-proving it
        self.hints_exit = list(d.get('hints_exit', []))
        self.hints_init = list(d.get('hints_init', []))       # ... before the loop (list loops: before the clauses are first asserted)
        self.locals = dict(d.get('locals', {}))


class Contract(object):
    def __init__(self, key, d):
        self.key = key
        self.name = key.split('::')[-1]
        self.params = list(d['params'])                 # [(name, type)]
        self.requires = list(d.get('requires', []))
        self.ensures = list(d.get('ensures', []))
        self.modifies = [m for m in d.get('modifies', []) if m not in d.get('modifies_scalar', [])]
        self.modifies_scalar = list(d.get('modifies_scalar', []))
        self.returns = d.get('returns', None)           # type descriptor or tuple of them; '=p' aliases param p
        self.loops = {k: LoopSpec(v) for k, v in d.get('loops', {}).items()}
        self.raises = dict(d.get('raises', {}))         # exc name -> condition over the entry state
        self.result_term = d.get('result_term')         # spec expression the (array) result equals pointwise on its range
        self.may_raise = list(d.get('may_raise', []))   # exceptions that may be raised on any input (partial correctness: frame only)
        self.hints = dict(d.get('hints', {}))           # site -> list of hints  ('return', 'assert0', ...)
        self.trusted = bool(d.get('trusted', False))    # contract assumed, body not verified (listed in evidence)
        self.bounded_only = bool(d.get('bounded_only', False))
        self.defaults = dict(d.get('defaults', {}))
        self.canonical_slices = bool(d.get('canonical_slices', False))   # a[lo:hi] reads as the spec terms RowSlice / Slice1
        self.ghost = list(d.get('ghost', []))           # locals that postconditions may name (deductive only: skipped natively and at call sites)
        self.calls = dict(d.get('calls', {}))           # call text (e.g. 'gate.forward') -> the contract variant of the callee this proof uses there
        self.decreases = d.get('decreases')             # integer expression over the parameters: strictly smaller (and >= 0) at every recursive call
        self.doc = d.get('doc', '')


class Lemma(object):
    def __init__(self, name, d):
        self.name = name
        self.params = list(d['params'])
        self.requires = list(d.get('requires', []))
        self.ensures = list(d.get('ensures', []))
        self.induction = d.get('induction')     # name of the int parameter to induct on (or None)
        self.uses = list(d.get('uses', []))     # hints used inside the proof (evaluated in the lemma's own env)
        self.uses_step = list(d.get('uses_step', []))
        self.axiom = d.get('axiom')             # text: why this is assumed (mathematical bridge) -> listed as assumption
        self.fuel = d.get('fuel', 1)            # unfolding depth of recursive spec functions in this lemma's VCs
        self.doc = d.get('doc', '')


class Library(object):
    """all contracts, lemmas, predicates + the spec theory"""
    def __init__(self, theory, contracts, lemmas, preds):
        self.theory = theory
        self.raw_contracts = contracts
        self.contracts = {k: Contract(k, v) for k, v in contracts.items()}
        self.lemmas = {k: Lemma(k, v) for k, v in lemmas.items()}
        self.preds = preds
        self.by_name = {}
        for k, c in self.contracts.items():
            self.by_name.setdefault((k.split('::')[0], c.name), c)


class FuncVerifier(object):
    def __init__(self, lib, filekey, fdef, contract, module_funcs, class_name=None, modules=None):
        self.lib = lib
        self.modules = modules
        self.class_name = class_name
        self.used_callees = set()      # keys of the contracts this function's proof relies on at modular calls
        self.used_lemmas = set()       # ghost lemmas its ghost code instantiates
        # functions defined inside functions: name -> qualified name ('outer.inner', the name its contract is filed under)
        qual = contract.key.split('::')[1].split('#')[0]
        self.qual = qual
        self.local_funcs = {fdef.name: qual} if (class_name is None and '.' in qual) else {}
        self.inline_depth = 0
        self.auto_ord = {}
        self.filekey = filekey
        self.fdef = fdef
        self.c = contract
        self.module_funcs = module_funcs
        self.vcs = []
        self.notes = []
        self.loop_ord = {}
        self.call_ord = {}
        self.assert_ord = {}
        n_loop = n_assert = 0
        counts = {}
        for node in ast.walk(fdef):
            pass
        # pre-order numbering (ast.walk is BFS; do DFS explicitly)
        self.if_ord = {}
        n_if = 0

        def dfs(n):
            nonlocal n_loop, n_assert, n_if
            if isinstance(n, ast.If):
                self.if_ord[id(n)] = n_if
                n_if += 1
            if isinstance(n, (ast.For, ast.While)):
                self.loop_ord[id(n)] = n_loop
                n_loop += 1
            if isinstance(n, ast.Assert):
                self.assert_ord[id(n)] = n_assert
                n_assert += 1
            if isinstance(n, ast.Call):
                nm = self.call_name(n)
                k = counts.get(nm, 0)
                counts[nm] = k + 1
                self.call_ord[id(n)] = '%s#%d' % (nm, k)
            for ch in ast.iter_child_nodes(n):
                dfs(ch)
        dfs(fdef)
        self.n_loops = n_loop

    @staticmethod
    def call_name(n):
        f = n.func
        parts = []
        while isinstance(f, ast.Attribute):
            parts.append(f.attr)
            f = f.value
        if isinstance(f, ast.Name):
            parts.append(f.id)
        else:
            parts.append('?')
        return '.'.join(reversed(parts))

    # ------------------------------------------------------------------ obligations
    def oblige(self, st, site, goal, node=None, note=''):
        goal = as_bool(goal)
        oid = '%s::%s' % (self.c.key, site)
        self.vcs.append(VC(oid, st.pc, goal, getattr(node, 'lineno', None), note))

    def assume(self, st, fact):
        st.pc.append(as_bool(fact))

    def spec(self, st, bound=None, extra=None):
        env = st.env
        if extra:
            env = dict(env)
            env.update(extra)
        sp = SpecEval(self.lib.theory, env, st.heap, self.entry.env, self.entry.heap, self.lib.preds, bound)
        sp.fresh_locs = st.fresh_locs
        sp.entry_locs = self.entry.heap.keys()
        sp.snaps = st.snaps
        return sp

    # ------------------------------------------------------------------ hints (ghost code)
    def apply_hints(self, st, hints, site, extra=None):
        """hint forms:
             ('lemma', name, [arg exprs])      prove the lemma's requires here, then assume its ensures
             ('assert', expr)                  prove expr here, then assume it (intermediate assertion)
             ('forall_lemma', k, lo, hi, name, [arg exprs])   instantiate for all k in [lo,hi) (requires proved under the range)
        """
        if hints is not None:
            st.snaps = dict(st.snaps)
            st.snaps[site] = (dict(st.env) if not extra else dict(st.env, **extra), dict(st.heap))
        for hi_, h in enumerate(hints):
            try:
                self.apply_one_hint(st, h, hi_, site, extra)
            except MissingSnapshot:
                continue
            except (UnknownName, IndexError):
                if h and h[-1] == 'optional':
                    continue      # optional ghost step that mentions something this path does not have
                raise
            if False:
                continue      # the hint refers to a program point this path did not pass: not applicable here

    def has_spec_app(self, e, _seen=None):
        """does the term mention a spec function?  (such facts must be listed explicitly in a by-clause)"""
        if _seen is None:
            _seen = {}
            self._spec_ids = {d.get_id() for d in self.lib.theory.decls.values()}
        i = e.get_id()
        if i in _seen:
            return _seen[i]
        r = (z3.is_app(e) and e.decl().get_id() in self._spec_ids) or any(self.has_spec_app(c, _seen) for c in e.children())
        _seen[i] = r
        return r

    def apply_one_hint(self, st, h, hi_, site, extra):
        if h and h[-1] == 'optional':
            h = h[:-1]
        for _once in (0,):
            kind = h[0]
            if kind == 'unless_passed':
                # ('unless_passed', site, [hints]): ghost code for the paths that did NOT pass the named hint site
                if h[1] not in st.snaps:
                    for j_, hh in enumerate(h[2]):
                        try:
                            self.apply_one_hint(st, hh, j_, '%s.hint%d' % (site, hi_), extra)
                        except MissingSnapshot:
                            pass
                continue
            if kind == 'unless':
                # ('unless', guard, [hints]): ghost code for the paths on which the NEGATED guard is a literal of the path condition
                g = self.spec(st, extra=extra).ev_bool(h[1])
                ng = z3.Not(g)
                if any(z3.eq(x, ng) for x in st.pc):
                    for j_, hh in enumerate(h[2]):
                        try:
                            self.apply_one_hint(st, hh, j_, '%s.hint%d' % (site, hi_), extra)
                        except MissingSnapshot:
                            pass
                elif not any(z3.eq(x, g) for x in st.pc):
                    raise ContractError('unless-guard %r is not decided by the path condition at %s' % (h[1], site))
                continue
            if kind == 'when':
                # ('when', guard, [hints]): ghost code for the paths on which the guard is a literal of the path condition
                # (or is decided by the concrete part of the state, e.g. the length of a Python list)
                g = self.spec(st, extra=extra).ev_bool(h[1])
                ng = z3.Not(g)
                gs_ = z3.simplify(g)
                if z3.is_false(gs_):
                    continue
                if z3.is_true(gs_) or any(z3.eq(x, g) for x in st.pc):
                    for j_, hh in enumerate(h[2]):
                        try:
                            self.apply_one_hint(st, hh, j_, '%s.hint%d' % (site, hi_), extra)
                        except MissingSnapshot:
                            pass
                elif not any(z3.eq(x, ng) for x in st.pc):
                    raise ContractError('when-guard %r is not decided by the path condition at %s' % (h[1], site))
                continue
            if kind == 'assert_from':
                # ('assert_from', expr, [facts]): each fact is proved from the full path condition; expr is then proved
                # from the facts and the quantifier-free part of the path condition ONLY (a `by` clause: keeps the
                # solver away from unrelated quantified hypotheses); expr is assumed afterwards
                if st.snaps.get(('done', site, h[1])):
                    continue          # an earlier, more specific hint already established this on this path
                sp = self.spec(st, extra=extra)
                facts = []
                for fi, fx in enumerate(h[2]):
                    if isinstance(fx, tuple):
                        # a lemma instance as a fact: its requires are proved in the full context, its ensures join the facts
                        scratch = st.copy()
                        n0 = len(scratch.pc)
                        self.apply_one_hint(scratch, fx, fi, '%s.hint%d.fact' % (site, hi_), extra)
                        facts.extend(scratch.pc[n0:])
                        continue
                    fz = sp.ev_bool(fx)
                    self.oblige(st, '%s.hint%d.fact%d' % (site, hi_, fi), fz, note=fx)
                    facts.append(fz)
                g = sp.ev_bool(h[1])
                light = [x for x in st.pc if not has_quantifier(x) and not self.has_spec_app(x)]
                oid = '%s::%s.hint%d.assert' % (self.c.key, site, hi_)
                cases = [sp.ev_bool(c) for c in (h[3] if len(h) > 3 else [])]
                if cases:
                    # explicit case split (must be exhaustive): one query per case
                    self.vcs.append(VC(oid, light + facts, z3.Or(*cases), None, 'cases exhaustive'))
                    for cz in cases:
                        self.vcs.append(VC(oid, light + facts + [cz], g, None, h[1]))
                else:
                    self.vcs.append(VC(oid, light + facts, g, None, h[1]))
                self.assume(st, g)
                st.snaps[('done', site, h[1])] = True
                continue
            if kind == 'assert_using':
                # ('assert_using', expr, [hints]): prove expr with the given lemma instances in scope, keep only expr
                scratch = st.copy()
                self.apply_hints(scratch, h[2], '%s.hint%d.using' % (site, hi_), extra)
                g = self.spec(scratch, extra=extra).ev_bool(h[1])
                self.oblige(scratch, '%s.hint%d.assert' % (site, hi_), g)
                self.assume(st, self.spec(st, extra=extra).ev_bool(h[1]))
                continue
            if kind == 'assert':
                g = self.spec(st, extra=extra).ev_bool(h[1])
                self.oblige(st, '%s.hint%d.assert' % (site, hi_), g)
                self.assume(st, g)
            elif kind == 'lemma?':
                # assume (requires => ensures) without proving the requires here (always sound)
                lem = self.lib.lemmas[h[1]]
                self.used_lemmas.add(h[1])
                sp = self.spec(st, extra=extra)
                args = [sp.ev_str(a) for a in h[2]]
                pre, post = instantiate_lemma(self.lib, lem, args)
                self.assume(st, z3.Implies(z3.And(*pre) if pre else z3.BoolVal(True), z3.And(*post)))
            elif kind == 'lemma':
                lem = self.lib.lemmas[h[1]]
                self.used_lemmas.add(h[1])
                sp = self.spec(st, extra=extra)
                args = [sp.ev_str(a) for a in h[2]]
                pre, post = instantiate_lemma(self.lib, lem, args)
                if pre:
                    self.oblige(st, '%s.hint%d.%s.pre' % (site, hi_, lem.name), z3.And(*pre))
                for p in post:
                    self.assume(st, p)
            elif kind == 'forall_lemma':
                opts = {}
                if isinstance(h[-1], dict):
                    opts, h = h[-1], h[:-1]
                if len(h) == 6:
                    binders, name, argexprs = [(h[1], h[2], h[3])], h[4], h[5]
                else:
                    _, binders, name, argexprs = h
                lem = self.lib.lemmas[name]
                self.used_lemmas.add(name)
                sp = self.spec(st, extra=extra)
                kvs, rngs = [], []
                for (k, lo, hi) in binders:
                    lo_v = as_num(sp.ev_str(lo))
                    hi_v = as_num(sp.ev_str(hi))
                    kv = fresh(k, I)
                    sp.bound[k] = kv
                    kvs.append(kv)
                    rngs += [lo_v <= kv, kv < hi_v]
                args = [sp.ev_str(a) for a in argexprs]
                pre, post = instantiate_lemma(self.lib, lem, args)
                rng = z3.And(*rngs)
                if pre:
                    self.oblige(st, '%s.hint%d.%s.pre' % (site, hi_, lem.name),
                                z3.ForAll(kvs, z3.Implies(rng, z3.And(*pre))))
                if 'trigger' in opts:
                    # explicit instantiation trigger for the assumed instance family (the solver's own choice may be a term
                    # that never occurs in the goal)
                    trig = to_z3(sp.ev_str(opts['trigger']))
                    self.assume(st, z3.ForAll(kvs, z3.Implies(rng, z3.And(*post)), patterns=[trig]))
                else:
                    self.assume(st, z3.ForAll(kvs, z3.Implies(rng, z3.And(*post))))
            else:
                raise ContractError('unknown hint kind %r' % (kind,))

    # ------------------------------------------------------------------ entry
    def run(self):
        st = State()
        c = self.c
        args = self.fdef.args
        formal_names = [a.arg for a in args.args] + ([args.vararg.arg] if args.vararg is not None else [])
        declared = [p for p, _ in c.params]
        if formal_names != declared:
            raise OutOfFragment('parameter list %r differs from the contract %r' % (formal_names, declared), self.fdef)
        for (p, t) in c.params:
            st.env[p] = self.fresh_value(st, p, t, param=True)
        st.fresh_locs = set()
        # distinct parameters do not alias (assumption 5 of DESIGN.md): each has its own location
        self.entry = st.copy()
        self.entry.env = dict(st.env)
        sp = self.spec(st)
        for r in c.requires:
            self.assume(st, sp.ev_bool(r))
        self.entry.pc = list(st.pc)
        body = self.fdef.body
        if body and isinstance(body[0], ast.Expr) and isinstance(getattr(body[0], 'value', None), ast.Constant) \
                and isinstance(body[0].value.value, str):
            body = body[1:]      # docstring dropped
        outs = self.exec_block(body, st)
        # vacuity guard: at least one normal exit of the function must be reachable under the contract's own assumptions (requires,
        # assumed callee postconditions, ghost assertions).  `unsat` here means that what was ASSUMED along every path is contradictory --
        # every obligation of the function would then be discharged for no reason.  (sat / unknown: fine.)
        normal = [s for (s, ctl) in outs if ctl is None or ctl[0] == 'return']
        reachable = 0
        for s in normal:
            if any(z3.is_false(x) for x in s.pc):
                # the literal False is never produced by a branch condition of the code: something evaluated to False was ASSUMED
                raise ContractError('vacuous: the constant False was assumed on a path of %s' % self.c.key)
            sol = z3.Solver()
            sol.set('timeout', 1500)
            for h in s.pc:
                if not has_quantifier(h):
                    sol.add(h)
            if sol.check() != z3.unsat:
                reachable += 1
        self.reachable_returns = (reachable, len(normal))
        if normal and reachable == 0:
            raise ContractError('vacuous: no normal exit of %s is reachable under the assumptions made along its paths' % self.c.key)
        for (s, ctl) in outs:
            if ctl is None:
                self.at_return(s, None, self.fdef)
            elif ctl[0] == 'return':
                self.at_return(s, ctl[1], ctl[2])
            elif ctl[0] == 'raise':
                self.at_raise(s, ctl[1], ctl[2])
            else:
                raise OutOfFragment('%s outside a loop' % (ctl,), self.fdef)
        return self.vcs

    def fresh_value(self, st, name, t, param=False):
        if isinstance(t, tuple) and t and t[0] == 'const':
            return PyConst(t[1])
        if isinstance(t, tuple) and t and t[0] == 'varargs':
            # *name with a fixed number of actual arguments (one contract variant per arity): a Python tuple of fresh values
            return tuple(self.fresh_value(st, '%s%d' % (name, k), ty, param) for k, ty in enumerate(t[1]))
        if t == 'int':
            return fresh(name, I)
        if t == 'bool':
            return fresh(name, B)
        if t == 'real':
            return fresh(name, R)
        if t == 'cplx':
            return fresh(name, CPLX)
        if isinstance(t, str) and t in TYPE_ARR:
            nd, el = TYPE_ARR[t]
            av = fresh_array(name, nd, el)
            for d in av.shape:
                st.pc.append(d >= 0)
            if el == 'bool':
                k_ = fresh('k', I)
                st.pc.append(z3.ForAll([k_], z3.And(0 <= z3.Select(av.term, k_), z3.Select(av.term, k_) <= 1), patterns=[z3.Select(av.term, k_)]))
            return st.alloc(av)
        if t == 'none':
            return None
        if isinstance(t, tuple) and len(t) == 3 and t[0] == 'list':
            # a list of at most t[2] values of type t[1] (the callee's contract bounds the length; checked where the callee is verified)
            ln = fresh(name + '_len', I)
            st.pc.append(z3.And(0 <= ln, ln <= t[2]))
            return st.alloc(BList([self.fresh_value(st, '%s_%d' % (name, k), t[1]) for k in range(t[2])], ln))
        if t == 'slice':             # a slice object lo:hi with integer bounds (no step)
            return Tag('slice', fresh(name + '.start', I), fresh(name + '.stop', I))
        if isinstance(t, dict) and 'seq' in t:      # a list of objects of unknown length: {'seq': {'cls': .., 'fields': {f: type}}}
            et = t['seq']
            ln = fresh(name + '_len', I)
            st.pc.append(ln >= 0)

            def nonneg(arr_):
                k_ = fresh('k', I)
                st.pc.append(z3.ForAll([k_], z3.Select(arr_, k_) >= 0, patterns=[z3.Select(arr_, k_)]))
                return arr_

            def mkcol(nm, ft):
                if ft == 'int':
                    return ('int', fresh(nm, arr_sort(1, 'int')))
                if ft == 'int1':
                    return ('int1', fresh(nm, arr_sort(2, 'int')), nonneg(fresh(nm + '_len', arr_sort(1, 'int'))))
                if ft == 'int2':
                    return ('int2', fresh(nm, arr_sort(3, 'int')), nonneg(fresh(nm + '_rows', arr_sort(1, 'int'))), nonneg(fresh(nm + '_cols', arr_sort(1, 'int'))))
                if isinstance(ft, tuple) and len(ft) == 2 and ft[0] == 'opt':
                    return ('opt', fresh(nm + '_present', z3.ArraySort(I, B)), mkcol(nm, ft[1]))
                if isinstance(ft, dict) and 'cls' in ft:
                    return ('obj', ft['cls'], {f: mkcol('%s.%s' % (nm, f), f2) for f, f2 in ft['fields'].items()})
                raise ContractError('sequence element field type %r' % (ft,))
            cols = {f: mkcol('%s.%s' % (name, f), ft) for f, ft in et['fields'].items()}
            return st.alloc(SymSeq(et['cls'], ln, cols))
        if isinstance(t, dict):      # object: {'cls': 'Pauli', 'fields': {'g': 'int1', 'p': 'int'}}
            fields = {f: self.fresh_value(st, '%s.%s' % (name, f), ft, param) for f, ft in t['fields'].items()}
            return st.alloc(Obj(t['cls'], fields))
        raise ContractError('unknown type %r for %s' % (t, name))

    def at_return(self, st, val, node):
        c = self.c
        # no-raise side of `raises`
        for exc, cond in c.raises.items():
            e = SpecEval(self.lib.theory, self.entry.env, self.entry.heap, self.entry.env, self.entry.heap, self.lib.preds)
            self.oblige(st, 'raises.%s.not_on_return' % exc, z3.Not(e.ev_bool(cond)), node)
        extra = {'result': self.result_value(st, val)}
        self.apply_hints(st, c.hints.get('return', []), 'return', extra)
        # aliasing of the result
        if c.returns is not None:
            descs = c.returns if isinstance(c.returns, (tuple, list)) else (c.returns,)
            vals = val if isinstance(c.returns, (tuple, list)) else (val,)
            if not isinstance(vals, tuple) or len(vals) != len(descs):
                raise OutOfFragment('return arity differs from the contract', node)
            for k, (d, v) in enumerate(zip(descs, vals)):
                if isinstance(d, str) and d.startswith('='):
                    p = self.entry.env[d[1:]]
                    ok = isinstance(v, Ref) and v.loc == p.loc
                    self.oblige(st, 'post.result%d_is_%s' % (k, d[1:]), z3.BoolVal(ok), node)
                elif isinstance(d, str) and d.endswith('fresh'):
                    ok = isinstance(v, Ref) and v.loc in st.fresh_locs
                    self.oblige(st, 'post.result%d_fresh' % k, z3.BoolVal(ok), node)
                elif isinstance(d, tuple) and len(d) == 3 and d[0] == 'list':
                    ok = isinstance(v, Ref) and isinstance(st.heap.get(v.loc), ListObj) and len(st.heap[v.loc].items) <= d[2] \
                        and all(isinstance(x, Ref) and isinstance(st.heap.get(x.loc), AV) for x in st.heap[v.loc].items)
                    self.oblige(st, 'post.result%d_list_bound' % k, z3.BoolVal(ok), node, note='returns a list of at most %d arrays' % d[2])
        sp = self.spec(st, extra=extra)
        for k, e in enumerate(c.ensures):
            self.oblige(st, 'post%d' % k, sp.ev_bool(e), node, note=e)
        # frame: every array parameter not in `modifies` is unchanged
        for (p, t) in c.params:
            self.frame_check(st, p, self.entry.env[p], t, node)

    def frame_check(self, st, p, v0, t, node):
        if isinstance(v0, Ref):
            o0 = self.entry.heap[v0.loc]
            o1 = st.heap[v0.loc]
            if isinstance(o0, AV):
                if p in self.c.modifies:
                    return
                if o1.term is o0.term or z3.eq(o1.term, o0.term):
                    self.oblige(st, 'frame.%s' % p, z3.BoolVal(True), node)
                else:
                    idx = [fresh('f', I) for _ in o0.shape]
                    a, b = o0.term, o1.term
                    rng = []
                    for k, n in zip(idx, o0.shape):
                        a, b = z3.Select(a, k), z3.Select(b, k)
                        rng += [0 <= k, k < n]
                    self.oblige(st, 'frame.%s' % p, z3.ForAll(idx, z3.Implies(z3.And(*rng), a == b)), node)
            elif isinstance(o0, Obj):
                for f, fv in o0.fields.items():
                    pf = '%s.%s' % (p, f)
                    if pf in self.c.modifies or pf in self.c.modifies_scalar:
                        continue
                    cur = o1.fields.get(f)
                    if isinstance(fv, Ref):
                        same_ref = isinstance(cur, Ref) and cur.loc == fv.loc
                        self.oblige(st, 'frame.%s.ref' % pf, z3.BoolVal(same_ref), node)
                        if same_ref:
                            self.frame_check_loc(st, pf, fv, node)
                    elif is_z3(fv):
                        self.oblige(st, 'frame.%s' % pf, to_z3(cur) == fv if is_z3(cur) or isinstance(cur, (int, bool)) else z3.BoolVal(False), node)

    def frame_check_loc(self, st, name, ref, node):
        o0 = self.entry.heap[ref.loc]
        o1 = st.heap[ref.loc]
        if not isinstance(o0, AV):
            return
        if o1.term is o0.term or z3.eq(o1.term, o0.term):
            self.oblige(st, 'frame.%s' % name, z3.BoolVal(True), node)
            return
        idx = [fresh('f', I) for _ in o0.shape]
        a, b = o0.term, o1.term
        rng = []
        for k, n in zip(idx, o0.shape):
            a, b = z3.Select(a, k), z3.Select(b, k)
            rng += [0 <= k, k < n]
        self.oblige(st, 'frame.%s' % name, z3.ForAll(idx, z3.Implies(z3.And(*rng), a == b)), node)

    def result_value(self, st, val):
        return val

    def at_raise(self, st, exc, node):
        c = self.c
        if exc in c.may_raise:
            for (p, t) in c.params:
                self.frame_check(st, p, self.entry.env[p], t, node)
            return
        if exc in c.raises:
            e = SpecEval(self.lib.theory, self.entry.env, self.entry.heap, self.entry.env, self.entry.heap, self.lib.preds)
            self.oblige(st, 'raises.%s.only_when' % exc, e.ev_bool(c.raises[exc]), node)
            for (p, t) in c.params:
                self.frame_check(st, p, self.entry.env[p], t, node)
        else:
            self.oblige(st, 'no_raise.%s' % exc, z3.BoolVal(False), node, note='raise %s reachable' % exc)

    # ------------------------------------------------------------------ statements
    def exec_block(self, stmts, st):
        states = [(st, None)]
        for s in stmts:
            nxt = []
            for (s0, ctl) in states:
                if ctl is not None:
                    nxt.append((s0, ctl))
                else:
                    nxt.extend(self.exec_stmt(s, s0))
            states = nxt
        return states

    def exec_stmt(self, n, st):
        m = getattr(self, 'st_' + type(n).__name__, None)
        if m is None:
            raise OutOfFragment('statement %s' % type(n).__name__, n)
        return m(n, st)

    def st_Pass(self, n, st):
        return [(st, None)]

    def st_Expr(self, n, st):
        if isinstance(n.value, ast.Constant):
            return [(st, None)]
        if isinstance(n.value, ast.Call) and isinstance(n.value.func, ast.Name) and n.value.func.id == 'print' and 'print' not in st.env:
            return [(st, None)]          # diagnostics: no effect on the state (its arguments are not evaluated)
        self.pev(n.value, st)
        return [(st, None)]

    def st_FunctionDef(self, n, st):
        # a function defined inside the function: nothing is executed; calls to it use its own contract ('outer.inner')
        if n.decorator_list or self.inline_depth:
            raise OutOfFragment('decorated / inlined nested function', n)
        self.local_funcs[n.name] = '%s.%s' % (self.qual, n.name)
        return [(st, None)]

    def st_Break(self, n, st):
        return [(st, 'break')]

    def st_Continue(self, n, st):
        return [(st, 'continue')]

    def st_Return(self, n, st):
        v = None if n.value is None else self.pev(n.value, st)
        return [(st, ('return', v, n))]

    def st_Raise(self, n, st):
        exc = n.exc
        name = None
        if isinstance(exc, ast.Call) and isinstance(exc.func, ast.Name):
            name = exc.func.id
        elif isinstance(exc, ast.Name):
            name = exc.id
        if name is None:
            raise OutOfFragment('raise form', n)
        return [(st, ('raise', name, n))]

    def st_Assert(self, n, st):
        k = self.assert_ord.get(id(n))
        if k is None:                      # an assert inside an inlined helper
            k2 = self.auto_ord.get('assert', 0)
            self.auto_ord['assert'] = k2 + 1
            self.assert_ord[id(n)] = k = 1000 + k2
        site = 'assert%d' % k
        self.apply_hints(st, self.c.hints.get(site, []), site)
        cond = self.truth(self.pev(n.test, st), st, n)
        self.oblige(st, site, cond, n, note=ast.unparse(n.test))
        self.assume(st, cond)
        return [(st, None)]

    def st_If(self, n, st):
        k = self.if_ord.get(id(n))
        if k is not None and ('if%d.before' % k) in self.c.hints:
            self.apply_hints(st, self.c.hints['if%d.before' % k], 'if%d.before' % k)
        cond = self.truth(self.pev(n.test, st), st, n)
        cs = z3.simplify(cond)
        outs = []
        if not z3.is_false(cs):
            s1 = st.copy() if not z3.is_true(cs) else st
            s1.pc.append(cond)
            for (s_, ctl) in self.branch(n.body, s1, n):
                if ctl is None and k is not None and ('if%d.then.end' % k) in self.c.hints:
                    self.apply_hints(s_, self.c.hints['if%d.then.end' % k], 'if%d.then.end' % k)
                outs.append((s_, ctl))
        if not z3.is_true(cs):
            s2 = st
            s2.pc.append(z3.Not(cond))
            for (s_, ctl) in self.branch(n.orelse, s2, n):
                if ctl is None and k is not None and ('if%d.else.end' % k) in self.c.hints:
                    self.apply_hints(s_, self.c.hints['if%d.else.end' % k], 'if%d.else.end' % k)
                outs.append((s_, ctl))
        return outs

    def branch(self, stmts, st, node):
        """execute one branch of an if; a branch that leaves the fragment is tolerated only if it is provably dead"""
        n_vcs = len(self.vcs)
        try:
            return self.exec_block(stmts, st)
        except OutOfFragment:
            s = z3.Solver()
            s.set('timeout', 3000)
            for h in st.pc:
                s.add(h)
            if s.check() == z3.unsat:
                del self.vcs[n_vcs:]       # obligations of an unreachable branch
                return []
            raise

    def truth(self, v, st, node):
        if isinstance(v, ArrCmp):
            raise OutOfFragment('truth value of an elementwise comparison (use .all())', node)
        if isinstance(v, (Ref, View, AV)):
            raise OutOfFragment('truth value of an array', node)
        if v is None:
            return z3.BoolVal(False)
        return as_bool(v)

    def st_Assign(self, n, st):
        if len(n.targets) != 1:
            raise OutOfFragment('chained assignment', n)
        val = self.pev(n.value, st)
        self.assign(n.targets[0], val, st, n)
        return [(st, None)]

    def st_AugAssign(self, n, st):
        cur = self.pev(ast_load(n.target), st)
        rhs = self.pev(n.value, st)
        val = self.bin(n.op, cur, rhs, st, n)
        if isinstance(n.target, ast.Name) and isinstance(cur, (Ref, View)):
            raise OutOfFragment('augmented assignment on an array variable (in-place numpy semantics)', n)
        self.assign(n.target, val, st, n)
        return [(st, None)]

    def assign(self, tgt, val, st, node):
        if isinstance(tgt, ast.Name):
            if isinstance(val, View):
                # binding a view: keep it lazy (reads see later writes, like numpy)
                pass
            if isinstance(val, AV):
                val = st.alloc(val)
            st.env[tgt.id] = val
            return
        if isinstance(tgt, (ast.Tuple, ast.List)):
            if not isinstance(val, tuple) or len(val) != len(tgt.elts):
                raise OutOfFragment('tuple unpacking of a non-tuple or wrong arity', node)
            for t, v in zip(tgt.elts, val):
                self.assign(t, v, st, node)
            return
        if isinstance(tgt, ast.Attribute):
            base = self.pev(tgt.value, st)
            if not (isinstance(base, Ref) and isinstance(st.heap[base.loc], Obj)):
                raise OutOfFragment('attribute assignment on a non-object', node)
            o = st.heap[base.loc]
            o2 = Obj(o.cls, o.fields)
            if isinstance(val, AV):
                val = st.alloc(val)
            o2.fields[tgt.attr] = val
            st.heap[base.loc] = o2
            return
        if isinstance(tgt, ast.Subscript):
            self.assign_sub(tgt, val, st, node)
            return
        raise OutOfFragment('assignment target %s' % type(tgt).__name__, node)

    def assign_sub(self, tgt, val, st, node):
        base = self.pev(tgt.value, st)
        sl = tgt.slice
        if isinstance(base, View):
            # gs[j][c] = v  is not used by the code base; a[j, c] is
            raise OutOfFragment('write through a row view', node)
        if not isinstance(base, Ref) or not isinstance(st.heap[base.loc], AV):
            raise OutOfFragment('subscript assignment to a non-array', node)
        av = st.heap[base.loc]
        # whole-array fill  a[:] = scalar
        if isinstance(sl, ast.Slice) and sl.lower is None and sl.upper is None and sl.step is None:
            if isinstance(val, (Ref, View, AV)):
                src = self.deref(val, st)
                self.oblige(st, self.site(node, 'shape'), z3.And(*[a == b for a, b in zip(av.shape, src.shape)]), node)
                st.heap[base.loc] = AV(src.term, av.shape, av.elem)
            else:
                st.heap[base.loc] = AV(const_array(av.ndim, av.elem, as_num(val)), av.shape, av.elem)
            return
        if isinstance(sl, ast.Call) and isinstance(sl.func, ast.Attribute) and sl.func.attr == 'ix_' and len(sl.args) == 2 and av.ndim == 2 \
                and all(isinstance(a_, ast.Name) for a_ in sl.args) and isinstance(val, (Ref, View, AV)):
            # a[numpy.ix_(m1, m2)] = v with two boolean masks: the block of selected rows x selected columns is replaced
            ms = []
            for a_ in sl.args:
                v_ = st.env.get(a_.id)
                if not (isinstance(v_, Ref) and isinstance(st.heap.get(v_.loc), AV) and st.heap[v_.loc].elem == 'bool' and st.heap[v_.loc].ndim == 1):
                    raise OutOfFragment('numpy.ix_ with a non-boolean index', node)
                ms.append(st.heap[v_.loc])
            src = self.deref(val, st)
            (i1, c1, p1), (i2, c2, p2) = self.mask_facts(ms[0], st), self.mask_facts(ms[1], st)
            self.oblige(st, self.site(node, 'shape'), z3.And(ms[0].shape[0] == av.shape[0], ms[1].shape[0] == av.shape[1], src.shape[0] == c1, src.shape[1] == c2)
                        if src.ndim == 2 else z3.BoolVal(False), node)
            new = fresh('scatter2', av.term.sort())
            r_, c_ = fresh('r', I), fresh('c', I)
            lhs = z3.Select(z3.Select(new, r_), c_)
            rhs = z3.If(z3.And(z3.Select(ms[0].term, r_) != 0, z3.Select(ms[1].term, c_) != 0),
                        z3.Select(z3.Select(src.term, z3.Select(p1, r_)), z3.Select(p2, c_)), z3.Select(z3.Select(av.term, r_), c_))
            st.pc.append(z3.ForAll([r_, c_], z3.Implies(z3.And(0 <= r_, r_ < av.shape[0], 0 <= c_, c_ < av.shape[1]), lhs == rhs), patterns=[lhs]))
            st.heap[base.loc] = AV(new, av.shape, av.elem)
            return
        if isinstance(sl, ast.Name) and av.ndim == 1 and isinstance(val, (Ref, View, AV)):
            v_ = st.env.get(sl.id)
            if isinstance(v_, Ref) and isinstance(st.heap.get(v_.loc), AV) and st.heap[v_.loc].elem == 'bool' and st.heap[v_.loc].ndim == 1:
                # a[m] = v on a 1-D array with a boolean mask
                m_ = st.heap[v_.loc]
                src = self.deref(val, st)
                idx_, cnt_, pos_ = self.mask_facts(m_, st)
                self.oblige(st, self.site(node, 'shape'), z3.And(m_.shape[0] == av.shape[0], src.shape[0] == cnt_) if src.ndim == 1 else z3.BoolVal(False), node)
                new = fresh('scatter1', av.term.sort())
                c_ = fresh('c', I)
                lhs = z3.Select(new, c_)
                st.pc.append(z3.ForAll([c_], z3.Implies(z3.And(0 <= c_, c_ < av.shape[0]),
                                                         lhs == z3.If(z3.Select(m_.term, c_) != 0, z3.Select(src.term, z3.Select(pos_, c_)), z3.Select(av.term, c_))), patterns=[lhs]))
                st.heap[base.loc] = AV(new, av.shape, av.elem)
                return
        if isinstance(sl, ast.Slice) and sl.step is None and av.ndim == 1:
            # a[lo:hi] = v on a 1-D array (partial): as a rectangular region
            self.write_region(base, av, ast.Tuple(elts=[sl], ctx=ast.Load()), val, st, node)
            return
        if self.mask_subscript(sl, st) is not None:
            self.mask_scatter(base, av, self.mask_subscript(sl, st), val, st, node)
            return
        if not isinstance(sl, (ast.Tuple, ast.Slice)) and av.ndim == 1 and not isinstance(val, (Ref, View, AV, tuple)):
            iv_ = self.pev(sl, st)
            if isinstance(iv_, (Ref, AV)) and not (isinstance(iv_, Ref) and not isinstance(st.heap[iv_.loc], AV)):
                ia = self.deref(iv_, st)
                if ia.ndim == 1 and ia.elem == 'int':
                    # m[idx] = scalar with an integer index array: every listed position gets the value
                    k_, c_ = fresh('k', I), fresh('c', I)
                    self.oblige(st, self.site(node, 'bounds'), z3.ForAll([k_], z3.Implies(z3.And(0 <= k_, k_ < ia.shape[0]),
                                z3.And(0 <= z3.Select(ia.term, k_), z3.Select(ia.term, k_) < av.shape[0]))), node)
                    v_ = self.coerce_elem(val, 'int' if av.elem == 'bool' else av.elem, node)
                    if av.elem == 'bool':
                        v_ = z3.If(v_ != 0, z3.IntVal(1), z3.IntVal(0))
                    new = fresh('scat', av.term.sort())
                    # hit(c) <=> c is one of the listed positions, through a witness function (no quantifier alternation)
                    hit = z3.Function(fresh_name('hit'), I, B)
                    wit = z3.Function(fresh_name('wit'), I, I)
                    st.pc.append(z3.ForAll([k_], z3.Implies(z3.And(0 <= k_, k_ < ia.shape[0]), hit(z3.Select(ia.term, k_))), patterns=[z3.Select(ia.term, k_)]))
                    st.pc.append(z3.ForAll([c_], z3.Implies(hit(c_), z3.And(0 <= wit(c_), wit(c_) < ia.shape[0], z3.Select(ia.term, wit(c_)) == c_)), patterns=[hit(c_)]))
                    st.pc.append(z3.ForAll([c_], z3.Select(new, c_) == z3.If(hit(c_), v_, z3.Select(av.term, c_)), patterns=[z3.Select(new, c_)]))
                    st.heap[base.loc] = AV(new, av.shape, av.elem)
                    return
        if isinstance(sl, ast.Tuple) and any(isinstance(e, ast.Slice) for e in sl.elts):
            self.write_region(base, av, sl, val, st, node)
            return
        idx = self.index_list(sl, st, av.shape)
        if len(idx) == 1 and isinstance(idx[0], IdxList):
            # fancy two-row assignment  a[array([p,q])] = <Gather>
            if not isinstance(val, Gather) or len(val.rows) != len(idx[0].items):
                raise OutOfFragment('fancy-index assignment form', node)
            t = av.term
            for k, row in zip(idx[0].items, val.rows):
                self.bounds(st, k, av.shape[0], node)
                t = z3.Store(t, k, row)
            st.heap[base.loc] = AV(t, av.shape, av.elem)
            return
        for k, nmax in zip(idx, av.shape):
            self.bounds(st, k, nmax, node)
        if len(idx) == av.ndim:
            v = self.coerce_elem(val, av.elem, node)
            st.heap[base.loc] = AV(store_nd(av.term, idx, v), av.shape, av.elem)
            return
        if len(idx) < av.ndim:
            # row (sub-array) assignment: value copy, or scalar broadcast
            rest = av.shape[len(idx):]
            if isinstance(val, (Ref, View, AV)):
                src = self.deref(val, st)
                if src.ndim != len(rest):
                    raise OutOfFragment('rank mismatch in row assignment', node)
                self.oblige(st, self.site(node, 'shape'), z3.And(*[a == b for a, b in zip(rest, src.shape)]), node)
                st.heap[base.loc] = AV(store_nd(av.term, idx, src.term), av.shape, av.elem)
            else:
                st.heap[base.loc] = AV(store_nd(av.term, idx, const_array(len(rest), av.elem, as_num(val))), av.shape, av.elem)
            return
        raise OutOfFragment('too many indices', node)

    def coerce_elem(self, val, elem, node):
        if isinstance(val, (Ref, View, AV, tuple)):
            raise OutOfFragment('storing a non-scalar into an element', node)
        if elem == 'cplx':
            return self.cplx_of(val)
        v = to_z3(val)
        if elem == 'bool':
            v = as_num(v)
            return z3.If(v != 0, z3.IntVal(1), z3.IntVal(0))
        if elem == 'int':
            v = as_num(v)
            if not z3.is_int(v):
                raise OutOfFragment('storing a non-integer into an integer array', node)
            return v
        if elem == 'real':
            v = as_num(v)
            return z3.ToReal(v) if z3.is_int(v) else v
        return v

    def site(self, node, kind):
        # bounds / shape / allocation checks of a function are aggregated under one obligation id
        # (`safety`), so that the ledger does not depend on line numbers; the line is kept in the VC
        return 'safety'

    def bounds(self, st, k, n, node):
        self.oblige(st, self.site(node, 'bounds'), z3.And(0 <= k, k < n), node)

    def index_list(self, sl, st, shape=None):
        elts = sl.elts if isinstance(sl, ast.Tuple) else [sl]
        out = [self.index_one(e, st) for e in elts]
        if shape is not None:
            # a[-e]: Python counts a (syntactically) negated index from the end; the bounds obligation is then 0 <= len - e < len
            for i_, e in enumerate(elts):
                if isinstance(e, ast.UnaryOp) and isinstance(e.op, ast.USub) and i_ < len(shape) and is_z3(out[i_]):
                    out[i_] = out[i_] + shape[i_]
        return out

    @staticmethod
    def is_row_slice(sl):
        def plain(s):
            return isinstance(s, ast.Slice) and s.step is None
        if plain(sl):
            return True
        if isinstance(sl, ast.Tuple) and len(sl.elts) == 2 and plain(sl.elts[0]) and plain(sl.elts[1]) \
                and sl.elts[1].lower is None and sl.elts[1].upper is None:
            return True
        return False

    def index_one(self, e, st):
        if isinstance(e, ast.Slice):
            raise OutOfFragment('slice index', e)
        v = self.pev(e, st)
        if isinstance(v, IdxList):
            return v
        if isinstance(v, (Ref, View, AV, tuple)):
            raise OutOfFragment('array-valued index', e)
        v = as_num(v)
        if not z3.is_int(v):
            raise OutOfFragment('non-integer index', e)
        return v

    # ------------------------------------------------------------------ loops
    def st_For(self, n, st):
        k = self.loop_ord[id(n)]
        if n.orelse:
            raise OutOfFragment('for-else', n)
        if isinstance(n.iter, ast.Call) and isinstance(n.iter.func, ast.Name) and n.iter.func.id == 'range' and len(n.iter.args) == 3 \
                and isinstance(n.target, ast.Name) and isinstance(n.iter.args[2], ast.UnaryOp) and isinstance(n.iter.args[2].op, ast.USub) \
                and isinstance(n.iter.args[2].operand, ast.Constant) and n.iter.args[2].operand.value == 1:
            return self.st_For_down(n, st, k)
        if isinstance(n.target, ast.Name):
            it, rev = n.iter, False
            if isinstance(it, ast.Call) and isinstance(it.func, ast.Name) and it.func.id == 'reversed' and len(it.args) == 1 and 'reversed' not in st.env:
                it, rev = it.args[0], True
            if isinstance(it, ast.Name) and isinstance(st.env.get(it.id), Ref) and isinstance(st.heap.get(st.env[it.id].loc), (ListObj, BList)):
                return self.st_For_list(n, st, st.heap[st.env[it.id].loc], rev)
        is_range = (isinstance(n.iter, ast.Call) and isinstance(n.iter.func, ast.Name) and n.iter.func.id == 'range'
                    and 1 <= len(n.iter.args) <= 2 and isinstance(n.target, ast.Name))
        enum_src = None
        if not is_range and isinstance(n.target, ast.Tuple) and len(n.target.elts) == 2 and all(isinstance(e, ast.Name) for e in n.target.elts):
            # `for i, x in enumerate(a)` (or over a local that holds enumerate(a)): i runs over range(len(a)), x = a[i] read at the loop head
            itv = self.pev(n.iter, st)
            if isinstance(itv, Tag) and itv.kind == 'enumerate':
                enum_src = itv.data[0]
        seq_src = None
        if not is_range and enum_src is None and isinstance(n.target, ast.Name):
            # `for x in <list of objects of unknown length>`: a hidden index runs over range(len(l)); x is element index of the list
            itv = self.pev(n.iter, st)
            if isinstance(itv, Ref) and isinstance(st.heap.get(itv.loc), SymSeq):
                seq_src = st.heap[itv.loc]
        if not is_range and enum_src is None and seq_src is None:
            raise OutOfFragment('for loop that is not `for <name> in range(a[, b])`, `range(a, b, -1)`, `for i, x in enumerate(<1-D array>)` or over a list of objects', n)
        if k not in self.c.loops:
            raise ContractError('%s: no invariant for loop %d (line %d)' % (self.c.key, k, n.lineno))
        ls = self.c.loops[k]
        if seq_src is not None:
            if ls.var is None or ls.var in st.env:
                raise ContractError('%s: loop %d over a list of objects needs a ghost index name (`var`) that is not a program variable' % (self.c.key, k))
            var = ls.var
            # the list is modelled read-only: a body that may change a field of the element (an attribute store, or a method whose
            # contracts list a field of their receiver / that argument under `modifies`) is outside the fragment
            loop_effects(n, self)
            if any(b_ == n.target.id for (b_, _f) in self.loop_field_effects):
                raise OutOfFragment('the loop body may change a field of the list element %r (lists of objects are read-only here)' % n.target.id, n)
        else:
            var = n.target.id if is_range else n.target.elts[0].id
        if ls.var is not None and ls.var != var:
            raise OutOfFragment('loop %d iterates over %r, contract expects %r' % (k, var, ls.var), n)
        if is_range:
            args = [as_num(self.pev(a, st)) for a in n.iter.args]
            lo, hi = (z3.IntVal(0), args[0]) if len(args) == 1 else (args[0], args[1])
        elif seq_src is not None:
            lo, hi = z3.IntVal(0), seq_src.length
        else:
            lo, hi = z3.IntVal(0), self.deref(enum_src, st).shape[0]
        evar = None if (is_range or seq_src is not None) else n.target.elts[1].id

        def bind_elem(s_, idx):
            if evar is not None:
                av_ = self.deref(enum_src, s_)
                el = z3.Select(av_.term, idx)
                s_.env[evar] = Tag('char', el) if av_.elem == 'char' else el

        def materialise(s_, idx):
            """the element of a list of objects at a symbolic index as a program object: one state per combination of absent / present
            optional sub-objects (the presence flags of the element are fixed accordingly on each path)"""
            if seq_src is None:
                return [s_]
            import itertools
            opts = seq_src.opt_paths()
            outs_ = []
            for choice in itertools.product([False, True], repeat=len(opts)):
                s2 = s_.copy() if len(opts) else s_
                pres = {}
                for (path_, flags_), on in zip(opts, choice):
                    pres[path_] = on
                    s2.pc.append(z3.Select(flags_, idx) if on else z3.Not(z3.Select(flags_, idx)))

                def to_prog(v_):
                    if isinstance(v_, AV):
                        return s2.alloc(v_)
                    if isinstance(v_, Obj):
                        return s2.alloc(Obj(v_.cls, {f_: to_prog(x_) for f_, x_ in v_.fields.items()}))
                    return v_
                s2.env[n.target.id] = to_prog(seq_src.elem(idx, pres))
                outs_.append(s2)
            return outs_
        site = 'loop%d' % k
        st.snaps = dict(st.snaps)
        st.snaps[site + '.pre'] = (dict(st.env), dict(st.heap))
        hi = self.range_bound(st, lo, hi, site, n, up=True)
        # --- init
        s_init = st.copy()
        s_init.env[var] = lo
        bind_elem(s_init, lo)
        self.apply_hints(s_init, ls.hints_exit if False else [], site)
        sp = self.spec(s_init)
        for ci, clause in enumerate(ls.invariant):
            self.oblige(s_init, '%s.inv%d.init' % (site, ci), sp.ev_bool(clause), n, note=clause)
        # --- havoc
        old_var = st.env.get(var)
        s_h = self.havoc_loop(n, st, ls)
        iv = fresh(var, I)
        s_h.env[var] = iv
        s_h.pc.append(lo <= iv)
        s_h.pc.append(iv <= hi)
        sp = self.spec(s_h)
        for clause in ls.invariant:
            s_h.pc.append(sp.ev_bool(clause))
        outs = []
        # --- body
        s_b = s_h.copy()
        s_b.pc.append(iv < hi)
        bind_elem(s_b, iv)
        s_b.snaps[site + '.head'] = (dict(s_b.env), dict(s_b.heap))
        self.apply_hints(s_b, ls.hints_head, site + '.head')
        for (s1, ctl) in [r_ for sb_ in materialise(s_b, iv) for r_ in self.exec_block(n.body, sb_)]:
            if ctl is None or ctl == 'continue':
                cur = s1.env.get(var)
                if not (is_z3(cur) and z3.eq(cur, iv)):
                    raise OutOfFragment('loop variable reassigned in the body', n)
                self.check_rebinds(n, s_h, s1)
                self.apply_hints(s1, ls.hints_end, site + '.end')
                by_facts = {}
                for ci, spec_ in ls.step_by.items():
                    # facts are stated about the iteration that just ran (loop variable = iv)
                    sp0 = self.spec(s1)
                    facts = []
                    for fi, fx in enumerate(spec_.get('by', [])):
                        if fx == '@head':
                            env_h, heap_h = s1.snaps[site + '.head']
                            sph = SpecEval(self.lib.theory, env_h, heap_h, self.entry.env, self.entry.heap, self.lib.preds)
                            sph.snaps = s1.snaps
                            facts.append(sph.ev_bool(ls.invariant[ci]))
                            continue
                        if isinstance(fx, tuple):
                            scratch = s1.copy()
                            n0 = len(scratch.pc)
                            self.apply_one_hint(scratch, fx, fi, '%s.inv%d.step.fact' % (site, ci), None)
                            facts.extend(scratch.pc[n0:])
                            continue
                        fz = sp0.ev_bool(fx)
                        self.oblige(s1, '%s.inv%d.step.fact%d' % (site, ci, fi), fz, n, note=fx)
                        facts.append(fz)
                    cases = [sp0.ev_bool(c_) for c_ in spec_.get('cases', [])]
                    by_facts[ci] = (facts, cases)
                s1.env[var] = iv + 1
                sp1 = self.spec(s1)
                for ci, clause in enumerate(ls.invariant):
                    g = sp1.ev_bool(clause)
                    if ci in by_facts:
                        facts, cases = by_facts[ci]
                        light = [x for x in s1.pc if not has_quantifier(x) and not self.has_spec_app(x)]
                        oid = '%s::%s.inv%d.step' % (self.c.key, site, ci)
                        if cases:
                            self.vcs.append(VC(oid, light + facts, z3.Or(*cases), n.lineno, 'cases exhaustive'))
                            for cz in cases:
                                self.vcs.append(VC(oid, light + facts + [cz], g, n.lineno, clause))
                        else:
                            self.vcs.append(VC(oid, light + facts, g, n.lineno, clause))
                    else:
                        self.oblige(s1, '%s.inv%d.step' % (site, ci), g, n, note=clause)
            elif ctl == 'break':
                outs.append((s1, None))
            else:
                outs.append((s1, ctl))
        # --- exit
        s_x = s_h.copy()
        s_x.pc.append(iv == hi)
        self.apply_hints(s_x, ls.hints_exit, site + '.exit')
        after = fresh(var + '_after', I)
        s_x.pc.append(z3.Implies(hi > lo, after == hi - 1))
        if is_z3(old_var):
            s_x.pc.append(z3.Implies(hi <= lo, after == old_var))
        s_x.env[var] = after
        outs.append((s_x, None))
        return outs

    def range_bound(self, st, lo, hi, site, node, up):
        """Python's range(lo, hi) is empty when hi < lo.  If lo <= hi follows quickly from the path condition the bound is used as
        written (obligation `<site>.range`, as before); otherwise the loop is generated over max(lo, hi), which is what Python
        executes, and the obligation is trivial.  (For a descending loop: lo = stop, hi = start.)"""
        goal = lo <= hi
        if z3.is_true(z3.simplify(goal)):
            self.oblige(st, site + '.range', z3.BoolVal(True), node, note='range bounds ordered (syntactically)')
            return hi
        s = z3.Solver()
        s.set('timeout', 2000)
        for h in st.pc:
            if not has_quantifier(h):
                s.add(h)
        s.add(z3.Not(goal))
        if s.check() == z3.unsat:
            self.oblige(st, site + '.range', goal, node, note='range(lo, hi) with lo <= hi')
            return hi
        self.oblige(st, site + '.range', z3.BoolVal(True), node, note='possibly empty range: generated over max(lo, hi)')
        return z3.If(hi >= lo, hi, lo)

    def st_For_list(self, n, st, lst, rev):
        """`for x in l` / `for x in reversed(l)` over a list with a known maximal number of elements (a list literal built on this path,
        or the bounded list a callee returned): the loop is unrolled completely, iteration k guarded by k < len(l).  No invariant is
        needed and nothing is cut off: the bound is the length of the list on this path, or the bound the callee's contract proves."""
        items = list(lst.items)
        length = lst.length if isinstance(lst, BList) else None
        var = n.target.id
        for node in ast.walk(n):
            if isinstance(node, ast.Break):
                raise OutOfFragment('break in a loop over a list', n)
            if isinstance(node, ast.Attribute) and node.attr in ('append', 'pop', 'insert', 'remove', 'extend') \
                    and isinstance(node.value, ast.Name) and isinstance(n.iter, ast.Name) and node.value.id == n.iter.id:
                raise OutOfFragment('the list is modified while it is iterated', n)
        order = range(len(items) - 1, -1, -1) if rev else range(len(items))
        lk = self.loop_ord[id(n)]
        ls = self.c.loops.get(lk) if not self.inline_depth else None
        site = 'loop%d' % lk

        def keep(s_, when):
            # optional loop specification: its clauses are asserted (and then assumed) before the first and after every iteration
            if ls is None:
                return
            if when == 'end':
                # the same ghost code runs again for every unrolled iteration: forget what it established for the previous one
                s_.snaps = {k_: v_ for k_, v_ in s_.snaps.items() if not (isinstance(k_, tuple) and k_[0] == 'done' and k_[1] == site + '.end')}
                self.apply_hints(s_, ls.hints_end, site + '.end')
            else:
                self.apply_hints(s_, ls.hints_init, site + '.init')
            sp_ = self.spec(s_)
            for ci, clause in enumerate(ls.invariant):
                g_ = sp_.ev_bool(clause)
                self.oblige(s_, '%s.inv%d.%s' % (site, ci, 'init' if when == 'init' else 'step'), g_, n, note=clause)
                s_.pc.append(g_)
        st.snaps = dict(st.snaps)
        st.snaps[site + '.pre'] = (dict(st.env), dict(st.heap))
        keep(st, 'init')
        states, done = [st], []
        for k in order:
            nxt = []
            for s in states:
                if length is not None:
                    s_skip = s.copy()
                    s_skip.pc.append(z3.Not(k < length))
                    nxt.append(s_skip)
                    s.pc.append(k < length)
                s.env[var] = items[k]
                s.snaps = dict(s.snaps)
                s.snaps[site + '.head'] = (dict(s.env), dict(s.heap))
                self.apply_hints(s, ls.hints_head if ls is not None else [], site + '.head')
                for (s1, ctl) in self.exec_block(n.body, s):
                    if ctl is None or ctl == 'continue':
                        keep(s1, 'end')
                        nxt.append(s1)
                    else:
                        done.append((s1, ctl))
            states = nxt
        return [(s, None) for s in states] + done

    def st_For_down(self, n, st, k):
        """`for v in range(start, stop, -1)`: v = start, start-1, ..., stop+1.  The invariant is stated over v at the loop head
        (stop <= v <= start; v == stop at exit).  An empty range (start < stop) is rejected by the `.range` obligation."""
        if k not in self.c.loops:
            raise ContractError('%s: no invariant for loop %d (line %d)' % (self.c.key, k, n.lineno))
        ls = self.c.loops[k]
        var = n.target.id
        if ls.var is not None and ls.var != var:
            raise OutOfFragment('loop %d iterates over %r, contract expects %r' % (k, var, ls.var), n)
        if ls.step_by:
            raise ContractError('by-clauses are not supported on a descending loop')
        start, stop = [as_num(self.pev(a, st)) for a in n.iter.args[:2]]
        site = 'loop%d' % k
        st.snaps = dict(st.snaps)
        st.snaps[site + '.pre'] = (dict(st.env), dict(st.heap))
        start = self.range_bound(st, stop, start, site, n, up=False)
        s_init = st.copy()
        s_init.env[var] = start
        sp = self.spec(s_init)
        for ci, clause in enumerate(ls.invariant):
            self.oblige(s_init, '%s.inv%d.init' % (site, ci), sp.ev_bool(clause), n, note=clause)
        old_var = st.env.get(var)
        s_h = self.havoc_loop(n, st, ls)
        iv = fresh(var, I)
        s_h.env[var] = iv
        s_h.pc.append(stop <= iv)
        s_h.pc.append(iv <= start)
        sp = self.spec(s_h)
        for clause in ls.invariant:
            s_h.pc.append(sp.ev_bool(clause))
        outs = []
        s_b = s_h.copy()
        s_b.pc.append(iv > stop)
        s_b.snaps[site + '.head'] = (dict(s_b.env), dict(s_b.heap))
        self.apply_hints(s_b, ls.hints_head, site + '.head')
        for (s1, ctl) in self.exec_block(n.body, s_b):
            if ctl is None or ctl == 'continue':
                cur = s1.env.get(var)
                if not (is_z3(cur) and z3.eq(cur, iv)):
                    raise OutOfFragment('loop variable reassigned in the body', n)
                self.check_rebinds(n, s_h, s1)
                self.apply_hints(s1, ls.hints_end, site + '.end')
                s1.env[var] = iv - 1
                sp1 = self.spec(s1)
                for ci, clause in enumerate(ls.invariant):
                    self.oblige(s1, '%s.inv%d.step' % (site, ci), sp1.ev_bool(clause), n, note=clause)
            elif ctl == 'break':
                outs.append((s1, None))
            else:
                outs.append((s1, ctl))
        s_x = s_h.copy()
        s_x.pc.append(iv == stop)
        self.apply_hints(s_x, ls.hints_exit, site + '.exit')
        after = fresh(var + '_after', I)
        s_x.pc.append(z3.Implies(start > stop, after == stop + 1))
        if is_z3(old_var):
            s_x.pc.append(z3.Implies(start <= stop, after == old_var))
        s_x.env[var] = after
        outs.append((s_x, None))
        return outs

    def st_While(self, n, st):
        k = self.loop_ord[id(n)]
        if n.orelse:
            raise OutOfFragment('while-else', n)
        if k not in self.c.loops:
            raise ContractError('%s: no invariant for loop %d (line %d)' % (self.c.key, k, n.lineno))
        ls = self.c.loops[k]
        site = 'loop%d' % k
        sp = self.spec(st)
        for ci, clause in enumerate(ls.invariant):
            self.oblige(st, '%s.inv%d.init' % (site, ci), sp.ev_bool(clause), n, note=clause)
        s_h = self.havoc_loop(n, st, ls)
        sp = self.spec(s_h)
        for clause in ls.invariant:
            s_h.pc.append(sp.ev_bool(clause))
        cond = self.truth(self.pev(n.test, s_h), s_h, n)
        outs = []
        s_b = s_h.copy()
        s_b.pc.append(cond)
        for (s1, ctl) in self.exec_block(n.body, s_b):
            if ctl is None or ctl == 'continue':
                self.check_rebinds(n, s_h, s1)
                sp1 = self.spec(s1)
                for ci, clause in enumerate(ls.invariant):
                    self.oblige(s1, '%s.inv%d.step' % (site, ci), sp1.ev_bool(clause), n, note=clause)
            elif ctl == 'break':
                outs.append((s1, None))
            else:
                outs.append((s1, ctl))
        s_x = s_h
        s_x.pc.append(z3.Not(cond))
        outs.append((s_x, None))
        return outs

    def havoc_loop(self, n, st, ls):
        """fresh values for everything the loop body can change"""
        assigned, mutated = loop_effects(n, self)
        s = st.copy()
        # locations mutated in place (through a variable that is bound to an array before the loop)
        for name in mutated:
            v = st.env.get(name)
            if isinstance(v, Ref) and isinstance(st.heap.get(v.loc), AV):
                av = st.heap[v.loc]
                s.heap[v.loc] = AV(fresh(name + '_h', av.term.sort()), av.shape, av.elem)
            elif isinstance(v, View):
                raise OutOfFragment('in-place mutation through a view inside a loop', n)
        # fields of objects the body may change (attribute stores, method calls that modify their receiver / arguments)
        def havoc_obj(loc_, only=None, depth=0):
            o_ = s.heap.get(loc_)
            if not isinstance(o_, Obj) or depth > 3:
                return
            newf = dict(o_.fields)
            for f_, v_ in o_.fields.items():
                if only is not None and f_ != only:
                    continue
                if isinstance(v_, Ref) and isinstance(s.heap.get(v_.loc), AV):
                    av_ = s.heap[v_.loc]
                    s.heap[v_.loc] = AV(fresh('%s_h' % f_, av_.term.sort()), av_.shape, av_.elem)      # same location and shape, unknown content
                elif isinstance(v_, Ref) and isinstance(s.heap.get(v_.loc), Obj):
                    havoc_obj(v_.loc, None, depth + 1)
                elif is_z3(v_):
                    newf[f_] = fresh(f_, v_.sort())
            s.heap[loc_] = Obj(o_.cls, newf)
        for (name, fld) in sorted(getattr(self, 'loop_field_effects', set()), key=lambda x_: (x_[0], x_[1] or '')):
            v = st.env.get(name)
            if isinstance(v, Ref) and isinstance(st.heap.get(v.loc), Obj):
                havoc_obj(v.loc, fld)
        for name in assigned:
            if name == getattr(n, 'target', None) and False:
                continue
            v = st.env.get(name, Unbound('first bound inside a loop'))
            if name in ls.locals and name in st.env and not isinstance(v, (Ref, Unbound)):
                s.env[name] = self.fresh_value(s, name, ls.locals[name])     # declared type wins (e.g. int 1 that becomes a float)
                continue
            if isinstance(v, Unbound) or name not in st.env:
                t = ls.locals.get(name)
                if t is not None:
                    s.env[name] = self.fresh_value(s, name, t)
                else:
                    s.env[name] = Unbound('bound inside loop at line %d; declare it in the loop contract `locals` if it is read across iterations' % n.lineno)
            elif is_z3(v):
                s.env[name] = fresh(name, v.sort())
            elif isinstance(v, (int, bool, float)) and not isinstance(v, Unbound):
                s.env[name] = fresh(name, to_z3(v).sort())
            elif isinstance(v, Ref) and isinstance(st.heap.get(v.loc), AV):
                av = st.heap[v.loc]
                new = fresh_array(name + '_h', av.ndim, av.elem)
                for d in new.shape:
                    s.pc.append(d >= 0)
                r = s.alloc(new)
                s.env[name] = r
            elif v is None:
                s.env[name] = Unbound('was None before the loop')
            else:
                raise OutOfFragment('loop rebinds %r which holds a %s' % (name, type(v).__name__), n)
        return s

    def check_rebinds(self, n, s_head, s_end):
        """array variables rebound in a loop body must point to arrays allocated in that body (no aliasing)"""
        for name, v in s_end.env.items():
            v0 = s_head.env.get(name)
            if isinstance(v, Ref) and isinstance(s_end.heap.get(v.loc), AV):
                if isinstance(v0, Ref) and v0.loc == v.loc:
                    continue
                if v.loc in s_end.fresh_locs and v.loc not in s_head.fresh_locs:
                    continue
                if v0 is None or isinstance(v0, Unbound):
                    continue
                raise OutOfFragment('array variable %r rebound in a loop to a pre-existing array (aliasing)' % name, n)

    # ------------------------------------------------------------------ expressions (program mode)
    def deref(self, v, st):
        if isinstance(v, AV):
            return v
        if isinstance(v, Ref):
            o = st.heap[v.loc]
            if not isinstance(o, AV):
                raise OutOfFragment('expected an array')
            return o
        if isinstance(v, View):
            base = st.heap[v.loc]
            return AV(z3.Select(base.term, v.row), base.shape[1:], base.elem)
        raise OutOfFragment('expected an array, got %r' % (v,))

    def pev(self, n, st):
        m = getattr(self, 'ex_' + type(n).__name__, None)
        if m is None:
            raise OutOfFragment('expression %s' % type(n).__name__, n)
        return m(n, st)

    def ex_Constant(self, n, st):
        v = n.value
        if isinstance(v, (bool, int, float)):
            return to_z3(v)
        if isinstance(v, complex):
            return PyConst(v)
        return v

    def ex_Name(self, n, st):
        if n.id in st.env:
            v = st.env[n.id]
            if isinstance(v, Unbound):
                raise OutOfFragment('read of %r which may be unbound (%s)' % (n.id, v.why), n)
            return v
        if n.id in ('True', 'False', 'None'):
            return {'True': z3.BoolVal(True), 'False': z3.BoolVal(False), 'None': None}[n.id]
        if n.id in ('numpy', 'np'):
            return Tag('module', 'numpy')
        if n.id in self.local_funcs:
            return Tag('func', self.local_funcs[n.id], self.filekey)
        if n.id in self.module_funcs:
            return Tag('func', n.id, self.filekey)
        if self.modules is not None:
            r = self.modules.resolve(self.cur_file(), n.id)
            if r is not None and r[0] == 'func':
                return Tag('func', n.id, r[1])
            if r is not None and r[0] == 'class':
                return Tag('class', n.id, r[1])
        if n.id in ('isinstance', 'type', 'super', 'len', 'int', 'range', 'reversed', 'enumerate', 'list'):
            return Tag('builtin', n.id)
        raise OutOfFragment('unknown name %r' % n.id, n)

    def ex_Tuple(self, n, st):
        return tuple(self.pev(e, st) for e in n.elts)

    def ex_List(self, n, st):
        return st.alloc(ListObj([self.pev(e, st) for e in n.elts]))

    def ex_UnaryOp(self, n, st):
        v = self.pev(n.operand, st)
        if isinstance(n.op, ast.Not):
            return z3.Not(self.truth(v, st, n))
        if isinstance(n.op, ast.USub) and isinstance(v, Ref) and isinstance(st.heap.get(v.loc), Obj):
            o = st.heap[v.loc]
            m = self.find_method(o.cls, '__neg__')
            if m is None:
                raise OutOfFragment('%s has no __neg__' % o.cls, n)
            mfile, mcls, mdef = m
            callee = self.select_variant(mfile, mcls, '__neg__', [v], st)
            if callee is not None:
                return self.call_contract('%s.__neg__' % mcls, [v], n, st, mfile, callee=callee)
            return self.inline_call(mfile, mcls, mdef, [v], {}, st, n)
        if isinstance(n.op, ast.Invert):
            b_ = self.bool_array(v, st, n)
            return st.alloc(AV(self.lib.theory.decls['Not1'](b_.term), b_.shape, 'bool'))
        if isinstance(n.op, ast.USub):
            if isinstance(v, PyConst):
                return PyConst(-v.value)
            if isinstance(v, (Ref, View, AV)):
                return self.bin(ast.Sub(), z3.IntVal(0), v, st, n)
            if is_z3(v) and v.sort() == CPLX:
                from .engine import cneg
                return cneg(v)
            return -as_num(v)
        raise OutOfFragment('unary operator %s' % type(n.op).__name__, n)

    def ex_BoolOp(self, n, st):
        vs = [self.truth(self.pev(e, st), st, n) for e in n.values]
        return z3.And(*vs) if isinstance(n.op, ast.And) else z3.Or(*vs)

    def ex_IfExp(self, n, st):
        c = self.truth(self.pev(n.test, st), st, n)
        cs0 = z3.simplify(c)
        if z3.is_true(cs0):
            return self.pev(n.body, st)
        if z3.is_false(cs0):
            return self.pev(n.orelse, st)
        a = self.pev(n.body, st)
        b = self.pev(n.orelse, st)
        if not (is_z3(a) and is_z3(b)):
            cs = z3.simplify(c)
            if z3.is_true(cs):
                return a
            if z3.is_false(cs):
                return b
            raise OutOfFragment('conditional expression over non-scalars', n)
        if z3.is_bool(a) != z3.is_bool(b):
            a, b = as_num(a), as_num(b)
        return z3.If(c, a, b)

    def ex_Compare(self, n, st):
        left = self.pev(n.left, st)
        out = []
        for op, rn in zip(n.ops, n.comparators):
            right = self.pev(rn, st)
            if isinstance(op, (ast.Is, ast.IsNot)):
                if left is None or right is None:
                    same_ = left is None and right is None
                elif isinstance(left, Ref) and isinstance(right, Ref):
                    same_ = left.loc == right.loc
                else:
                    raise OutOfFragment('`is` between these values', n)
                out.append(z3.BoolVal(same_ if isinstance(op, ast.Is) else not same_))
                left = right
                continue
            if isinstance(left, (Ref, View, AV)) or isinstance(right, (Ref, View, AV)):
                if len(n.ops) != 1:
                    raise OutOfFragment('chained array comparison', n)
                return ArrCmp(left, right, op)
            if isinstance(left, tuple) and isinstance(right, tuple):
                if not isinstance(op, (ast.Eq, ast.NotEq)) or len(left) != len(right):
                    raise OutOfFragment('tuple comparison', n)
                e = z3.And(*[to_z3(a) == to_z3(b) for a, b in zip(left, right)])
                out.append(e if isinstance(op, ast.Eq) else z3.Not(e))
            elif (isinstance(left, Tag) and left.kind == 'char') or (isinstance(right, Tag) and right.kind == 'char') \
                    or isinstance(left, str) or isinstance(right, str):
                # characters and strings: equal only to a one-character string with the same code point; never equal to a number
                if not isinstance(op, (ast.Eq, ast.NotEq)):
                    raise OutOfFragment('ordering of characters', n)
                def code(v_):
                    if isinstance(v_, Tag) and v_.kind == 'char':
                        return v_.data[0]
                    if isinstance(v_, str) and len(v_) == 1:
                        return z3.IntVal(ord(v_))
                    return None
                if isinstance(left, str) and isinstance(right, str):
                    e = z3.BoolVal(left == right)
                else:
                    cl, cr = code(left), code(right)
                    e = (cl == cr) if (cl is not None and cr is not None) else z3.BoolVal(False)
                out.append(e if isinstance(op, ast.Eq) else z3.Not(e))
            else:
                out.append(compare(op, left, right))
            left = right
        return out[0] if len(out) == 1 else z3.And(*out)

    def ex_BinOp(self, n, st):
        # (A + B) % 2 on two 1-D integer arrays is the spec function Xor(A, B): using the canonical term makes
        # equal operations on equal operands equal by congruence (no extensionality argument needed)
        if isinstance(n.op, ast.Mod) and isinstance(n.right, ast.Constant) and n.right.value == 2 \
                and isinstance(n.left, ast.BinOp) and isinstance(n.left.op, ast.Add) and 'Xor' in self.lib.theory.decls:
            a = self.pev(n.left.left, st)
            b = self.pev(n.left.right, st)
            if isinstance(a, (Ref, View, AV)) and isinstance(b, (Ref, View, AV)):
                av_a, av_b = self.deref(a, st), self.deref(b, st)
                if av_a.ndim == 1 and av_b.ndim == 1 and av_a.elem == 'int' and av_b.elem == 'int':
                    self.oblige(st, self.site(n, 'shape'), av_a.shape[0] == av_b.shape[0], n)
                    term = self.lib.theory.decls['Xor'](av_a.term, av_b.term)
                    return st.alloc(AV(term, av_a.shape, 'int'))
            s_ = self.bin(ast.Add(), a, b, st, n.left)
            return self.bin(n.op, s_, to_z3(2), st, n)
        a = self.pev(n.left, st)
        b = self.pev(n.right, st)
        if isinstance(n.op, ast.BitAnd) and isinstance(a, Tag) and a.kind == 'set' and isinstance(b, Tag) and b.kind == 'set':
            return Tag('setand', a[1], b[1])
        if isinstance(a, Ref) and isinstance(st.heap.get(a.loc), Obj):
            # operator on an object: dispatch to the dunder method of its class (contract if there is one, else inlined)
            dunder = {ast.MatMult: '__matmul__', ast.Add: '__add__', ast.Sub: '__sub__', ast.Mult: '__mul__'}.get(type(n.op))
            if dunder is None:
                raise OutOfFragment('operator %s on an object' % type(n.op).__name__, n)
            o = st.heap[a.loc]
            m = self.find_method(o.cls, dunder)
            if m is None:
                raise OutOfFragment('%s has no %s' % (o.cls, dunder), n)
            mfile, mcls, mdef = m
            callee = self.select_variant(mfile, mcls, dunder, [a, b], st)
            if callee is not None:
                return self.call_contract('%s.%s' % (mcls, dunder), [a, b], n, st, mfile, callee=callee)
            return self.inline_call(mfile, mcls, mdef, [a, b], {}, st, n)
        return self.bin(n.op, a, b, st, n)

    def literal_is_index(self, node):
        """is this numpy.array([...]) literal the index of a subscript (fancy indexing  a[numpy.array([p, q])])?  decided from the
        syntax: the parent map of the function is built once"""
        if not hasattr(self, '_parents'):
            self._parents = {}
            for par in ast.walk(self.fdef):
                for ch in ast.iter_child_nodes(par):
                    self._parents[id(ch)] = par
        par = self._parents.get(id(node))
        return isinstance(par, ast.Subscript) and par.slice is node

    def cplx_array_op(self, op, a, b, av_a, av_b, st, node):
        """the two complex-array operations of the polynomial class:  0 - cs  (negation)  and  c * cs  (complex scalar times array);
        complex numbers are an uninterpreted sort with cmul / cneg (their arithmetic meaning is an assumption listed in the evidence)"""
        from .engine import cneg, cmul
        if isinstance(op, ast.Sub) and not isinstance(av_a, AV) and isinstance(av_b, AV) and av_b.ndim == 1:
            z = z3.simplify(as_num(av_a)) if not isinstance(a, PyConst) else None
            if z is not None and z3.is_int_value(z) and z.as_long() == 0:
                res = fresh('cneg', av_b.term.sort())
                k_ = fresh('k', I)
                st.pc.append(z3.ForAll([k_], z3.Select(res, k_) == cneg(z3.Select(av_b.term, k_)), patterns=[z3.Select(res, k_)]))
                return st.alloc(AV(res, av_b.shape, 'cplx'))
        if isinstance(op, ast.Mult) and not isinstance(av_a, AV) and isinstance(av_b, AV) and av_b.ndim == 1:
            c_ = self.cplx_of(a)
            res = fresh('cscale', av_b.term.sort())
            k_ = fresh('k', I)
            st.pc.append(z3.ForAll([k_], z3.Select(res, k_) == cmul(c_, z3.Select(av_b.term, k_)), patterns=[z3.Select(res, k_)]))
            return st.alloc(AV(res, av_b.shape, 'cplx'))
        raise OutOfFragment('complex array arithmetic', node)

    def bin(self, op, a, b, st, node):
        if isinstance(a, PyConst) or isinstance(b, PyConst):
            def pv(x):
                if isinstance(x, PyConst):
                    return x.value
                xs = z3.simplify(to_z3(x))
                if z3.is_int_value(xs):
                    return xs.as_long()
                if z3.is_rational_value(xs):
                    return float(xs.numerator_as_long()) / float(xs.denominator_as_long())
                raise OutOfFragment('arithmetic between a Python constant and a symbolic value', node)
            x, y = pv(a), pv(b)
            f = {ast.Add: lambda: x + y, ast.Sub: lambda: x - y, ast.Mult: lambda: x * y, ast.Div: lambda: x / y}.get(type(op))
            if f is None:
                raise OutOfFragment('operator on Python constants', node)
            return PyConst(f())
        arr_a = isinstance(a, (Ref, View, AV))
        arr_b = isinstance(b, (Ref, View, AV))
        if not arr_a and not arr_b and isinstance(op, ast.Mult) and ((is_z3(a) and a.sort() == CPLX) or (is_z3(b) and b.sort() == CPLX)):
            from .engine import cmul
            return cmul(self.cplx_of(a), self.cplx_of(b))      # product of two complex scalars (abstract)
        if arr_a or arr_b:
            av_a = self.deref(a, st) if arr_a else as_num(a)
            av_b = self.deref(b, st) if arr_b else as_num(b)
            if (isinstance(av_a, AV) and av_a.elem == 'cplx') or (isinstance(av_b, AV) and av_b.elem == 'cplx'):
                return self.cplx_array_op(op, a, b, av_a, av_b, st, node)
            res, side, axioms = array_binop(op, av_a, av_b, node)
            if side:
                self.oblige(st, self.site(node, 'shape'), z3.And(*side), node)
            st.pc.extend(axioms)
            return st.alloc(res)
        if isinstance(op, (ast.Mod, ast.FloorDiv)) and is_z3(to_z3(a)) and is_z3(to_z3(b)):
            bs = z3.simplify(as_num(b))
            if not z3.is_int_value(bs) and z3.is_int(as_num(a)) and z3.is_int(bs):
                # modulus / floor division by a symbolic positive integer: fresh quotient and remainder
                a_, b_ = as_num(a), as_num(b)
                self.oblige(st, self.site(node, 'divisor'), b_ > 0, node)
                qv, rv = fresh('quo', I), fresh('rem', I)
                st.pc.append(a_ == qv * b_ + rv)
                st.pc.append(z3.And(0 <= rv, rv < b_))
                # the value is returned as an explicit case term for the common ranges 0 <= a < 2b (equalities the
                # E-graph can use directly); outside them it is the constrained fresh remainder / quotient
                in0 = z3.And(0 <= a_, a_ < b_)
                in1 = z3.And(b_ <= a_, a_ < 2 * b_)
                rv2, qv2 = fresh('mod', I), fresh('div', I)
                st.pc.append(rv2 == z3.If(in0, a_, z3.If(in1, a_ - b_, rv)))
                st.pc.append(qv2 == z3.If(in0, z3.IntVal(0), z3.If(in1, z3.IntVal(1), qv)))
                rv, qv = rv2, qv2
                return rv if isinstance(op, ast.Mod) else qv
        if isinstance(op, (ast.BitXor, ast.BitAnd, ast.BitOr)) and not isinstance(a, (Ref, View, AV, PyConst)) and not isinstance(b, (Ref, View, AV, PyConst)):
            # bitwise operators on small non-negative integers: exact 8x8 table (operands must be provably in 0..7)
            a_, b_ = as_num(a), as_num(b)
            if z3.is_int(a_) and z3.is_int(b_):
                self.oblige(st, self.site(node, 'bitop-range'), z3.And(0 <= a_, a_ <= 7, 0 <= b_, b_ <= 7), node)
                f = {ast.BitXor: lambda x, y: x ^ y, ast.BitAnd: lambda x, y: x & y, ast.BitOr: lambda x, y: x | y}[type(op)]
                res = z3.IntVal(0)
                for x in range(8):
                    for y in range(8):
                        res = z3.If(z3.And(a_ == x, b_ == y), z3.IntVal(f(x, y)), res)
                return res
        if isinstance(op, ast.Div) and is_z3(to_z3(a)) and is_z3(to_z3(b)) and not isinstance(a, (Ref, View, AV)) and not isinstance(b, (Ref, View, AV)):
            bs_ = z3.simplify(as_num(b))
            if not (z3.is_int_value(bs_) or z3.is_rational_value(bs_)) and as_num(a).sort() != CPLX and bs_.sort() != CPLX:
                self.oblige(st, self.site(node, 'divisor'), as_num(b) != 0, node)
                ra = z3.ToReal(as_num(a)) if z3.is_int(as_num(a)) else as_num(a)
                rb = z3.ToReal(as_num(b)) if z3.is_int(as_num(b)) else as_num(b)
                return ra / rb
        if isinstance(op, ast.Pow) and is_z3(to_z3(a)) and is_z3(to_z3(b)):
            a_s = z3.simplify(as_num(a))
            if z3.is_int_value(a_s) and a_s.as_long() == 2 and not z3.is_int_value(z3.simplify(as_num(b))):
                self.oblige(st, self.site(node, 'pow2'), as_num(b) >= 0, node)
                pw = POW2(as_num(b))
                st.pc.append(pw >= 1)
                return pw
        if is_z3(a) and a.sort() == CPLX or is_z3(b) and b.sort() == CPLX:
            if isinstance(op, ast.Mult) and a.sort() == CPLX and b.sort() == CPLX:
                return cmul(a, b)
            raise OutOfFragment('complex arithmetic other than a product', node)
        return scalar_binop(op, a, b, node)

    def ex_Attribute(self, n, st):
        v = self.pev(n.value, st)
        if isinstance(v, Tag) and v.kind == 'module':
            return Tag('module', v[1] + '.' + n.attr)
        if isinstance(v, (Ref, View)) and not (isinstance(v, Ref) and isinstance(st.heap[v.loc], (Obj, ListObj))):
            av = self.deref(v, st)
            if n.attr == 'shape':
                return tuple(av.shape)
            if n.attr in ('copy', 'all', 'any', 'tolist', 'astype'):
                return Tag('method', v, n.attr)
            if n.attr == 'dtype':
                return Tag('dtype', av.elem)
            raise OutOfFragment('array attribute .%s' % n.attr, n)
        if isinstance(v, ArrCmp):
            if n.attr in ('all', 'any'):
                return Tag('method', v, n.attr)
        if isinstance(v, Ref) and isinstance(st.heap[v.loc], Obj):
            o = st.heap[v.loc]
            if n.attr in o.fields:
                return o.fields[n.attr]
            m = self.find_method(o.cls, n.attr)
            if m is None:
                raise OutOfFragment('object of class %s has no attribute %s' % (o.cls, n.attr), n)
            mfile, mcls, mdef = m
            if any(isinstance(d, ast.Name) and d.id == 'property' for d in mdef.decorator_list):
                return self.inline_call(mfile, mcls, mdef, [v], {}, st, n)
            return Tag('omethod', v, n.attr)
        if isinstance(v, Tag) and v.kind == 'super':
            m = self.find_method(v[1], n.attr, skip_first=True)
            if m is None:
                raise OutOfFragment('super().%s not found' % n.attr, n)
            return Tag('boundmethod', m, v[2])
        if isinstance(v, Ref) and isinstance(st.heap[v.loc], ListObj):
            return Tag('lmethod', v, n.attr)
        raise OutOfFragment('attribute .%s of %r' % (n.attr, type(v).__name__), n)

    def ex_Slice(self, n, st):
        # a slice object as a VALUE (argument of __getitem__): lower / upper as terms, no step
        if n.step is not None:
            raise OutOfFragment('slice with a step', n)
        return Tag('slice', None if n.lower is None else as_num(self.pev(n.lower, st)), None if n.upper is None else as_num(self.pev(n.upper, st)))

    def ex_Subscript(self, n, st):
        v = self.pev(n.value, st)
        sl = n.slice
        if isinstance(v, Ref) and isinstance(st.heap.get(v.loc), Obj):
            # obj[item]: dispatch to __getitem__
            o = st.heap[v.loc]
            m = self.find_method(o.cls, '__getitem__')
            if m is None:
                raise OutOfFragment('%s has no __getitem__' % o.cls, n)
            item = self.pev(sl, st)
            return self.inline_call(m[0], m[1], m[2], [v, item], {}, st, n)
        if isinstance(sl, ast.Name) and isinstance(st.env.get(sl.id), Tag) and st.env[sl.id].kind == 'slice' and isinstance(v, (Ref, View)):
            # a[item] with item bound to a slice object: rows lo..hi as the spec term RowSlice (2-D) / a fresh copy (1-D)
            t = st.env[sl.id]
            av = self.deref(v, st)
            lo = t[1] if t[1] is not None else z3.IntVal(0)
            hi = t[2] if t[2] is not None else av.shape[0]
            self.oblige(st, self.site(n, 'bounds'), z3.And(0 <= lo, lo <= hi, hi <= av.shape[0]), n)
            if av.ndim == 2:
                return st.alloc(AV(self.lib.theory.decls['RowSlice'](av.term, lo, hi), (hi - lo, av.shape[1]), av.elem))
            res = fresh('slice', av.term.sort())
            k_ = fresh('k', I)
            st.pc.append(z3.ForAll([k_], z3.Select(res, k_) == z3.Select(av.term, k_ + lo), patterns=[z3.Select(res, k_)]))
            return st.alloc(AV(res, (hi - lo,) + tuple(av.shape[1:]), av.elem))
        if isinstance(v, tuple):
            k = self.pev(sl, st)
            ks = z3.simplify(as_num(k))
            if not z3.is_int_value(ks):
                raise OutOfFragment('tuple index must be constant', n)
            return v[ks.as_long()]
        if isinstance(v, Ref) and isinstance(st.heap[v.loc], ListObj):
            k = z3.simplify(as_num(self.pev(sl, st)))
            if not z3.is_int_value(k):
                raise OutOfFragment('list index must be constant', n)
            return st.heap[v.loc].items[k.as_long()]
        if isinstance(v, (Ref, View)) and self.is_row_slice(sl):
            # a[lo:hi] or a[lo:hi, :] read as a value (numpy would give a view; any write through it is out of fragment
            # because the result is a fresh array here -- callers in the code base pass such slices to copies / readers only)
            av = self.deref(v, st)
            s0 = sl.elts[0] if isinstance(sl, ast.Tuple) else sl
            lo = as_num(self.pev(s0.lower, st)) if s0.lower is not None else z3.IntVal(0)
            hi = as_num(self.pev(s0.upper, st)) if s0.upper is not None else av.shape[0]
            if s0.upper is not None and any(isinstance(x, ast.UnaryOp) and isinstance(x.op, ast.USub) for x in ast.walk(s0.upper)):
                hi = z3.If(hi < 0, hi + av.shape[0], hi)      # a[:-e]: Python counts a negative stop from the end
            self.oblige(st, self.site(n, 'bounds'), z3.And(0 <= lo, lo <= hi, hi <= av.shape[0]), n)
            if av.elem == 'int' and av.ndim in (1, 2) and 'RowSlice' in self.lib.theory.decls and 'Slice1' in self.lib.theory.decls and self.c.canonical_slices:
                # the slice as a canonical spec term (equal slices of equal arrays are equal terms)
                term = self.lib.theory.decls['RowSlice' if av.ndim == 2 else 'Slice1'](av.term, lo, hi)
                return st.alloc(AV(term, (hi - lo,) + tuple(av.shape[1:]), av.elem))
            res = fresh('slice', av.term.sort())
            k_ = fresh('k', I)
            st.pc.append(z3.ForAll([k_], z3.Select(res, k_) == z3.Select(av.term, k_ + lo), patterns=[z3.Select(res, k_)]))
            return st.alloc(AV(res, (hi - lo,) + tuple(av.shape[1:]), av.elem))
        if isinstance(v, (Ref, View)) and self.mask_subscript(sl, st) is not None:
            return self.mask_gather(self.deref(v, st), self.mask_subscript(sl, st), st, n)
        if isinstance(v, Ref) and isinstance(st.heap.get(v.loc), AV) and self.row_mask_subscript(sl, st) is not None:
            return self.row_gather(self.deref(v, st), self.row_mask_subscript(sl, st), st, n)
        if isinstance(v, (Ref, View)) and isinstance(sl, ast.Tuple) and any(isinstance(e, ast.Slice) for e in sl.elts):
            return self.read_region(self.deref(v, st), sl, st, n)
        if isinstance(v, (Ref, View)) and isinstance(sl, ast.Name) and isinstance(st.env.get(sl.id), Ref) \
                and isinstance(st.heap.get(st.env[sl.id].loc), AV) and st.heap[st.env[sl.id].loc].elem == 'int' and st.heap[st.env[sl.id].loc].ndim == 1:
            # a[idx] with idx a 1-D integer array: a fresh array whose entry k is a[idx[k]] (indices within 0 .. len-1: obligation)
            av, ix = self.deref(v, st), st.heap[st.env[sl.id].loc]
            k_ = fresh('k', I)
            inr = z3.And(0 <= k_, k_ < ix.shape[0])
            self.oblige(st, self.site(n, 'bounds'), z3.ForAll([k_], z3.Implies(inr, z3.And(0 <= z3.Select(ix.term, k_), z3.Select(ix.term, k_) < av.shape[0])),
                                                              patterns=[z3.Select(ix.term, k_)]), n)
            res = fresh('take', av.term.sort())
            st.pc.append(z3.ForAll([k_], z3.Implies(inr, z3.Select(res, k_) == z3.Select(av.term, z3.Select(ix.term, k_))), patterns=[z3.Select(res, k_)]))
            return st.alloc(AV(res, (ix.shape[0],) + tuple(av.shape[1:]), av.elem))
        if isinstance(v, (Ref, View)):
            av = self.deref(v, st)
            idx = self.index_list(sl, st, av.shape)
            if len(idx) == 1 and isinstance(idx[0], IdxList):
                rows = []
                for k in idx[0].items:
                    self.bounds(st, k, av.shape[0], n)
                    rows.append(z3.Select(av.term, k))
                return Gather(rows, av.shape[1:])
            for k, nmax in zip(idx, av.shape):
                self.bounds(st, k, nmax, n)
            if len(idx) == av.ndim:
                t = av.term
                for k in idx:
                    t = z3.Select(t, k)
                return t
            if len(idx) == 1 and av.ndim == 2 and isinstance(v, Ref):
                return View(v.loc, idx[0])
            if len(idx) < av.ndim:
                t = av.term
                for k in idx:
                    t = z3.Select(t, k)
                return AV(t, av.shape[len(idx):], av.elem)      # value snapshot (read-only use)
            raise OutOfFragment('too many indices', n)
        raise OutOfFragment('subscript of %s' % type(v).__name__, n)

    # ------------------------------------------------------------------ boolean-mask column indexing  a[:, m]
    def bool_array(self, v, st, node):
        """a 1-D boolean array value: a bool array as it is, or the comparison  a != 0  of a 1-D integer array (spec term Nz(a))"""
        if isinstance(v, ArrCmp):
            a, b = v.a, v.b
            if isinstance(v.op, ast.NotEq) and isinstance(a, (Ref, View, AV)) and not isinstance(b, (Ref, View, AV)):
                bz = z3.simplify(as_num(b))
                av = self.deref(a, st)
                if z3.is_int_value(bz) and bz.as_long() == 0 and av.ndim == 1 and av.elem in ('int', 'bool'):
                    return AV(self.lib.theory.decls['Nz'](av.term), av.shape, 'bool')
            raise OutOfFragment('elementwise comparison other than  <1-D int array> != 0', node)
        if isinstance(v, (Ref, View, AV)):
            av = self.deref(v, st)
            if av.ndim == 1 and av.elem == 'bool':
                return av
        raise OutOfFragment('expected a 1-D boolean array', node)

    def mask_subscript(self, sl, st):
        """the boolean mask array of a subscript  [:, m]  (None if the subscript is not of that form); m: a name bound to a boolean
        array, or ~name"""
        if not (isinstance(sl, ast.Tuple) and len(sl.elts) == 2 and isinstance(sl.elts[0], ast.Slice)
                and sl.elts[0].lower is None and sl.elts[0].upper is None and sl.elts[0].step is None):
            return None
        e = sl.elts[1]
        inv = False
        if isinstance(e, ast.UnaryOp) and isinstance(e.op, ast.Invert):
            e, inv = e.operand, True
        if not isinstance(e, ast.Name):
            return None
        v = st.env.get(e.id)
        if isinstance(v, Ref) and isinstance(st.heap.get(v.loc), AV) and st.heap[v.loc].elem == 'bool' and st.heap[v.loc].ndim == 1:
            av = st.heap[v.loc]
            if inv:
                return AV(self.lib.theory.decls['Not1'](av.term), av.shape, 'bool')
            return av
        return None

    def row_mask_subscript(self, sl, st):
        """the boolean ROW mask of a subscript  a[b]  with b a name bound to a 1-D boolean array / comparison, or numpy.repeat(name, 2)"""
        if isinstance(sl, ast.Call) and isinstance(sl.func, ast.Attribute) and sl.func.attr == 'repeat' and len(sl.args) == 2 \
                and isinstance(sl.args[0], ast.Name) and isinstance(sl.args[1], ast.Constant) and sl.args[1].value == 2:
            v0 = st.env.get(sl.args[0].id)
            if isinstance(v0, Ref) and isinstance(st.heap.get(v0.loc), AV) and st.heap[v0.loc].elem == 'bool' and st.heap[v0.loc].ndim == 1:
                av0 = st.heap[v0.loc]
                return AV(self.lib.theory.decls['Repeat2'](av0.term), (2 * av0.shape[0],), 'bool')
            return None
        if not isinstance(sl, ast.Name):
            return None
        v = st.env.get(sl.id)
        if isinstance(v, ArrCmp):
            try:
                return self.bool_array(v, st, sl)
            except OutOfFragment:
                return None
        if isinstance(v, Ref) and isinstance(st.heap.get(v.loc), AV) and st.heap[v.loc].elem == 'bool' and st.heap[v.loc].ndim == 1:
            return st.heap[v.loc]
        return None

    def row_gather(self, av, m, st, node):
        if av.ndim == 1:
            # x[m] of a 1-D array: the spec term Compress(x, m, n)
            self.oblige(st, self.site(node, 'shape'), m.shape[0] == av.shape[0], node)
            idx, cnt, pos = self.mask_facts(m, st)
            if av.elem not in ('int', 'bool'):
                # complex / real entries: the spec term Compress is integer-valued; a fresh array with the same pointwise meaning
                res = fresh('gathered', av.term.sort())
                k_ = fresh('k', I)
                st.pc.append(z3.ForAll([k_], z3.Implies(z3.And(0 <= k_, k_ < cnt), z3.Select(res, k_) == z3.Select(av.term, z3.Select(idx, k_))),
                                       patterns=[z3.Select(res, k_)]))
                return st.alloc(AV(res, (cnt,), av.elem))
            return st.alloc(AV(self.lib.theory.decls['Compress'](av.term, m.term, m.shape[0]), (cnt,), av.elem))
        if av.ndim != 2:
            raise OutOfFragment('boolean row indexing of a non-2-D array', node)
        self.oblige(st, self.site(node, 'shape'), m.shape[0] == av.shape[0], node)
        idx, cnt, pos = self.mask_facts(m, st)
        return st.alloc(AV(self.lib.theory.decls['Rows'](av.term, m.term, m.shape[0]), (cnt, av.shape[1]), av.elem))

    def mask_facts(self, m, st):
        """numpy semantics of boolean indexing for this mask term: the assumed lemma `mask_index` instantiated"""
        lem = self.lib.lemmas['mask_index']
        _, post = instantiate_lemma(self.lib, lem, [m, m.shape[0]])
        for p_ in post:
            if not any(z3.eq(p_, h) for h in st.pc):
                st.pc.append(p_)
        self.used_axioms = getattr(self, 'used_axioms', set()) | {'mask_index'}
        th = self.lib.theory
        return th.decls['MaskIdx'](m.term, m.shape[0]), th.decls['MaskCnt'](m.term, m.shape[0]), th.decls['MaskPos'](m.term, m.shape[0])

    def mask_gather(self, av, m, st, node):
        if av.ndim != 2:
            raise OutOfFragment('mask indexing of a non-2-D array', node)
        self.oblige(st, self.site(node, 'shape'), m.shape[0] == av.shape[1], node)
        idx, cnt, pos = self.mask_facts(m, st)
        # every row of the result IS the spec term Compress(row, m, n) (so that spec functions of the gathered rows and of
        # Compress(...) are the same terms); the pointwise meaning comes from the definition of Compress
        return st.alloc(AV(self.lib.theory.decls['Cols'](av.term, m.term, m.shape[0]), (av.shape[0], cnt), av.elem))

    def mask_scatter(self, base, av, m, val, st, node):
        if av.ndim != 2 or not isinstance(val, (Ref, View, AV)):
            raise OutOfFragment('mask assignment form', node)
        src = self.deref(val, st)
        idx, cnt, pos = self.mask_facts(m, st)
        self.oblige(st, self.site(node, 'shape'), z3.And(m.shape[0] == av.shape[1], src.ndim == 2, src.shape[0] == av.shape[0], src.shape[1] == cnt) if src.ndim == 2 else z3.BoolVal(False), node)
        new = fresh('scatter', av.term.sort())
        r_, c_ = fresh('r', I), fresh('c', I)
        lhs = z3.Select(z3.Select(new, r_), c_)
        rhs = z3.If(z3.Select(m.term, c_) != 0, z3.Select(z3.Select(src.term, r_), z3.Select(pos, c_)), z3.Select(z3.Select(av.term, r_), c_))
        st.pc.append(z3.ForAll([r_, c_], z3.Implies(z3.And(0 <= c_, c_ < av.shape[1]), lhs == rhs), patterns=[lhs]))
        st.heap[base.loc] = AV(new, av.shape, av.elem)

    # ------------------------------------------------------------------ rectangular regions  a[j, lo:hi], a[:, lo:hi], a[lo:hi, c]
    def region_spec(self, av, sl, st, node):
        """per axis: ('i', index) or ('s', lo, hi); bounds are obligations"""
        if len(sl.elts) != av.ndim:
            raise OutOfFragment('region subscript must index every axis', node)
        spec = []
        for e, nmax in zip(sl.elts, av.shape):
            if isinstance(e, ast.Slice):
                if e.step is not None:
                    raise OutOfFragment('slice with a step', node)
                lo = as_num(self.pev(e.lower, st)) if e.lower is not None else z3.IntVal(0)
                hi = as_num(self.pev(e.upper, st)) if e.upper is not None else nmax
                self.oblige(st, self.site(node, 'bounds'), z3.And(0 <= lo, lo <= hi, hi <= nmax), node)
                spec.append(('s', lo, hi))
            else:
                k = self.index_one(e, st)
                if isinstance(k, IdxList):
                    raise OutOfFragment('fancy index mixed with a slice', node)
                self.bounds(st, k, nmax, node)
                spec.append(('i', k))
        return spec

    def read_region(self, av, sl, st, node):
        """value of a rectangular region (a fresh array constant with a pointwise definition); numpy would return a view:
        every write through the result is out of the fragment, reads are exact as long as the base is not modified while the
        result is live -- the result is consumed in the same statement in the code base"""
        spec = self.region_spec(av, sl, st, node)
        shape = tuple(hi - lo for (kind, *r) in spec if kind == 's' for (lo, hi) in [r])
        res = fresh_array('region', len(shape), av.elem, shape=shape)
        ks = [fresh('k', I) for _ in shape]
        src, dst, it = av.term, res.term, iter(ks)
        for item in spec:
            if item[0] == 'i':
                src = z3.Select(src, item[1])
            else:
                k_ = next(it)
                src = z3.Select(src, k_ + item[1])
                dst = z3.Select(dst, k_)
        st.pc.append(z3.ForAll(ks, dst == src, patterns=[dst]))
        return st.alloc(res)

    def write_region(self, base, av, sl, val, st, node):
        spec = self.region_spec(av, sl, st, node)
        shape = tuple(hi - lo for (kind, *r) in spec if kind == 's' for (lo, hi) in [r])
        scalar = None
        bcast1 = None
        if isinstance(val, (Ref, View, AV)):
            src = self.deref(val, st)
            if src.ndim != len(shape):
                raise OutOfFragment('rank mismatch in region assignment', node)
            if 'ValueError' in self.c.may_raise and not self.inline_depth and len(shape) == 1 and len(spec) == 1:
                # a[lo:hi] = v on a 1-D array in a function whose contract allows ValueError (partial correctness): numpy raises ValueError
                # unless the lengths agree or v has exactly one element (which is then broadcast over the slice, possibly an empty one);
                # the path continues under that condition and the broadcast is modelled
                st.pc.append(z3.Or(src.shape[0] == shape[0], src.shape[0] == 1))
                bcast1 = src.shape[0] == 1
            else:
                self.oblige(st, self.site(node, 'shape'), z3.And(*[a == b for a, b in zip(shape, src.shape)]), node)
        else:
            scalar = self.coerce_elem(val, av.elem, node)
        # leading integer indices select a sub-array that is replaced by a Store (all other sub-arrays stay syntactically the
        # same terms); the sub-array itself is a fresh constant defined pointwise
        lead = []
        while len(lead) < len(spec) and spec[len(lead)][0] == 'i':
            lead.append(spec[len(lead)][1])
        rest = spec[len(lead):]
        sub_old = av.term
        for k_ in lead:
            sub_old = z3.Select(sub_old, k_)
        new = fresh('upd', sub_old.sort())
        ks = [fresh('k', I) for _ in rest]
        inside = []
        o, nw = sub_old, new
        sv = None if scalar is not None else src.term
        for k_, item in zip(ks, rest):
            o, nw = z3.Select(o, k_), z3.Select(nw, k_)
            if item[0] == 'i':
                inside.append(k_ == item[1])
            else:
                inside.append(z3.And(item[1] <= k_, k_ < item[2]))
                if sv is not None:
                    sv = z3.Select(sv, z3.If(bcast1, z3.IntVal(0), k_ - item[1]) if (scalar is None and bcast1 is not None) else k_ - item[1])
        rhs = scalar if scalar is not None else sv
        st.pc.append(z3.ForAll(ks, nw == z3.If(z3.And(*inside), rhs, o), patterns=[nw]))
        st.heap[base.loc] = AV(store_nd(av.term, lead, new) if lead else new, av.shape, av.elem)

    # ------------------------------------------------------------------ calls
    def ex_Call(self, n, st):
        if isinstance(n.func, ast.Name) and n.func.id not in st.env and n.func.id not in self.module_funcs and n.func.id not in self.local_funcs \
                and (self.modules is None or self.modules.resolve(self.cur_file(), n.func.id) is None):
            f = Tag('builtin', n.func.id)
        else:
            f = self.pev(n.func, st)
        if isinstance(f, Tag) and f.kind == 'builtin':
            return self.call_builtin(f[1], n, st)
        if isinstance(f, Tag) and f.kind == 'module':
            return self.call_numpy(f[1], n, st)
        if isinstance(f, Tag) and f.kind == 'method':
            if n.keywords:
                raise OutOfFragment('keyword arguments in an array method call', n)
            return self.call_method(f[1], f[2], n, st)
        if isinstance(f, Tag) and f.kind == 'lmethod':
            lst = st.heap[f[1].loc]
            if f[2] == 'append' and len(n.args) == 1:
                v = self.pev(n.args[0], st)
                if isinstance(v, AV):
                    v = st.alloc(v)
                st.heap[f[1].loc] = ListObj(lst.items + [v])
                return None
            raise OutOfFragment('list method .%s' % f[2], n)
        args, kwargs = self.eval_args(n, st)
        if isinstance(f, Tag) and f.kind == 'func':
            fname, ffile = f[1], f[2]
            callee = self.lib.by_name.get((ffile, fname))
            if callee is None and not kwargs and any(k.startswith('%s::%s#' % (ffile, fname)) for k in self.lib.contracts):
                # a function with contract variants: the variant whose parameter types accept the actual arguments
                sel = self.match_variant('%s::%s' % (ffile, fname), args, st)
                if sel is not None:
                    return self.call_contract(fname, args, n, st, ffile, callee=sel)
            if callee is not None:
                if kwargs:
                    raise OutOfFragment('keyword arguments in a call to a contracted function', n)
                # a rectangular region a[lo:hi, lo2:hi2] (slices only: basic indexing, numpy passes a VIEW; a mask or index array in the
                # subscript makes a copy and is not affected) of a local array passed to a callee that modifies that parameter in place:
                # the callee works on the region's content, its result is written back into the base array
                regions = []
                for i_, a_ in enumerate(n.args):
                    if isinstance(a_, ast.Subscript) and isinstance(a_.value, ast.Name) and isinstance(a_.slice, ast.Tuple) \
                            and all(isinstance(e_, ast.Slice) for e_ in a_.slice.elts) and i_ < len(callee.params) \
                            and callee.params[i_][0] in callee.modifies and isinstance(args[i_], Ref):
                        base = st.env.get(a_.value.id)
                        if not (isinstance(base, Ref) and isinstance(st.heap.get(base.loc), AV)):
                            raise OutOfFragment('region argument of something that is not a local array', n)
                        if any(isinstance(x, (Ref, View)) and x.loc == base.loc for x in args):
                            raise OutOfFragment('an array and a region of it passed to the same call', n)
                        regions.append((i_, a_, base))
                res = self.call_contract(fname, args, n, st, ffile)
                for i_, a_, base in regions:
                    self.write_region(base, self.deref(base, st), a_.slice, args[i_], st, n)
                    st.env['region_%s_%d' % (fname.split('.')[-1], i_)] = args[i_]      # ghost name for hints: the region after the call
                return res
            r = self.modules.resolve(ffile, fname) if self.modules else None
            if r is None:
                raise OutOfFragment('call to %s which has no contract' % fname, n)
            return self.inline_call(r[1], None, r[2], args, kwargs, st, n)
        if isinstance(f, Tag) and f.kind == 'class':
            return self.instantiate(f[1], f[2], args, kwargs, st, n)
        if isinstance(f, Tag) and f.kind == 'omethod':
            recv, meth = f[1], f[2]
            o = st.heap[recv.loc]
            mfile, mcls, mdef = self.find_method(o.cls, meth)
            callee, full = None, [recv] + args
            pin = self.c.calls.get(self.call_name(n)) if not self.inline_depth else None
            if pin is not None:
                # the contract names the callee's variant to use here (its requires are obligations as always)
                callee = self.lib.contracts.get('%s::%s' % (mfile, pin))
                if callee is None or kwargs:
                    raise ContractError('%s: pinned callee contract %s not found' % (self.c.key, pin))
            elif not kwargs:
                callee = self.select_variant(mfile, mcls, meth, full, st)
            else:
                # keyword arguments: placed by parameter name of the real signature, then matched like positional ones
                names = [a.arg for a in mdef.args.args]
                if all(k in names[len(full):] for k in kwargs) and not mdef.args.vararg and not mdef.args.kwarg:
                    last = max(names.index(k) for k in kwargs)
                    ordered, ok_ = list(full), True
                    for nm in names[len(full):last + 1]:
                        if nm in kwargs:
                            ordered.append(kwargs[nm])
                        else:
                            ok_ = False        # a skipped middle parameter: leave it to inlining
                            break
                    if ok_:
                        callee = self.select_variant(mfile, mcls, meth, ordered, st)
                        if callee is not None:
                            full = ordered
            if callee is not None:
                return self.call_contract('%s.%s' % (mcls, meth), full, n, st, mfile, callee=callee)
            return self.inline_call(mfile, mcls, mdef, [recv] + args, kwargs, st, n)
        if isinstance(f, Tag) and f.kind == 'boundmethod':
            (mfile, mcls, mdef), recv = f[1], f[2]
            return self.inline_call(mfile, mcls, mdef, [recv] + args, kwargs, st, n)
        raise OutOfFragment('call of %r' % (getattr(f, 'kind', f),), n)

    def eval_args(self, n, st):
        args = []
        for a in n.args:
            if isinstance(a, ast.Starred):
                v = self.pev(a.value, st)
                if isinstance(v, Ref) and isinstance(st.heap.get(v.loc), AV) and st.heap[v.loc].ndim == 1 and st.heap[v.loc].elem == 'int' \
                        and len(n.args) == 1:
                    # f(*a) with a 1-D integer array as the only argument: the callee's *varargs is that integer sequence
                    args.append(Tag('stararray', v))
                    continue
                if not isinstance(v, tuple):
                    raise OutOfFragment('*args of a non-tuple', n)
                args.extend(v)
            else:
                v = self.pev(a, st)
                args.append(v)
        kwargs = {}
        for k in n.keywords:
            if k.arg is None:
                v = self.pev(k.value, st)
                if not isinstance(v, dict):
                    raise OutOfFragment('**kwargs of a non-dict', n)
                kwargs.update(v)
            else:
                kwargs[k.arg] = self.pev(k.value, st)
        return args, kwargs

    # ------------------------------------------------------------------ classes, methods, inlining
    def select_variant(self, mfile, mcls, meth, args, st):
        """the contract (variant) of a method whose declared parameter classes accept the actual arguments; the most specific
        receiver class wins.  None if no variant fits (the call is then inlined)."""
        base = '%s::%s.%s' % (mfile, mcls, meth)
        return self.match_variant(base, args, st)

    def field_matches(self, ft, v, st):
        """does the current value of an object field fit the declared field type (None-ness and object-ness only)?"""
        if isinstance(ft, tuple) and len(ft) == 2 and ft[0] == 'opt':
            return v is None or self.field_matches(ft[1], v, st)
        if ft == 'none':
            return v is None
        if v is None:
            return False
        if isinstance(ft, dict) and 'cls' in ft:
            return isinstance(v, Ref) and isinstance(st.heap.get(v.loc), Obj) and self.is_subclass(st.heap[v.loc].cls, ft['cls'])
        return True

    def match_variant(self, base, args, st):
        cands = [c for k, c in self.lib.contracts.items() if k == base or k.startswith(base + '#')]
        best, best_rank = None, -1
        for c in cands:
            if c.key == self.c.key:
                continue                      # never use the contract under verification for its own body
            params = c.params
            actual = list(args) + [c.defaults[p] if p in c.defaults else Unbound('missing') for p, _ in params[len(args):]]
            if len(actual) != len(params) or any(isinstance(a, Unbound) for a in actual):
                continue
            ok, rank = True, 0
            for (p, ty), a in zip(params, actual):
                if isinstance(ty, dict):
                    if not (isinstance(a, Ref) and isinstance(st.heap.get(a.loc), Obj)):
                        ok = False
                        break
                    cls = st.heap[a.loc].cls
                    if not self.is_subclass(cls, ty['cls']) or (ty.get('exact') and cls != ty['cls']):
                        ok = False
                        break
                    if any(f not in st.heap[a.loc].fields for f in ty['fields']):
                        ok = False
                        break
                    if not all(self.field_matches(ft_, st.heap[a.loc].fields[f_], st) for f_, ft_ in ty['fields'].items()):
                        ok = False            # e.g. a gate whose generator is None does not fit a variant that declares a generator
                        break
                    rank += len(self.class_chain(ty['cls']))          # deeper class = more specific
                elif ty == 'none':
                    if a is not None:
                        ok = False
                        break
                elif isinstance(ty, tuple) and ty and ty[0] == 'const':
                    if not (isinstance(a, PyConst) and a.value == ty[1]):
                        ok = False
                        break
                elif ty == 'slice' or (isinstance(a, Tag) and a.kind == 'slice'):
                    if not (ty == 'slice' and isinstance(a, Tag) and a.kind == 'slice'):
                        ok = False
                        break
                elif isinstance(ty, str) and ty in TYPE_ARR:
                    if not isinstance(a, (Ref, View, AV)) or (isinstance(a, Ref) and not isinstance(st.heap.get(a.loc), AV)):
                        ok = False
                        break
                    ek = self.deref(a, st).elem
                    if (ek in ('char', 'strc') or TYPE_ARR[ty][1] in ('char', 'strc')) and ek != TYPE_ARR[ty][1]:
                        ok = False            # lists of characters / strings / numeric arrays are told apart
                        break
                else:
                    if isinstance(a, (Ref, View, AV)) or a is None:
                        ok = False
                        break
            if ok and rank > best_rank:
                best, best_rank = c, rank
        return best

    def cur_file(self):
        return getattr(self, '_cur_file', self.filekey)

    def find_method(self, cname, meth, skip_first=False):
        """(defining file, defining class name, FunctionDef) along the inheritance chain of class `cname`"""
        if self.modules is None:
            return None
        chain = self.class_chain(cname)
        if skip_first:
            chain = chain[1:]
        for (f, cdef) in chain:
            for b in cdef.body:
                if isinstance(b, ast.FunctionDef) and b.name == meth:
                    return (f, cdef.name, b)
        return None

    def class_chain(self, cname):
        """inheritance chain of a class by name: visible from the current file, the verified file, or any file of the package"""
        import os
        chain = self.modules.mro(self.cur_file(), cname) or self.modules.mro(self.filekey, cname)
        if not chain:
            pkg = os.path.dirname(self.filekey)
            for f in ('paulialg.py', 'stabilizer.py', 'circuit.py', 'utils.py', 'device.py'):
                chain = self.modules.mro(os.path.join(pkg, f), cname)
                if chain:
                    break
        return chain

    def is_subclass(self, cname, target):
        chain = self.class_chain(cname)
        return any(c.name == target for _, c in chain)

    def instantiate(self, cname, cfile, args, kwargs, st, node):
        obj = st.alloc(Obj(cname, {}))
        saved = getattr(self, '_cur_file', None)
        self._cur_file = cfile
        try:
            m = self.find_method(cname, '__init__')
        finally:
            self._cur_file = saved if saved is not None else self.filekey
        if m is None:
            if args or kwargs:
                raise OutOfFragment('class %s has no __init__' % cname, node)
            return obj
        self.inline_call(m[0], m[1], m[2], [obj] + list(args), kwargs, st, node)
        return obj

    def inline_call(self, ffile, cls, fdef, args, kwargs, st, node):
        """execute the body of a (loop-free, single-path) function in place: constructors, properties, casts.
        Not modular on purpose: these helpers have no contract of their own; what they do is re-derived at every use."""
        if self.inline_depth > 8:
            raise OutOfFragment('inlining too deep (recursion?) at %s' % fdef.name, node)
        a = fdef.args
        if a.posonlyargs or a.kwonlyargs and any(d is None for d in a.kw_defaults):
            raise OutOfFragment('signature of inlined %s' % fdef.name, node)
        names = [x.arg for x in a.args]
        env = {}
        args = list(args)
        if len(args) > len(names) and a.vararg is None:
            raise OutOfFragment('too many arguments for %s' % fdef.name, node)
        for nm, v in zip(names, args):
            env[nm] = v
        if a.vararg is not None:
            rest = args[len(names):]
            if len(rest) == 1 and isinstance(rest[0], Tag) and rest[0].kind == 'stararray':
                env[a.vararg.arg] = rest[0][1]          # the integer sequence itself (a tuple of ints is modelled as an int array)
            else:
                env[a.vararg.arg] = tuple(rest)
        elif any(isinstance(x, Tag) and x.kind == 'stararray' for x in args):
            raise OutOfFragment('*array passed to a function without *varargs', node)
        kwargs = dict(kwargs)
        defaults = dict(zip(names[len(names) - len(a.defaults):], a.defaults))
        for nm in names[len(args):]:
            if nm in kwargs:
                env[nm] = kwargs.pop(nm)
            elif nm in defaults:
                d = defaults[nm]
                if not isinstance(d, ast.Constant):
                    raise OutOfFragment('non-constant default in inlined %s' % fdef.name, node)
                env[nm] = to_z3(d.value) if isinstance(d.value, (bool, int, float)) else d.value
            else:
                raise OutOfFragment('missing argument %s for %s' % (nm, fdef.name), node)
        for kw_, d in zip(a.kwonlyargs, a.kw_defaults):
            if kw_.arg in kwargs:
                env[kw_.arg] = kwargs.pop(kw_.arg)
            else:
                env[kw_.arg] = to_z3(d.value) if isinstance(d.value, (bool, int, float)) else d.value
        if a.kwarg is not None:
            env[a.kwarg.arg] = kwargs
        elif kwargs:
            raise OutOfFragment('unexpected keyword arguments %s for %s' % (sorted(kwargs), fdef.name), node)
        body = fdef.body
        if body and isinstance(body[0], ast.Expr) and isinstance(getattr(body[0], 'value', None), ast.Constant) \
                and isinstance(body[0].value.value, str):
            body = body[1:]
        saved_env, saved_file, saved_cls = st.env, getattr(self, '_cur_file', None), self.class_name
        st.env = env
        self._cur_file = ffile
        self.inline_depth += 1
        try:
            outs = self.exec_block(body, st)
        finally:
            self.inline_depth -= 1
            self._cur_file = saved_file if saved_file is not None else self.filekey
        if len(outs) != 1 or outs[0][0] is not st:
            raise OutOfFragment('inlined %s is not single-path here (%d paths)' % (fdef.name, len(outs)), node)
        st.env = saved_env
        ctl = outs[0][1]
        if ctl is None:
            return None
        if ctl[0] == 'return':
            return ctl[1]
        if ctl[0] == 'raise':
            raise OutOfFragment('inlined %s raises %s on this path' % (fdef.name, ctl[1]), node)
        raise OutOfFragment('control flow %r leaving inlined %s' % (ctl, fdef.name), node)

    def call_builtin(self, name, n, st):
        if name == 'enumerate' and len(n.args) == 1 and not n.keywords:
            v = self.pev(n.args[0], st)
            if isinstance(v, (Ref, View)) and not (isinstance(v, Ref) and not isinstance(st.heap[v.loc], AV)) and self.deref(v, st).ndim == 1:
                return Tag('enumerate', v)
            raise OutOfFragment('enumerate of something that is not a 1-D array', n)
        if name == 'list' and len(n.args) == 1 and not n.keywords:
            v = self.pev(n.args[0], st)
            if isinstance(v, Ref) and isinstance(st.heap[v.loc], AV) and st.heap[v.loc].elem == 'strc':
                av = st.heap[v.loc]
                return st.alloc(AV(av.term, av.shape, 'char'))      # list(<str>): the list of its characters
            if isinstance(v, (Ref, View)) and not (isinstance(v, Ref) and not isinstance(st.heap[v.loc], AV)) \
                    and self.deref(v, st).ndim == 1 and self.deref(v, st).elem == 'int':
                av = self.deref(v, st)
                return st.alloc(AV(av.term, av.shape, 'int'))       # list(<1-D integer array>): a new sequence of the same integers
            raise OutOfFragment('list() of this value', n)
        if name == 'max' and len(n.args) == 1 and not n.keywords:
            v = self.pev(n.args[0], st)
            if isinstance(v, (Ref, View)) and not (isinstance(v, Ref) and not isinstance(st.heap[v.loc], AV)):
                av = self.deref(v, st)
                if av.ndim != 1 or av.elem not in ('int', 'bool'):
                    raise OutOfFragment('max of this array', n)
                self.oblige(st, self.site(n, 'max'), av.shape[0] >= 1, n)      # max() of an empty sequence raises
                mx, k_, w_ = fresh('max', I), fresh('k', I), fresh('w', I)
                st.pc.append(z3.ForAll([k_], z3.Implies(z3.And(0 <= k_, k_ < av.shape[0]), z3.Select(av.term, k_) <= mx), patterns=[z3.Select(av.term, k_)]))
                st.pc.append(z3.And(0 <= w_, w_ < av.shape[0], z3.Select(av.term, w_) == mx))
                return mx
        if name == 'isinstance' and len(n.args) == 2:
            targets = n.args[1].elts if isinstance(n.args[1], ast.Tuple) else [n.args[1]]
            names = []
            for t in targets:
                names.append(ast.unparse(t))
            if isinstance(n.args[0], ast.Subscript) and not isinstance(n.args[0].slice, (ast.Slice, ast.Tuple)):
                # isinstance(a[k], numpy.bool_ / int ...) of an array element: decided by the element kind of the array
                base = self.pev(n.args[0].value, st)
                if isinstance(base, (Ref, View)) and not (isinstance(base, Ref) and not isinstance(st.heap[base.loc], AV)):
                    av = self.deref(base, st)
                    if av.ndim == 1:
                        self.pev(n.args[0], st)          # bounds obligation of the element read
                        kinds = {'bool': ('numpy.bool_', 'np.bool_', 'bool'), 'int': ('int', 'numpy.integer', 'numpy.int_', 'numpy.int64')}.get(av.elem, ())
                        return z3.BoolVal(any(t in kinds for t in names))
            v = self.pev(n.args[0], st)
            if isinstance(v, Ref) and isinstance(st.heap[v.loc], Obj):
                cls = st.heap[v.loc].cls
                return z3.BoolVal(any(self.is_subclass(cls, t) for t in names))
            if isinstance(v, Ref) and isinstance(st.heap[v.loc], ListObj):
                return z3.BoolVal('list' in names)
            if isinstance(v, Ref) and isinstance(st.heap[v.loc], AV) and st.heap[v.loc].elem in ('char', 'strc'):
                return z3.BoolVal(('list' if st.heap[v.loc].elem == 'char' else 'str') in names)
            if isinstance(v, (Ref, View, AV)):
                return z3.BoolVal(any(t in ('numpy.ndarray', 'np.ndarray') for t in names))
            if isinstance(v, tuple):
                return z3.BoolVal('tuple' in names)
            if is_z3(v) and z3.is_int(v):
                return z3.BoolVal(any(t in ('int', 'numpy.integer') for t in names))
            if v is None or isinstance(v, (str, dict)):
                return z3.BoolVal(type(v).__name__ in names)
            if isinstance(v, Tag) and v.kind == 'slice':
                return z3.BoolVal('slice' in names)
            raise OutOfFragment('isinstance of this value', n)
        if name == 'type' and len(n.args) == 1:
            v = self.pev(n.args[0], st)
            if isinstance(v, Ref) and isinstance(st.heap[v.loc], Obj):
                cls = st.heap[v.loc].cls
                r = self.modules.resolve(self.cur_file(), cls) or self.modules.resolve(self.filekey, cls)
                return Tag('class', cls, r[1] if r else self.filekey)
            raise OutOfFragment('type() of a non-object', n)
        if name == 'super':
            if len(n.args) == 2:
                cls = ast.unparse(n.args[0])
                recv = self.pev(n.args[1], st)
            elif not n.args and 'self' in st.env and self.class_name:
                cls = self.class_name
                recv = st.env['self']
            else:
                raise OutOfFragment('super() form', n)
            return Tag('super', cls, recv)
        if name == 'all' and len(n.args) == 1 and isinstance(n.args[0], ast.GeneratorExp):
            return self.all_over_seq(n.args[0], st, n)
        args = [self.pev(a, st) for a in n.args]
        if name == 'set' and len(args) == 1 and isinstance(args[0], (Ref, View)) \
                and not (isinstance(args[0], Ref) and not isinstance(st.heap[args[0].loc], AV)):
            av = self.deref(args[0], st)
            if av.ndim == 1 and av.elem == 'int':
                return Tag('set', av)                       # the set of the elements of an integer sequence
        if name == 'len' and isinstance(args[0], Tag) and args[0].kind == 'setand':
            # len(set(a) & set(b)): only whether it is zero is characterised -- zero iff the sequences share no element
            a_, b_ = args[0][1], args[0][2]
            nn, i_, j_ = fresh('ncommon', I), fresh('i', I), fresh('j', I)
            share = z3.Exists([i_, j_], z3.And(0 <= i_, i_ < a_.shape[0], 0 <= j_, j_ < b_.shape[0], z3.Select(a_.term, i_) == z3.Select(b_.term, j_)))
            st.pc.append(nn >= 0)
            st.pc.append((nn == 0) == z3.Not(share))
            return nn
        if name == 'len':
            v = args[0]
            if isinstance(v, (Ref, View)) and not (isinstance(v, Ref) and isinstance(st.heap[v.loc], (ListObj, Obj))):
                return self.deref(v, st).shape[0]
            if isinstance(v, Ref) and isinstance(st.heap[v.loc], ListObj):
                return z3.IntVal(len(st.heap[v.loc].items))
            if isinstance(v, tuple):
                return z3.IntVal(len(v))
        if name == 'int' and len(args) == 1 and is_z3(args[0]) and z3.is_int(args[0]):
            return args[0]
        if name == 'int' and len(args) == 1 and is_z3(args[0]) and z3.is_real(args[0]):
            x_ = args[0]
            return z3.If(x_ >= 0, z3.ToInt(x_), -z3.ToInt(-x_))      # int() of a float truncates toward zero
        if name == 'reversed' or name == 'range':
            raise OutOfFragment('%s outside a for header' % name, n)
        raise OutOfFragment('builtin %s' % name, n)

    def all_over_seq(self, ge, st, node):
        """all(x.m(args) for x in <list of objects of unknown length>): a universally quantified instance of the callee's FUNCTIONAL
        contract (first ensures of the form  iff(result, E)  /  result == E, no modifies); its requires are an obligation for every
        element"""
        if len(ge.generators) != 1 or ge.generators[0].ifs or not isinstance(ge.generators[0].target, ast.Name):
            raise OutOfFragment('generator expression form', node)
        seqv = self.pev(ge.generators[0].iter, st)
        if not (isinstance(seqv, Ref) and isinstance(st.heap.get(seqv.loc), SymSeq)):
            raise OutOfFragment('all(...) over something that is not a symbolic sequence', node)
        seq = st.heap[seqv.loc]
        var = ge.generators[0].target.id
        call = ge.elt
        if not (isinstance(call, ast.Call) and isinstance(call.func, ast.Attribute) and isinstance(call.func.value, ast.Name)
                and call.func.value.id == var and not call.keywords):
            raise OutOfFragment('all(...) element must be a method call on the loop variable', node)
        meth = call.func.attr
        k_ = fresh('k', I)
        elem_ref = st.alloc(seq.elem(k_))
        # array-valued fields of the element object must be references
        eo = st.heap[elem_ref.loc]
        eo2 = Obj(eo.cls, {f: (st.alloc(v) if isinstance(v, AV) else v) for f, v in eo.fields.items()})
        st.heap[elem_ref.loc] = eo2
        args = [self.pev(a, st) for a in call.args]
        mfile, mcls, mdef = self.find_method(seq.cls, meth)
        callee = self.select_variant(mfile, mcls, meth, [elem_ref] + args, st)
        if callee is None or callee.modifies or callee.modifies_scalar or not callee.ensures:
            raise OutOfFragment('all(...): %s.%s has no pure functional contract' % (seq.cls, meth), node)
        self.used_callees.add(callee.key)
        try:
            e0 = ast.parse(callee.ensures[0], mode='eval').body
        except SyntaxError:
            raise ContractError('bad ensures in %s' % callee.key)
        if isinstance(e0, ast.Call) and isinstance(e0.func, ast.Name) and e0.func.id == 'iff' and isinstance(e0.args[0], ast.Name) and e0.args[0].id == 'result':
            body = e0.args[1]
        elif isinstance(e0, ast.Compare) and isinstance(e0.left, ast.Name) and e0.left.id == 'result' and len(e0.ops) == 1 and isinstance(e0.ops[0], ast.Eq):
            body = e0.comparators[0]
        else:
            raise OutOfFragment('all(...): first ensures of %s is not of the form iff(result, E)' % callee.key, node)
        env = {p: a for (p, _), a in zip(callee.params, [elem_ref] + args)}
        sp = SpecEval(self.lib.theory, env, st.heap, env, st.heap, self.lib.preds)
        rng = z3.And(0 <= k_, k_ < seq.length)
        if callee.requires:
            self.oblige(st, 'call:all.%s.pre' % meth, z3.ForAll([k_], z3.Implies(rng, z3.And(*[sp.ev_bool(r) for r in callee.requires]))), node)
        return z3.ForAll([k_], z3.Implies(rng, as_bool(sp.ev(body))))

    def cplx_of(self, v):
        """a complex scalar as a term of the abstract sort Cplx (Python constants become named constants)"""
        if isinstance(v, PyConst):
            if v.value == 1:
                return z3.Const('cplx_one', CPLX)
            return z3.Const('cplx_const_%s' % repr(complex(v.value)).strip('()').replace('+', 'p').replace('-', 'm').replace('.', '_'), CPLX)
        if is_z3(v) and v.sort() == CPLX:
            return v
        raise OutOfFragment('cannot use %r as a complex coefficient' % (v,))

    def shape_arg(self, v, node):
        if isinstance(v, tuple):
            return tuple(as_num(x) for x in v)
        return (as_num(v),)

    def call_numpy(self, name, n, st):
        kw = {k.arg: k.value for k in n.keywords}
        dtype = 'int'
        if 'dtype' in kw:
            d = ast.unparse(kw['dtype'])
            if d in ('numpy.int_', 'np.int_', 'int', 'numpy.int64'):
                dtype = 'int'
            elif d in ('numpy.complex_', 'np.complex_', 'numpy.complex128', 'complex'):
                dtype = 'cplx'
            elif d in ('numpy.bool_', 'np.bool_', 'bool'):
                dtype = 'bool'
            elif d.endswith('.dtype'):
                dv = self.pev(kw['dtype'], st)
                dtype = dv[1]
            else:
                raise OutOfFragment('dtype %s' % d, n)
        short = name.split('.', 1)[1] if '.' in name else name
        if short == 'logical_and' and len(n.args) == 2 and not n.keywords:
            a_ = self.bool_array(self.pev(n.args[0], st), st, n)
            b_ = self.bool_array(self.pev(n.args[1], st), st, n)
            self.oblige(st, self.site(n, 'shape'), a_.shape[0] == b_.shape[0], n)
            return st.alloc(AV(self.lib.theory.decls['And1'](a_.term, b_.term), a_.shape, 'bool'))
        if short == 'sum' and not n.keywords and len(n.args) in (1, 2):
            av = self.deref(self.pev(n.args[0], st), st)
            if av.elem not in ('int', 'bool'):
                raise OutOfFragment('numpy.sum of a non-integer array', n)
            if len(n.args) == 1 and av.ndim == 1:
                return self.lib.theory.decls['RowSum'](av.term, av.shape[0])
            if len(n.args) == 2 and av.ndim == 2:
                ax = z3.simplify(as_num(self.pev(n.args[1], st)))
                if z3.is_int_value(ax) and ax.as_long() in (-1, 1):
                    return st.alloc(AV(self.lib.theory.decls['RowSums'](av.term, av.shape[1]), (av.shape[0],), 'int'))
            raise OutOfFragment('numpy.sum form', n)
        if short == 'arange' and len(n.args) == 1 and not n.keywords:
            nn = as_num(self.pev(n.args[0], st))
            self.oblige(st, self.site(n, 'alloc'), nn >= 0, n)
            return st.alloc(AV(self.lib.theory.decls['Arange'](nn), (nn,), 'int'))
        if short == 'repeat':
            # numpy.repeat(m, 2) of a 1-D array: the canonical spec term Repeat2(m)
            if len(n.args) != 2 or n.keywords or not (isinstance(n.args[1], ast.Constant) and n.args[1].value == 2):
                raise OutOfFragment('numpy.repeat other than repeat(a, 2)', n)
            av = self.deref(self.pev(n.args[0], st), st)
            if av.ndim != 1:
                raise OutOfFragment('numpy.repeat of a non-1-D array', n)
            return st.alloc(AV(self.lib.theory.decls['Repeat2'](av.term), (2 * av.shape[0],), av.elem))
        if short == 'ones':
            shp = self.shape_arg(self.pev(n.args[0], st), n)
            if dtype == 'int':
                return st.alloc(AV(const_array(len(shp), 'int', z3.IntVal(1)), shp, 'int'))
            one = z3.Const('cplx_one', CPLX)
            return st.alloc(AV(const_array(len(shp), dtype, one), shp, dtype))
        if short in ('zeros', 'empty'):
            if len(n.args) == 2:      # positional dtype
                d = ast.unparse(n.args[1])
                dtype = {'numpy.int_': 'int', 'np.int_': 'int', 'int': 'int'}.get(d)
                if dtype is None:
                    raise OutOfFragment('dtype %s' % d, n)
            shp = self.shape_arg(self.pev(n.args[0], st), n)
            for d in shp:
                self.oblige(st, self.site(n, 'alloc'), d >= 0, n)
            if short == 'zeros':
                zero = {'int': z3.IntVal(0), 'real': z3.RealVal(0), 'bool': z3.IntVal(0)}.get(dtype)
                if zero is None:
                    av = fresh_array('zc', len(shp), dtype, shp)
                else:
                    av = AV(const_array(len(shp), dtype, zero), shp, dtype)
            else:
                av = fresh_array('empty', len(shp), dtype, shp)
            return st.alloc(av)
        if short == 'empty_like':
            src = self.deref(self.pev(n.args[0], st), st)
            return st.alloc(fresh_array('empty', src.ndim, src.elem, src.shape))
        if short == 'flipud' and len(n.args) == 1:
            src = self.deref(self.pev(n.args[0], st), st)
            if src.ndim != 2:
                raise OutOfFragment('flipud of a non-2-D array', n)
            res = fresh('flipud', src.term.sort())
            k_ = fresh('k', I)
            st.pc.append(z3.ForAll([k_], z3.Implies(z3.And(0 <= k_, k_ < src.shape[0]), z3.Select(res, k_) == z3.Select(src.term, src.shape[0] - 1 - k_)),
                                   patterns=[z3.Select(res, k_)]))            # rows in reverse order (numpy returns a view; it is only read here)
            return st.alloc(AV(res, src.shape, src.elem))
        if short == 'eye':
            nn = as_num(self.pev(n.args[0], st))
            i, j = fresh('i', I), fresh('j', I)
            eye = fresh('eye', A2)
            st.pc.append(z3.ForAll([i, j], eye[i][j] == z3.If(i == j, z3.IntVal(1), z3.IntVal(0)), patterns=[eye[i][j]]))
            return st.alloc(AV(eye, (nn, nn)))
        if short == 'expand_dims':
            src = self.deref(self.pev(n.args[0], st), st)
            ax = z3.simplify(as_num(self.pev(n.args[1], st)))
            if src.ndim != 1 or not (z3.is_int_value(ax) and ax.as_long() == 0):
                raise OutOfFragment('expand_dims other than (1-D array, 0)', n)
            return st.alloc(AV(z3.K(I, src.term), (z3.IntVal(1), src.shape[0]), src.elem))     # every row is the string (only row 0 exists)
        if short == 'array' and isinstance(n.args[0], ast.List) and 'dtype' in kw:
            items = [self.pev(e_, st) for e_ in n.args[0].elts]
            vals = [self.cplx_of(x) if dtype == 'cplx' else as_num(x) for x in items]
            term = fresh('lit', arr_sort(1, dtype))
            for k_, v_ in enumerate(vals):
                st.pc.append(z3.Select(term, k_) == v_)
            return st.alloc(AV(term, (z3.IntVal(len(vals)),), dtype))
        if short == 'asarray' and len(n.args) == 1 and not n.keywords:
            v = self.pev(n.args[0], st)
            if isinstance(v, (Ref, View)) and not (isinstance(v, Ref) and not isinstance(st.heap[v.loc], AV)):
                return v
            raise OutOfFragment('numpy.asarray of a non-array', n)
        if short == 'array' and not isinstance(n.args[0], ast.List):
            v = self.pev(n.args[0], st)
            if isinstance(v, (Ref, View, AV)) and not (isinstance(v, Ref) and not isinstance(st.heap[v.loc], AV)):
                av = self.deref(v, st)
                return st.alloc(AV(av.term, av.shape, av.elem))      # numpy.array(a) copies
            raise OutOfFragment('numpy.array(...) of a non-array', n)
        if short == 'array' and isinstance(n.args[0], ast.List) and n.args[0].elts and all(isinstance(e, ast.List) for e in n.args[0].elts) and not n.keywords:
            # 2-D integer literal  numpy.array([[..], [..]])
            rows = [[as_num(self.pev(e, st)) for e in r.elts] for r in n.args[0].elts]
            if len({len(r) for r in rows}) != 1 or not all(z3.is_int(x) for r in rows for x in r):
                raise OutOfFragment('2-D array literal form', n)
            term = fresh('lit2', arr_sort(2, 'int'))
            for i_, r in enumerate(rows):
                for j_, v_ in enumerate(r):
                    st.pc.append(z3.Select(z3.Select(term, i_), j_) == v_)
            return st.alloc(AV(term, (z3.IntVal(len(rows)), z3.IntVal(len(rows[0]))), 'int'))
        if short == 'array':
            if isinstance(n.args[0], ast.List):
                items = [self.pev(e, st) for e in n.args[0].elts]
                if all(is_z3(x) and z3.is_int(x) for x in items):
                    if self.literal_is_index(n):
                        return IdxList(items)
                    term = fresh('lit1', arr_sort(1, 'int'))
                    for k_, v_ in enumerate(items):
                        st.pc.append(z3.Select(term, k_) == v_)
                    return st.alloc(AV(term, (z3.IntVal(len(items)),), 'int'))
            raise OutOfFragment('numpy.array(...) form', n)
        if short == 'reshape':
            # numpy.reshape(a, (L1*L2, -1)) / (L1*L2,) of an array built as a[j1, j2(, c)]: row-major flattening of the first two axes
            src = self.deref(self.pev(n.args[0], st), st)
            shp = self.pev(n.args[1], st)
            shp = shp if isinstance(shp, tuple) else (shp,)
            if src.ndim not in (2, 3) or len(shp) != src.ndim - 1:
                raise OutOfFragment('reshape other than merging the first two axes', n)
            d0, d1 = src.shape[0], src.shape[1]
            want0 = as_num(shp[0])
            self.oblige(st, self.site(n, 'reshape'), want0 == d0 * d1, n)
            tail_shape = tuple(src.shape[2:])
            if src.ndim == 3:
                last = z3.simplify(as_num(shp[1]))
                if not (z3.is_int_value(last) and last.as_long() == -1):
                    self.oblige(st, self.site(n, 'reshape'), as_num(shp[1]) == src.shape[2], n)
                else:
                    # -1 can only be inferred for a non-empty array; for an empty one the column count is unknown
                    cfree = fresh('cols', I)
                    st.pc.append(cfree >= 0)
                    st.pc.append(z3.Implies(d0 * d1 > 0, cfree == src.shape[2]))
                    tail_shape = (cfree,)
            res = fresh('reshaped', arr_sort(src.ndim - 1, src.elem))
            a_, b_ = fresh('a', I), fresh('b', I)
            lhs = z3.Select(res, a_ * d1 + b_)
            rhs = z3.Select(z3.Select(src.term, a_), b_)
            st.pc.append(z3.ForAll([a_, b_], z3.Implies(z3.And(0 <= a_, a_ < d0, 0 <= b_, b_ < d1), lhs == rhs), patterns=[lhs]))
            return st.alloc(AV(res, (d0 * d1,) + tail_shape, src.elem))
        if short == 'random.choice' and len(n.args) == 1 and 'size' in kw and isinstance(n.args[0], ast.Call) \
                and ast.unparse(n.args[0].func) in ('numpy.array', 'np.array') and isinstance(n.args[0].args[0], ast.List):
            # numpy.random.choice(numpy.array([c0, c1, ...]), size=m): every entry an unconstrained one of the listed constants
            consts = [as_num(self.pev(e_, st)) for e_ in n.args[0].args[0].elts]
            m_ = as_num(self.pev(kw['size'], st))
            self.oblige(st, self.site(n, 'alloc'), m_ >= 0, n)
            av = fresh_array('choice', 1, 'int', (m_,))
            k_ = fresh('k', I)
            st.pc.append(z3.ForAll([k_], z3.Or(*[z3.Select(av.term, k_) == c_ for c_ in consts]), patterns=[z3.Select(av.term, k_)]))
            return st.alloc(av)
        if short == 'random.randint':
            args = [self.pev(a, st) for a in n.args]
            if 'size' in kw and len(args) in (1, 2):
                sz = self.pev(kw['size'], st)
                lo_, hi_ = (z3.IntVal(0), as_num(args[0])) if len(args) == 1 else (as_num(args[0]), as_num(args[1]))
                shape = tuple(as_num(x) for x in sz) if isinstance(sz, tuple) else (as_num(sz),)
                if len(shape) not in (1, 2):
                    raise OutOfFragment('randint size', n)
                for d_ in shape:
                    self.oblige(st, self.site(n, 'alloc'), d_ >= 0, n)
                av = fresh_array('rnd', len(shape), 'int', shape)
                ks_ = [fresh('k', I) for _ in shape]
                el_ = av.term
                for k_ in ks_:
                    el_ = z3.Select(el_, k_)
                st.pc.append(z3.ForAll(ks_, z3.And(lo_ <= el_, el_ < hi_), patterns=[el_]))      # every draw an unconstrained value in range
                return st.alloc(av)
            if len(args) == 1:
                lo, hi, size = z3.IntVal(0), as_num(args[0]), None
            elif len(args) == 2:
                lo, hi, size = as_num(args[0]), as_num(args[1]), None
            elif len(args) == 3:
                lo, hi, size = as_num(args[0]), as_num(args[1]), as_num(args[2])
            else:
                raise OutOfFragment('randint arity', n)
            if size is None:
                c = fresh('coin', I)
                st.pc.append(z3.And(lo <= c, c < hi))
                return c
            self.oblige(st, self.site(n, 'alloc'), size >= 0, n)
            av = fresh_array('rnd', 1, 'int', (size,))
            k = fresh('k', I)
            st.pc.append(z3.ForAll([k], z3.And(lo <= av.term[k], av.term[k] < hi)))
            return st.alloc(av)
        raise OutOfFragment('numpy.%s' % short, n)

    def call_method(self, recv, meth, n, st):
        if isinstance(recv, ArrCmp):
            if meth != 'all' or n.args:
                raise OutOfFragment('.%s() on a comparison' % meth, n)
            return self.all_cmp(recv, st, n)
        if meth == 'copy':
            av = self.deref(recv, st)
            return st.alloc(AV(av.term, av.shape, av.elem))
        if meth == 'astype' and len(n.args) == 1 and not n.keywords and ast.unparse(n.args[0]) in ('int', 'numpy.int_', 'np.int_', 'numpy.int64'):
            # a.astype(int): a fresh copy; exact for integer arrays (and for the all-zero / all-one float arrays numpy.zeros / ones give,
            # which this engine already represents with integer entries)
            av = self.deref(recv, st)
            if av.elem in ('int', 'bool'):
                return st.alloc(AV(av.term, av.shape, 'int'))
        raise OutOfFragment('array method .%s' % meth, n)

    def all_cmp(self, cmp_, st, node):
        a, b = cmp_.a, cmp_.b
        av = self.deref(a, st) if isinstance(a, (Ref, View, AV)) else None
        bv = self.deref(b, st) if isinstance(b, (Ref, View, AV)) else None
        ref = av or bv
        if av is not None and bv is not None:
            if av.ndim != bv.ndim:
                raise OutOfFragment('comparison between ranks', node)
            self.oblige(st, self.site(node, 'shape'), z3.And(*[x == y for x, y in zip(av.shape, bv.shape)]), node)
        idx = [fresh('e', I) for _ in ref.shape]
        rng = []
        for k, nmax in zip(idx, ref.shape):
            rng += [0 <= k, k < nmax]

        def at(x, raw):
            if x is None:
                return as_num(raw)
            t = x.term
            for k in idx:
                t = z3.Select(t, k)
            return t
        body = compare(cmp_.op, at(av, a), at(bv, b))
        return z3.ForAll(idx, z3.Implies(z3.And(*rng), body))

    def call_contract(self, fname, args, n, st, ffile=None, callee=None):
        ffile = ffile or self.filekey
        if callee is None:
            callee = self.lib.by_name.get((ffile, fname))
        if callee is None:
            raise OutOfFragment('call to %s which has no contract' % fname, n)
        self.used_callees.add(callee.key)
        ordn = self.call_ord.get(id(n))
        if ordn is None:
            k = self.auto_ord.get(fname, 0)
            self.auto_ord[fname] = k + 1
            ordn = '%s#i%d' % (fname, k)
            self.call_ord[id(n)] = ordn
        site = 'call:%s' % ordn
        params = callee.params
        if len(args) > len(params):
            raise OutOfFragment('too many arguments for %s' % fname, n)
        args = list(args)
        for (p, t) in params[len(args):]:
            if p not in callee.defaults:
                raise OutOfFragment('missing argument %s for %s' % (p, fname), n)
            d = callee.defaults[p]
            args.append(None if d is None else to_z3(d))
        env = {}
        locs = {}        # modifiable location per 'param' or 'param.field'
        for (p, t), a in zip(params, args):
            if isinstance(t, str) and t in TYPE_ARR:
                if isinstance(a, AV):
                    a = st.alloc(a)
                if not isinstance(a, (Ref, View)) or (isinstance(a, Ref) and not isinstance(st.heap[a.loc], AV)):
                    raise OutOfFragment('argument %s of %s must be an array' % (p, fname), n)
                av = self.deref(a, st)
                if av.ndim != TYPE_ARR[t][0]:
                    raise OutOfFragment('rank of argument %s of %s' % (p, fname), n)
                env[p] = a
                if isinstance(a, Ref):
                    locs[p] = a.loc
            elif isinstance(t, dict):
                if not (isinstance(a, Ref) and isinstance(st.heap[a.loc], Obj)):
                    raise OutOfFragment('argument %s of %s must be an object' % (p, fname), n)
                o = st.heap[a.loc]
                if not self.is_subclass(o.cls, t['cls']):
                    raise OutOfFragment('argument %s of %s must be a %s, got %s' % (p, fname, t['cls'], o.cls), n)
                if t.get('exact') and o.cls != t['cls']:
                    raise OutOfFragment('argument %s of %s must be exactly a %s' % (p, fname, t['cls']), n)
                for fld in t['fields']:
                    if fld not in o.fields:
                        raise OutOfFragment('argument %s of %s lacks field %s' % (p, fname, fld), n)
                    fv = o.fields[fld]
                    if isinstance(fv, Ref) and isinstance(st.heap.get(fv.loc), AV):
                        locs['%s.%s' % (p, fld)] = fv.loc
                env[p] = a
            elif t == 'none':
                if a is not None:
                    raise OutOfFragment('argument %s of %s must be None in this contract variant' % (p, fname), n)
                env[p] = None
            else:
                if isinstance(a, (Ref, View, AV, tuple)) or a is None:
                    raise OutOfFragment('argument %s of %s must be a scalar' % (p, fname), n)
                env[p] = to_z3(a)
        heap_pre = dict(st.heap)
        st.snaps = dict(st.snaps)
        st.snaps[site + '.pre'] = (dict(st.env), heap_pre)          # ghost code may refer to at('call:<f>#<k>.pre', e)
        if not self.inline_depth and (site + '.before') in self.c.hints:
            # ghost code just before the call: the evaluated arguments are visible under the callee's parameter names, prefixed `arg_`
            self.apply_hints(st, self.c.hints[site + '.before'], site + '.before', extra={'arg_' + p_: v_ for p_, v_ in env.items()})
        spre = SpecEval(self.lib.theory, env, heap_pre, env, heap_pre, self.lib.preds)
        for k, r in enumerate(callee.requires):
            self.oblige(st, '%s.pre%d' % (site, k), spre.ev_bool(r), n, note=r)
        if callee.key == self.c.key:
            # a recursive call: partial correctness by the function's own contract, termination by its measure
            if callee.decreases is None:
                raise ContractError('recursive call in %s but the contract has no `decreases`' % self.c.key)
            d_here = SpecEval(self.lib.theory, self.entry.env, self.entry.heap, self.entry.env, self.entry.heap, self.lib.preds).ev(callee.decreases)
            d_call = spre.ev(callee.decreases)
            self.oblige(st, '%s.decreases' % site, z3.And(0 <= as_num(d_call), as_num(d_call) < as_num(d_here)), n, note='decreases ' + callee.decreases)
        for p in callee.modifies:
            if p not in locs:
                raise OutOfFragment('%s modifies %s: the argument must be a whole array' % (fname, p), n)
        seen = {}
        for p, l in locs.items():
            if l in seen and (p in callee.modifies or seen[l] in callee.modifies):
                raise OutOfFragment('aliased arguments to %s' % fname, n)
            seen[l] = p
        for p in callee.modifies:
            av = st.heap[locs[p]]
            st.heap[locs[p]] = AV(fresh(p.replace('.', '_') + '_m', av.term.sort()), av.shape, av.elem)
        # scalar fields listed in modifies (e.g. 'self.r') get fresh values
        for p in callee.modifies_scalar:
            base, fld = p.split('.')
            a = env[base]
            o = st.heap[a.loc]
            o2 = Obj(o.cls, o.fields)
            o2.fields[fld] = fresh(fld, to_z3(o.fields[fld]).sort())
            st.heap[a.loc] = o2

        def mk(desc, k):
            if isinstance(desc, str) and desc.startswith('='):
                return env[desc[1:]]
            d = desc.replace(' fresh', '') if isinstance(desc, str) else desc
            return self.fresh_value(st, '%s_r%d' % (fname.replace('.', '_'), k), d)
        if callee.returns is None:
            result = None
        elif isinstance(callee.returns, (tuple, list)):
            result = tuple(mk(d, k) for k, d in enumerate(callee.returns))
        else:
            result = mk(callee.returns, 0)
        if callee.result_term is not None:
            # the callee's contract names a spec term that its result equals on its whole index range (an `ensures` of the callee,
            # proved there); arrays are determined by their in-range content, so the call site uses that very term
            pairs = list(zip(result, callee.result_term)) if isinstance(callee.result_term, (tuple, list)) else [(result, callee.result_term)]
            for res_k, rt_k in pairs:
                if rt_k is None:
                    continue
                if not (isinstance(res_k, Ref) and isinstance(st.heap.get(res_k.loc), AV)):
                    raise ContractError('result_term on a non-array result of %s' % fname)
                rt = spre.ev(rt_k)
                old_av = st.heap[res_k.loc]
                st.heap[res_k.loc] = AV(rt.term if isinstance(rt, AV) else rt, old_av.shape, old_av.elem)
        env_post = dict(env)
        env_post['result'] = result
        spost = SpecEval(self.lib.theory, env_post, st.heap, env, heap_pre, self.lib.preds)
        spost.fresh_locs = st.fresh_locs
        for e in callee.ensures:
            if callee.ghost and any(isinstance(x_, ast.Name) and x_.id in callee.ghost for x_ in ast.walk(ast.parse(e, mode='eval'))):
                continue      # a clause about a local of the callee (a witness): not visible to callers
            ez = spost.ev_bool(e)
            if z3.is_false(z3.simplify(ez)) or z3.is_true(z3.simplify(ez)):
                # a clause that evaluates to a constant at the call site is a pure location predicate (fresh_loc / same_loc): this
                # model keeps in-place locations for `modifies` and allocates results itself, so such clauses carry no information
                # here -- and must never be ASSUMED as False (that would make the rest of the path vacuous)
                continue
            st.pc.append(ez)
        for exc, cond in callee.raises.items():
            st.pc.append(z3.Not(spre.ev_bool(cond)))
        return result


def has_quantifier(e, _seen=None):
    if _seen is None:
        _seen = {}
    i = e.get_id()
    if i in _seen:
        return _seen[i]
    if z3.is_quantifier(e):
        r = True
    else:
        r = any(has_quantifier(c, _seen) for c in e.children())
    _seen[i] = r
    return r


def store_nd(term, idx, val):
    if len(idx) == 1:
        return z3.Store(term, idx[0], val)
    return z3.Store(term, idx[0], store_nd(z3.Select(term, idx[0]), idx[1:], val))


def ast_load(t):
    import copy
    t2 = copy.deepcopy(t)
    for n in ast.walk(t2):
        if hasattr(n, 'ctx'):
            n.ctx = ast.Load()
    return t2


def loop_effects(loop, fv):
    """(names assigned, names whose array is mutated in place) in the loop body, syntactically; fv.loop_field_effects is set to the
    object fields the body may change: {(variable, field or None)} - None = every field of the object (and of its sub-objects)"""
    assigned, mutated = set(), set()
    fields = set()

    def base_name(t):
        while isinstance(t, (ast.Subscript, ast.Attribute)):
            t = t.value
        return t.id if isinstance(t, ast.Name) else None

    def tgt(t):
        if isinstance(t, ast.Name):
            assigned.add(t.id)
        elif isinstance(t, (ast.Tuple, ast.List)):
            for e in t.elts:
                tgt(e)
        elif isinstance(t, (ast.Subscript, ast.Attribute)):
            b = base_name(t)
            if b:
                mutated.add(b)
            # x.f = ... / x.f[...] = ...: the field f of the object x changes
            t2 = t
            while isinstance(t2, ast.Subscript):
                t2 = t2.value
            if isinstance(t2, ast.Attribute) and isinstance(t2.value, ast.Name):
                fields.add((t2.value.id, t2.attr))
            elif isinstance(t2, ast.Attribute) and b:
                fields.add((b, None))
    for node in ast.walk(loop):
        if node is loop:
            continue
        if isinstance(node, ast.Assign):
            for t in node.targets:
                tgt(t)
        elif isinstance(node, ast.AugAssign):
            tgt(node.target)
        elif isinstance(node, (ast.For,)):
            tgt(node.target)
        elif isinstance(node, ast.Call):
            nm = fv.call_name(node)
            # contracts of a function of that name in ANY module of the package (the callee may be imported), all variants
            fcands = [c for k_, c in fv.lib.contracts.items() if k_.split('::')[1].split('#')[0] == nm or k_.split('::')[1].split('#')[0].endswith('.' + nm) and '.' not in nm]
            for callee in fcands:
                if not callee.modifies:
                    continue
                pnames = [p for p, _ in callee.params]
                for p, a in zip(pnames, node.args):
                    if p in callee.modifies:
                        b = base_name(a)
                        if b:
                            mutated.add(b)
                        a2 = a
                        while isinstance(a2, ast.Subscript):
                            a2 = a2.value
                        if isinstance(a2, ast.Attribute) and isinstance(a2.value, ast.Name):
                            fields.add((a2.value.id, a2.attr))          # f(x.fld, ...) with fld modified in place
            if isinstance(node.func, ast.Attribute) and not (isinstance(node.func.value, ast.Name) and node.func.value.id in ('numpy', 'np')):
                # a method call  x.m(a, ...): what it may change is read off the contracts of every method named m (all classes, all
                # variants): their `modifies` / `modifies_scalar` entries, mapped from the callee's parameters to the receiver and the
                # arguments; a method without any contract is inlined and may change every field of the receiver and of its arguments
                meth = node.func.attr
                recv = base_name(node.func.value)
                actual = [recv] + [base_name(a) for a in node.args]
                cands = [c for k_, c in fv.lib.contracts.items() if '.' in k_.split('::')[1] and k_.split('::')[1].split('#')[0].split('.')[-1] == meth]
                pin_ = fv.c.calls.get(fv.call_name(node))
                if pin_ is not None:
                    cands = [c for k_, c in fv.lib.contracts.items() if k_.split('::')[1] == pin_] or cands      # the variant this proof uses at that call
                if meth in ('copy', 'all', 'any', 'astype', 'append', 'items', 'reshape', 'sum', 'dot', 'tolist') and not cands:
                    continue
                if not cands:
                    for b in actual:
                        if b:
                            fields.add((b, None))
                    continue
                for c in cands:
                    pn = [p for p, _ in c.params]
                    for m_ in list(c.modifies) + list(c.modifies_scalar):
                        base_, _, fld_ = m_.partition('.')
                        if base_ in pn and pn.index(base_) < len(actual) and actual[pn.index(base_)]:
                            if fld_:
                                fields.add((actual[pn.index(base_)], fld_.split('.')[0]))
                            else:
                                mutated.add(actual[pn.index(base_)])
    if isinstance(loop, ast.For):
        tgt(loop.target)
    fv.loop_field_effects = fields
    return assigned, mutated


def instantiate_lemma(lib, lem, args):
    """returns (list of requires terms, list of ensures terms) for the given argument values"""
    if len(args) != len(lem.params):
        raise ContractError('arity of lemma %s' % lem.name)
    env = {}
    for (p, t), a in zip(lem.params, args):
        if t in TYPE_ARR and not isinstance(a, AV):
            raise ContractError('lemma %s: argument %s must be an array' % (lem.name, p))
        env[p] = a if isinstance(a, AV) else to_z3(a)
    sp = SpecEval(lib.theory, env, {}, None, None, lib.preds)
    pre = [sp.ev_bool(r) for r in lem.requires]
    post = [sp.ev_bool(e) for e in lem.ensures]
    return pre, post


def lemma_vcs(lib, lem):
    """proof obligations of a ghost lemma (direct, or by induction on one integer parameter)"""
    if lem.axiom:
        return []
    st = State()
    env = {}
    for (p, t) in lem.params:
        if t in TYPE_ARR:
            nd, el = TYPE_ARR[t]
            env[p] = fresh_array(p, nd, el)
            for d in env[p].shape:
                st.pc.append(d >= 0)
        else:
            env[p] = fresh(p, {'int': I, 'bool': B, 'real': R}[t])
    sp = SpecEval(lib.theory, env, {}, None, None, lib.preds)
    pre = [sp.ev_bool(r) for r in lem.requires]
    post = [sp.ev_bool(e) for e in lem.ensures]
    vcs = []
    key = 'lemma::%s' % lem.name

    def use_hints(hyps, hints, env_, tag):
        out = list(hyps)
        for hi_, h in enumerate(hints):
            sp_ = SpecEval(lib.theory, env_, {}, None, None, lib.preds)
            if h[0] == 'lemma':
                other = lib.lemmas[h[1]]
                a = [sp_.ev_str(x) for x in h[2]]
                p_, q_ = instantiate_lemma(lib, other, a)
                if p_:
                    vcs.append(VC('%s::%s.hint%d.%s.pre' % (key, tag, hi_, other.name), out, z3.And(*p_)))
                out += q_
            elif h[0] == 'assert':
                g = sp_.ev_bool(h[1])
                vcs.append(VC('%s::%s.hint%d.assert' % (key, tag, hi_), out, g))
                out.append(g)
            elif h[0] == 'focus':
                # from here on only the quantifier-free hypotheses are used (requires, induction hypothesis, asserted instances):
                # the needed instances of the quantified facts have been extracted by the assertions above
                out = [x for x in out if not has_quantifier(x)]
            elif h[0] == 'lemma?':
                other = lib.lemmas[h[1]]
                a = [sp_.ev_str(x) for x in h[2]]
                p_, q_ = instantiate_lemma(lib, other, a)
                out.append(z3.Implies(z3.And(*p_) if p_ else z3.BoolVal(True), z3.And(*q_)))
            elif h[0] == 'forall_lemma':
                _, binders, name, argexprs = h
                other = lib.lemmas[name]
                kvs, rngs = [], []
                for (k, lo, hi) in binders:
                    lo_v, hi_v = as_num(sp_.ev_str(lo)), as_num(sp_.ev_str(hi))
                    kv = fresh(k, I)
                    sp_.bound[k] = kv
                    kvs.append(kv)
                    rngs += [lo_v <= kv, kv < hi_v]
                a = [sp_.ev_str(x) for x in argexprs]
                p_, q_ = instantiate_lemma(lib, other, a)
                rng = z3.And(*rngs)
                if p_:
                    vcs.append(VC('%s::%s.hint%d.%s.pre' % (key, tag, hi_, other.name), out, z3.ForAll(kvs, z3.Implies(rng, z3.And(*p_)))))
                out.append(z3.ForAll(kvs, z3.Implies(rng, z3.And(*q_))))
            else:
                raise ContractError('hint kind in lemma')
        return out
    if lem.induction is None:
        hyps = use_hints(st.pc + pre, lem.uses, env, 'direct')
        for k, q in enumerate(post):
            vcs.append(VC('%s::post%d' % (key, k), hyps, q, note=lem.ensures[k]))
        return vcs
    n = env[lem.induction]
    # base: n <= 0
    hyps = use_hints(st.pc + pre + [n <= 0], lem.uses, env, 'base')
    for k, q in enumerate(post):
        vcs.append(VC('%s::base.post%d' % (key, k), hyps, q, note=lem.ensures[k]))
    # step: n >= 1, induction hypothesis at n-1 (requires(n-1) => ensures(n-1))
    env2 = dict(env)
    env2[lem.induction] = n - 1
    sp2 = SpecEval(lib.theory, env2, {}, None, None, lib.preds)
    pre2 = [sp2.ev_bool(r) for r in lem.requires]
    post2 = [sp2.ev_bool(e) for e in lem.ensures]
    ih = z3.Implies(z3.And(*pre2) if pre2 else z3.BoolVal(True), z3.And(*post2))
    hyps = use_hints(st.pc + pre + [n >= 1, ih], lem.uses_step or lem.uses, env, 'step')
    for k, q in enumerate(post):
        vcs.append(VC('%s::step.post%d' % (key, k), hyps, q, note=lem.ensures[k]))
    for vc in vcs:
        vc.fuel = lem.fuel
    return vcs
