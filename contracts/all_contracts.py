from . import utils_contracts, class_contracts
CONTRACTS = {}
LEMMAS = {}
PREDS = {}
for m in (utils_contracts, class_contracts):
    CONTRACTS.update(m.CONTRACTS)
    LEMMAS.update(m.LEMMAS)
    PREDS.update(m.PREDS)
