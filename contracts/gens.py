"""Input generators for native contract checking (failing-input search, monitor, bounded stand-ins).

Every generator yields dicts {param: value}.  `requires` is always re-checked natively on what is
generated, so a generator that is too generous only wastes cases; it can never hide a failure by itself.
Generators enumerate small sizes exhaustively first and then sample.
"""
import itertools
import numpy as np

U = 'pyclifford/utils.py::'
GENS = {}


def gen(key):
    def deco(f):
        GENS[key] = f
        return f
    return deco


def bits(rng, *shape):
    return rng.integers(0, 2, size=shape).astype(np.int64)


def all_strings(N):
    for b in itertools.product([0, 1], repeat=2 * N):
        yield np.array(b, dtype=np.int64)


def rand_tableau(rng, N, steps=None):
    """random valid tableau (gs (2N,2N), ps (2N,) in {0,2}) in *state* order: rows i / N+i are partners.
    Built from the identity tableau by random symplectic transvections (our own generator, not pyclifford's)."""
    gs = np.zeros((2 * N, 2 * N), dtype=np.int64)
    for i in range(N):
        gs[i, 2 * i + 1] = 1        # stabilizer Z_i
        gs[N + i, 2 * i] = 1        # destabilizer X_i
    steps = 3 * N + 2 if steps is None else steps
    for _ in range(steps):
        v = bits(rng, 2 * N)
        for j in range(2 * N):
            a = 0
            for k in range(N):
                a += gs[j, 2 * k + 1] * v[2 * k] - gs[j, 2 * k] * v[2 * k + 1]
            if a % 2:
                gs[j] = (gs[j] + v) % 2
    # random row operations that keep the Gram structure: swap partner pairs
    perm = rng.permutation(N)
    gs = np.concatenate([gs[:N][perm], gs[N:][perm]])
    ps = 2 * bits(rng, 2 * N)
    return gs, ps


def state_to_map_order(gs, ps):
    N = gs.shape[0] // 2
    g2 = np.empty_like(gs)
    p2 = np.empty_like(ps)
    for i in range(N):
        g2[2 * i] = gs[N + i]
        g2[2 * i + 1] = gs[i]
        p2[2 * i] = ps[N + i]
        p2[2 * i + 1] = ps[i]
    return g2, p2


def sizes(level):
    return {0: (1, 2), 1: (1, 2, 3), 2: (1, 2, 3, 4)}[min(level, 2)]


@gen(U + 'acq')
@gen(U + 'ipow')
def g_pair(rng, level=0, n_random=200):
    for N in (1, 2) if level == 0 else (1, 2):
        for a in all_strings(N):
            for b in all_strings(N):
                yield {'g1': a, 'g2': b}
    for _ in range(n_random):
        N = int(rng.integers(1, 7))
        yield {'g1': bits(rng, 2 * N), 'g2': bits(rng, 2 * N)}


@gen(U + 'p0')
def g_single(rng, level=0, n_random=100):
    for N in (1, 2, 3):
        for a in all_strings(N):
            yield {'g': a}
    for _ in range(n_random):
        N = int(rng.integers(1, 7))
        yield {'g': bits(rng, 2 * N)}


@gen(U + 'front')
def g_front(rng, level=0, n_random=100):
    for N in (1, 2, 3):
        for a in all_strings(N):
            yield {'g': a}
    for _ in range(n_random):
        N = int(rng.integers(1, 7))
        g = bits(rng, 2 * N)
        g[:2 * int(rng.integers(0, N))] = 0
        yield {'g': g}


@gen(U + 'pauli_is_onsite')
def g_onsite(rng, level=0, n_random=100):
    for N in (1, 2, 3):
        for a in all_strings(N):
            for i0 in range(N):
                yield {'g': a, 'i0': i0}


@gen(U + 'ps0')
@gen(U + 'acq_mat')
def g_list(rng, level=0, n_random=150):
    for N in (1, 2):
        S = list(all_strings(N))
        for a in S:
            for b in S:
                yield {'gs': np.stack([a, b])}
    for _ in range(n_random):
        N = int(rng.integers(1, 5))
        L = int(rng.integers(0, 5))
        yield {'gs': bits(rng, L, 2 * N)}


@gen(U + 'pauli_tokenize')
def g_tok(rng, level=0, n_random=100):
    for N in (1, 2):
        for a in all_strings(N):
            for p in range(4):
                yield {'gs': a[None, :].copy(), 'ps': np.array([p], dtype=np.int64)}
    for _ in range(n_random):
        N = int(rng.integers(1, 5))
        L = int(rng.integers(0, 5))
        yield {'gs': bits(rng, L, 2 * N), 'ps': rng.integers(0, 4, size=L).astype(np.int64)}


@gen(U + 'pauli_combine')
def g_combine(rng, level=0, n_random=300):
    for _ in range(n_random):
        N = int(rng.integers(1, 4))
        Li = int(rng.integers(0, 5))
        Lo = int(rng.integers(0, 4))
        yield {'C': bits(rng, Lo, Li), 'gs_in': bits(rng, Li, 2 * N), 'ps_in': rng.integers(0, 4, size=Li).astype(np.int64)}


@gen(U + 'pauli_transform')
def g_transform(rng, level=0, n_random=300):
    for _ in range(n_random):
        N = int(rng.integers(1, 4))
        L = int(rng.integers(0, 4))
        if rng.integers(0, 2):
            gm, pm = state_to_map_order(*rand_tableau(rng, N))
        else:
            gm, pm = bits(rng, 2 * N, 2 * N), rng.integers(0, 4, size=2 * N).astype(np.int64)
        yield {'gs_in': bits(rng, L, 2 * N), 'ps_in': rng.integers(0, 4, size=L).astype(np.int64), 'gs_map': gm, 'ps_map': pm}


@gen(U + 'clifford_rotate')
def g_rotate(rng, level=0, n_random=200):
    for N in (1, 2):
        S = list(all_strings(N))
        gs = np.array(S)
        for g in S:
            for p in (0, 2):
                yield {'g': g, 'p': p, 'gs': gs.copy(), 'ps': (np.arange(len(S)) % 4).astype(np.int64)}
    for _ in range(n_random):
        N = int(rng.integers(1, 5))
        L = int(rng.integers(0, 5))
        yield {'g': bits(rng, 2 * N), 'p': int(2 * rng.integers(0, 2)), 'gs': bits(rng, L, 2 * N),
               'ps': rng.integers(0, 4, size=L).astype(np.int64)}


@gen(U + 'clifford_rotate_signless')
def g_rotate_s(rng, level=0, n_random=200):
    for a in g_rotate(rng, level, n_random):
        yield {'g': a['g'], 'gs': a['gs']}


@gen(U + 'map_to_state')
@gen(U + 'state_to_map')
def g_map(rng, level=0, n_random=100):
    for _ in range(n_random):
        N = int(rng.integers(1, 5))
        yield {'gs_in': bits(rng, 2 * N, 2 * N), 'ps_in': rng.integers(0, 4, size=2 * N).astype(np.int64)}


# ------------------------------------------------------------------ class layer (objects are built with the real classes)
PA = 'pyclifford/paulialg.py::'
ST = 'pyclifford/stabilizer.py::'


def _pc():
    import pyclifford.paulialg as pa
    import pyclifford.stabilizer as st
    return pa, st


@gen(PA + 'Pauli.__matmul__#Pauli')
def g_matmul(rng, level=0, n_random=200):
    pa, _ = _pc()
    for N in (1, 2):
        for a in all_strings(N):
            for b in all_strings(N):
                for p1 in range(4):
                    yield {'self': pa.Pauli(a.copy(), p1), 'other': pa.Pauli(b.copy(), (3 * p1 + 1) % 4)}
    for _ in range(n_random):
        N = int(rng.integers(1, 5))
        yield {'self': pa.Pauli(bits(rng, 2 * N), int(rng.integers(0, 4))), 'other': pa.Pauli(bits(rng, 2 * N), int(rng.integers(0, 4)))}


@gen(PA + 'Pauli.__neg__')
@gen(PA + 'Pauli.copy')
def g_pauli(rng, level=0, n_random=100):
    pa, _ = _pc()
    for _ in range(n_random):
        N = int(rng.integers(1, 5))
        yield {'self': pa.Pauli(bits(rng, 2 * N), int(rng.integers(0, 4)))}


@gen(PA + 'PauliList.copy')
def g_plist(rng, level=0, n_random=100):
    pa, _ = _pc()
    for _ in range(n_random):
        N = int(rng.integers(1, 4))
        L = int(rng.integers(0, 4))
        yield {'self': pa.PauliList(bits(rng, L, 2 * N), rng.integers(0, 4, L).astype(np.int64))}


@gen(PA + 'PauliList.rotate_by#nomask')
def g_lrot(rng, level=0, n_random=200):
    pa, _ = _pc()
    for a in g_rotate(rng, level, n_random):
        yield {'self': pa.PauliList(a['gs'], a['ps']), 'generator': pa.Pauli(a['g'], a['p']), 'mask': None}


@gen(PA + 'PauliList.transform_by#nomask')
def g_ltr(rng, level=0, n_random=200):
    pa, st = _pc()
    for a in g_transform(rng, level, n_random):
        yield {'self': pa.PauliList(a['gs_in'], a['ps_in']), 'clifford_map': st.CliffordMap(a['gs_map'], a['ps_map']), 'mask': None}


def _rand_map(rng, N):
    _, st = _pc()
    gm, pm = state_to_map_order(*rand_tableau(rng, N))
    return st.CliffordMap(gm, pm)


@gen(ST + 'CliffordMap.copy')
@gen(ST + 'CliffordMap.to_state#none')
def g_cmap(rng, level=0, n_random=100):
    for _ in range(n_random):
        yield {'self': _rand_map(rng, int(rng.integers(1, 4))), 'r': None}


@gen(ST + 'CliffordMap.to_state#r')
def g_cmap_r(rng, level=0, n_random=100):
    for _ in range(n_random):
        N = int(rng.integers(1, 4))
        yield {'self': _rand_map(rng, N), 'r': int(rng.integers(0, N + 1))}


@gen(ST + 'CliffordMap.inverse')
def g_inverse(rng, level=0, n_random=150):
    _, st = _pc()
    for k in range(n_random):
        N = int(rng.integers(1, 4))
        m = _rand_map(rng, N)
        if k % 5 == 4:          # arbitrary (mostly non-symplectic, often singular) tables: the contract is about GF(2) inversion only
            m = st.CliffordMap(bits(rng, 2 * N, 2 * N), 2 * bits(rng, 2 * N))
        yield {'self': m}


@gen(ST + 'CliffordMap.compose')
def g_compose(rng, level=0, n_random=100):
    for _ in range(n_random):
        N = int(rng.integers(1, 4))
        yield {'self': _rand_map(rng, N), 'other': _rand_map(rng, N)}


def _rand_state(rng, N):
    _, st = _pc()
    gs, ps = rand_tableau(rng, N)
    s = st.StabilizerState(gs, ps=ps)
    s.r = int(rng.integers(0, N + 1))
    return s


@gen(ST + 'StabilizerState.copy')
@gen(ST + 'StabilizerState.to_map')
def g_state(rng, level=0, n_random=100):
    for _ in range(n_random):
        yield {'self': _rand_state(rng, int(rng.integers(1, 4)))}


@gen(ST + 'StabilizerState.expect#list')
def g_expect(rng, level=0, n_random=100):
    pa, _ = _pc()
    for _ in range(n_random):
        N = int(rng.integers(1, 4))
        L = int(rng.integers(1, 5))
        yield {'self': _rand_state(rng, N), 'obs': pa.PauliList(bits(rng, L, 2 * N), 2 * bits(rng, L))}


@gen(ST + 'identity_map')
def g_ident(rng, level=0, n_random=6):
    for N in range(0, 6):
        yield {'N': N}


@gen(U + 'stabilizer_expect')
def g_kexpect(rng, level=0, n_random=200):
    for _ in range(n_random):
        N = int(rng.integers(1, 4))
        L = int(rng.integers(1, 5))
        gs, ps = rand_tableau(rng, N)
        yield {'gs_stb': gs, 'ps_stb': ps, 'gs_obs': bits(rng, L, 2 * N), 'ps_obs': 2 * bits(rng, L), 'r': int(rng.integers(0, N + 1))}


def rand_obs(rng, N, L):
    return bits(rng, L, 2 * N), 2 * bits(rng, L)


@gen(U + 'stabilizer_measure')
def g_measure(rng, level=0, n_random=300):
    for _ in range(n_random):
        N = int(rng.integers(1, 4))
        gs, ps = rand_tableau(rng, N)
        og, op = rand_obs(rng, N, int(rng.integers(1, 4)))
        if rng.integers(0, 3) == 0:       # an observable that is already +- a stabilizer / a tableau row
            og[0] = gs[int(rng.integers(0, 2 * N))]
        yield {'gs_stb': gs, 'ps_stb': ps, 'gs_obs': og, 'ps_obs': op, 'r': int(rng.integers(0, N + 1))}


@gen(U + 'stabilizer_project')
def g_project(rng, level=0, n_random=300):
    for a in g_measure(rng, level, n_random):
        yield {'gs_stb': a['gs_stb'], 'gs_obs': a['gs_obs'], 'r': a['r']}


@gen(U + 'stabilizer_postselection')
def g_postsel(rng, level=0, n_random=300):
    for _ in range(n_random):
        N = int(rng.integers(1, 4))
        gs, ps = rand_tableau(rng, N)
        ob = bits(rng, 2 * N)
        if rng.integers(0, 3) == 0:
            ob = gs[int(rng.integers(0, N))].copy()
        yield {'gs_stb': gs, 'ps_stb': ps, 'gs_ob': ob, 'ps_ob': int(2 * rng.integers(0, 2))}


@gen(U + 'stabilizer_projection_trace')
def g_ptrace(rng, level=0, n_random=300):
    for a in g_measure(rng, level, n_random):
        yield a


@gen(ST + 'StabilizerState.measure#list')
def g_smeasure(rng, level=0, n_random=150):
    pa, _ = _pc()
    for a in g_measure(rng, level, n_random):
        _, st = _pc()
        s = st.StabilizerState(a['gs_stb'], ps=a['ps_stb'])
        s.r = a['r']
        yield {'self': s, 'obs': pa.PauliList(a['gs_obs'], a['ps_obs'])}


@gen(ST + 'StabilizerState.postselect')
def g_spostselect(rng, level=0, n_random=200):
    pa, st = _pc()
    for a in g_postsel(rng, level, n_random):
        s = st.StabilizerState(a['gs_stb'], ps=a['ps_stb'])
        s.r = 0 if rng.integers(0, 8) else 1
        yield {'self': s, 'paulistring': pa.Pauli(a['gs_ob'], a['ps_ob']), 'postselect_res': int(rng.integers(0, 2))}


@gen('pyclifford/circuit.py::MeasureLayer.forward')
def g_mlayer(rng, level=0, n_random=150):
    import pyclifford.circuit as ci
    for _ in range(n_random):
        N = int(rng.integers(1, 4))
        q = tuple(rng.choice(N, size=int(rng.integers(1, N + 1)), replace=False).tolist())
        yield {'self': ci.MeasureLayer(*q, N=N), 'obj': _rand_state(rng, N)}


@gen(ST + 'StabilizerState.expect#state')
def g_sexpect_state(rng, level=0, n_random=150):
    for _ in range(n_random):
        N = int(rng.integers(1, 4))
        a = _rand_state(rng, N)
        a.r = 0
        yield {'self': a, 'obs': _rand_state(rng, N)}


@gen(U + 'pauli_diagonalize1')
def g_diag1(rng, level=0, n_random=100):
    for N in (1, 2, 3):
        for a in all_strings(N):
            for i0 in range(N):
                yield {'g1': a, 'i0': i0}
    for _ in range(n_random):
        N = int(rng.integers(1, 6))
        yield {'g1': bits(rng, 2 * N), 'i0': int(rng.integers(0, N))}


@gen(U + 'random_pair')
def g_rpair(rng, level=0, n_random=200):
    for k in range(n_random):
        yield {'N': 1 + k % 4}


def _mk_rmul(cval, klass):
    def g(rng, level=0, n_random=60):
        pa, _ = _pc()
        for _ in range(n_random):
            N = int(rng.integers(1, 4))
            if klass == 'Pauli':
                yield {'self': pa.Pauli(bits(rng, 2 * N), int(rng.integers(0, 4))), 'c': cval}
            else:
                L = int(rng.integers(0, 4))
                yield {'self': pa.PauliList(bits(rng, L, 2 * N), rng.integers(0, 4, L).astype(np.int64)), 'c': cval}
    return g


for _tag, _c in (('1', 1), ('i', 1j), ('m1', -1), ('mi', -1j)):
    GENS[PA + 'Pauli.__rmul__#' + _tag] = _mk_rmul(_c, 'Pauli')
    GENS[PA + 'PauliList.__rmul__#' + _tag] = _mk_rmul(_c, 'PauliList')


@gen(PA + 'PauliList.__neg__')
def g_lneg(rng, level=0, n_random=60):
    for a in _mk_rmul(1, 'PauliList')(rng, level, n_random):
        yield {'self': a['self']}


@gen(PA + 'PauliList.rotate_by#state')
def g_rot_state(rng, level=0, n_random=150):
    pa, _ = _pc()
    for _ in range(n_random):
        N = int(rng.integers(1, 4))
        yield {'self': _rand_state(rng, N), 'generator': pa.Pauli(bits(rng, 2 * N), int(2 * rng.integers(0, 2))), 'mask': None}


@gen(U + 'batch_dot')
def g_bdot(rng, level=0, n_random=150):
    for _ in range(n_random):
        N = int(rng.integers(1, 4))
        L1, L2 = int(rng.integers(0, 4)), int(rng.integers(0, 4))
        yield {'gs1': bits(rng, L1, 2 * N), 'ps1': rng.integers(0, 4, L1).astype(np.int64), 'cs1': (rng.normal(size=L1) + 1j * rng.normal(size=L1)),
               'gs2': bits(rng, L2, 2 * N), 'ps2': rng.integers(0, 4, L2).astype(np.int64), 'cs2': (rng.normal(size=L2) + 1j * rng.normal(size=L2))}


@gen(PA + 'PauliPolynomial.__matmul__#poly')
def g_polymul(rng, level=0, n_random=100):
    pa, _ = _pc()
    for a in g_bdot(rng, level, n_random):
        yield {'self': pa.PauliPolynomial(a['gs1'], a['ps1']).set_cs(a['cs1']), 'other': pa.PauliPolynomial(a['gs2'], a['ps2']).set_cs(a['cs2'])}


@gen(PA + 'Pauli.__matmul__#Monomial')
def g_matmul_mono(rng, level=0, n_random=150):
    pa, _ = _pc()
    for _ in range(n_random):
        N = int(rng.integers(1, 4))
        m = pa.PauliMonomial(bits(rng, 2 * N), int(rng.integers(0, 4))).set_c(complex(rng.normal(), rng.normal()))
        yield {'self': pa.Pauli(bits(rng, 2 * N), int(rng.integers(0, 4))), 'other': m}

CI = 'pyclifford/circuit.py::'


def _gate_gen(rng, N):
    import pyclifford.circuit as ci
    pa, _ = _pc()
    g = ci.CliffordGate(*range(N))
    g.generator = pa.Pauli(bits(rng, 2 * N), int(2 * rng.integers(0, 2)))
    return g


@gen(CI + 'CliffordGate.forward#generator_global')
@gen(CI + 'CliffordGate.backward#generator_global')
def g_gate_gen(rng, level=0, n_random=120):
    pa, _ = _pc()
    for _ in range(n_random):
        N = int(rng.integers(1, 4))
        L = int(rng.integers(0, 4))
        yield {'self': _gate_gen(rng, N), 'obj': pa.PauliList(bits(rng, L, 2 * N), rng.integers(0, 4, L).astype(np.int64))}


@gen(CI + 'CliffordGate.forward#map_global')
def g_gate_map(rng, level=0, n_random=120):
    import pyclifford.circuit as ci
    pa, _ = _pc()
    for _ in range(n_random):
        N = int(rng.integers(1, 4))
        L = int(rng.integers(0, 4))
        g = ci.CliffordGate(*range(N))
        g.forward_map = _rand_map(rng, N)
        yield {'self': g, 'obj': pa.PauliList(bits(rng, L, 2 * N), rng.integers(0, 4, L).astype(np.int64))}


@gen(PA + 'PauliList.transform_by#state')
def g_tr_state(rng, level=0, n_random=120):
    for _ in range(n_random):
        N = int(rng.integers(1, 4))
        yield {'self': _rand_state(rng, N), 'clifford_map': _rand_map(rng, N), 'mask': None}


@gen(CI + 'CliffordGate.forward#generator_global_state')
@gen(CI + 'CliffordGate.backward#generator_global_state')
def g_gate_gen_state(rng, level=0, n_random=100):
    for _ in range(n_random):
        N = int(rng.integers(1, 4))
        yield {'self': _gate_gen(rng, N), 'obj': _rand_state(rng, N)}


@gen(CI + 'CliffordGate.forward#map_global_state')
def g_gate_map_state(rng, level=0, n_random=100):
    import pyclifford.circuit as ci
    for _ in range(n_random):
        N = int(rng.integers(1, 4))
        g = ci.CliffordGate(*range(N))
        g.forward_map = _rand_map(rng, N)
        yield {'self': g, 'obj': _rand_state(rng, N)}


@gen(U + 'z2inv')
def g_z2inv(rng, level=0, n_random=300):
    # all 1x1 and 2x2 binary matrices (singular ones raise ValueError: allowed), then random ones -- half of them made
    # invertible by construction (products of elementary row operations applied to a permutation matrix)
    for n in (1, 2):
        for b in itertools.product([0, 1], repeat=n * n):
            yield {'mat': np.array(b, dtype=np.int64).reshape(n, n)}
    for k in range(n_random):
        n = int(rng.integers(1, 7))
        if k % 2:
            yield {'mat': bits(rng, n, n)}
            continue
        m = np.eye(n, dtype=np.int64)[rng.permutation(n)]
        for _ in range(3 * n):
            i, j = rng.integers(0, n, 2)
            if i != j:
                m[i] = (m[i] + m[j]) % 2
        yield {'mat': m}


@gen(U + 'z2rank')
def g_z2rank(rng, level=0, n_random=400):
    # all binary matrices up to 2x3 / 3x2, then random shapes up to 6x6 (including empty ones), sparse and dense
    for nr, nc in ((1, 1), (1, 2), (2, 1), (2, 2), (2, 3), (3, 2)):
        for b in itertools.product([0, 1], repeat=nr * nc):
            yield {'mat': np.array(b, dtype=np.int64).reshape(nr, nc)}
    for k in range(n_random):
        nr, nc = int(rng.integers(0, 7)), int(rng.integers(0, 7))
        m = bits(rng, nr, nc)
        if k % 3 == 0 and nr and nc:
            m = m * bits(rng, nr, nc)        # sparser: more missing pivots
        yield {'mat': m}


def _rand_mask(rng, N, k):
    """boolean vector over N qubits with exactly n >= 1 selected; k cycles through all small masks first"""
    if N <= 3:
        masks = [m for m in itertools.product([False, True], repeat=N) if any(m)]
        return np.array(masks[k % len(masks)], dtype=bool)
    m = np.zeros(N, dtype=bool)
    m[rng.choice(N, size=int(rng.integers(1, N + 1)), replace=False)] = True
    return m


@gen(PA + 'PauliList.rotate_by#mask')
def g_lrot_mask(rng, level=0, n_random=250):
    pa, _ = _pc()
    for k in range(n_random):
        N = 1 + k % 5
        mask = _rand_mask(rng, N, k // 5)
        n = int(mask.sum())
        L = int(rng.integers(0, 5))
        yield {'self': pa.PauliList(bits(rng, L, 2 * N), rng.integers(0, 4, L).astype(np.int64)),
               'generator': pa.Pauli(bits(rng, 2 * n), int(2 * rng.integers(0, 2))), 'mask': mask}


@gen(PA + 'PauliList.transform_by#mask')
def g_ltr_mask(rng, level=0, n_random=250):
    pa, st = _pc()
    for k in range(n_random):
        N = 1 + k % 4
        mask = _rand_mask(rng, N, k // 4)
        n = int(mask.sum())
        L = int(rng.integers(0, 5))
        yield {'self': pa.PauliList(bits(rng, L, 2 * N), rng.integers(0, 4, L).astype(np.int64)),
               'clifford_map': _rand_map(rng, n), 'mask': mask}


@gen(U + 'mask')
def g_mask(rng, level=0, n_random=200):
    # all non-empty ascending qubit tuples for N <= 4, then random tuples (any order, repeats allowed) up to N = 8
    for N in range(1, 5):
        for n in range(1, N + 1):
            for q in itertools.combinations(range(N), n):
                yield {'qubits': q, 'N': N}
    for _ in range(n_random):
        N = int(rng.integers(1, 9))
        yield {'qubits': tuple(int(x) for x in rng.integers(0, N, int(rng.integers(1, 5)))), 'N': N}


def _local_qubits(rng, N):
    n = int(rng.integers(1, N))
    return tuple(sorted(int(x) for x in rng.choice(N, size=n, replace=False)))


@gen(CI + 'CliffordGate.forward#generator_local')
@gen(CI + 'CliffordGate.backward#generator_local')
def g_gate_gen_local(rng, level=0, n_random=200):
    import pyclifford.circuit as ci
    pa, _ = _pc()
    for _ in range(n_random):
        N = int(rng.integers(2, 6))
        q = _local_qubits(rng, N)
        g = ci.CliffordGate(*q)
        g.generator = pa.Pauli(bits(rng, 2 * len(q)), int(rng.integers(0, 4)))
        L = int(rng.integers(0, 5))
        yield {'self': g, 'obj': pa.PauliList(bits(rng, L, 2 * N), rng.integers(0, 4, L).astype(np.int64))}


@gen(CI + 'CliffordGate.forward#map_local')
@gen(CI + 'CliffordGate.backward#map_local')
def g_gate_map_local(rng, level=0, n_random=200):
    import pyclifford.circuit as ci
    pa, _ = _pc()
    for _ in range(n_random):
        N = int(rng.integers(2, 5))
        q = _local_qubits(rng, N)
        g = ci.CliffordGate(*q)
        g.forward_map = _rand_map(rng, len(q))
        L = int(rng.integers(0, 5))
        yield {'self': g, 'obj': pa.PauliList(bits(rng, L, 2 * N), rng.integers(0, 4, L).astype(np.int64))}


@gen(ST + 'clifford_rotation_map')
def g_rotmap(rng, level=0, n_random=150):
    pa, _ = _pc()
    for N in (1, 2):
        for a in all_strings(N):
            for p in range(4):
                yield {'gen': pa.Pauli(a, p)}
    for _ in range(n_random):
        N = int(rng.integers(1, 6))
        yield {'gen': pa.Pauli(bits(rng, 2 * N), int(rng.integers(0, 4)))}


@gen(ST + 'zero_state')
@gen(ST + 'one_state')
@gen(ST + 'maximally_mixed_state')
def g_nstate(rng, level=0, n_random=8):
    for N in range(0, n_random):
        yield {'N': N}


@gen(PA + 'PauliList.rotate_by#mask_state')
def g_rot_mask_state(rng, level=0, n_random=200):
    pa, _ = _pc()
    for k in range(n_random):
        N = 1 + k % 4
        mask = _rand_mask(rng, N, k // 4)
        n = int(mask.sum())
        yield {'self': _rand_state(rng, N), 'generator': pa.Pauli(bits(rng, 2 * n), int(2 * rng.integers(0, 2))), 'mask': mask}


@gen(CI + 'CliffordGate.forward#generator_local_state')
@gen(CI + 'CliffordGate.backward#generator_local_state')
def g_gate_gen_local_state(rng, level=0, n_random=150):
    import pyclifford.circuit as ci
    pa, _ = _pc()
    for _ in range(n_random):
        N = int(rng.integers(2, 5))
        q = _local_qubits(rng, N)
        g = ci.CliffordGate(*q)
        g.generator = pa.Pauli(bits(rng, 2 * len(q)), int(2 * rng.integers(0, 2)))
        yield {'self': g, 'obj': _rand_state(rng, N)}


@gen(PA + 'PauliList.transform_by#mask_state')
def g_tr_mask_state(rng, level=0, n_random=200):
    for k in range(n_random):
        N = 1 + k % 4
        mask = _rand_mask(rng, N, k // 4)
        yield {'self': _rand_state(rng, N), 'clifford_map': _rand_map(rng, int(mask.sum())), 'mask': mask}


@gen(CI + 'CliffordGate.forward#map_local_state')
def g_gate_map_local_state(rng, level=0, n_random=150):
    import pyclifford.circuit as ci
    for _ in range(n_random):
        N = int(rng.integers(2, 5))
        q = _local_qubits(rng, N)
        g = ci.CliffordGate(*q)
        g.forward_map = _rand_map(rng, len(q))
        yield {'self': g, 'obj': _rand_state(rng, N)}


@gen(U + 'stabilizer_entropy')
def g_entropy(rng, level=0, n_random=300):
    # active stabilizers of random states of every rank, all regions for N <= 3, random regions beyond
    for k in range(n_random):
        N = 1 + k % 5
        gs, ps = rand_tableau(rng, N)
        r = int(rng.integers(0, N + 1))
        if N <= 3:
            regs = list(itertools.product([False, True], repeat=N))
            m = np.array(regs[(k // 5) % len(regs)], dtype=bool)
        else:
            m = rng.integers(0, 2, N).astype(bool)
        yield {'gs': gs[r:N].copy(), 'mask': m}


@gen(ST + 'StabilizerState.entropy#mask')
def g_sentropy_mask(rng, level=0, n_random=200):
    for k in range(n_random):
        N = 1 + k % 4
        st = _rand_state(rng, N)
        yield {'self': st, 'subsys': _rand_mask(rng, N, k // 4)}


@gen(ST + 'StabilizerState.entropy#qubits')
def g_sentropy_qubits(rng, level=0, n_random=200):
    for k in range(n_random):
        N = 1 + k % 4
        st = _rand_state(rng, N)
        m = _rand_mask(rng, N, k // 4)
        yield {'self': st, 'subsys': np.flatnonzero(m).astype(np.int64)}


@gen(PA + 'Pauli.rotate_by#nomask')
def g_prot(rng, level=0, n_random=200):
    pa, _ = _pc()
    for _ in range(n_random):
        N = int(rng.integers(1, 5))
        yield {'self': pa.Pauli(bits(rng, 2 * N), int(rng.integers(0, 4))), 'generator': pa.Pauli(bits(rng, 2 * N), int(rng.integers(0, 4))), 'mask': None}


@gen(PA + 'Pauli.transform_by#nomask')
def g_ptr(rng, level=0, n_random=200):
    pa, _ = _pc()
    for _ in range(n_random):
        N = int(rng.integers(1, 4))
        yield {'self': pa.Pauli(bits(rng, 2 * N), int(rng.integers(0, 4))), 'clifford_map': _rand_map(rng, N), 'mask': None}


@gen(U + 'random_pauli')
def g_rpauli(rng, level=0, n_random=120):
    for k in range(n_random):
        yield {'N': k % 6}


@gen(ST + 'random_pauli_map')
def g_rpmap(rng, level=0, n_random=60):
    for k in range(n_random):
        yield {'N': k % 6}


@gen(U + 'condense')
def g_condense(rng, level=0, n_random=150):
    for N in (1, 2):
        for a in all_strings(N):
            yield {'g': a}
    for _ in range(n_random):
        N = int(rng.integers(1, 7))
        g = bits(rng, 2 * N)
        for k in range(N):
            if rng.integers(0, 2):
                g[2 * k:2 * k + 2] = 0
        yield {'g': g}


@gen(CI + 'clifford_rotation_gate#noqubits')
def g_rotgate(rng, level=0, n_random=150):
    pa, _ = _pc()
    for a in g_condense(rng, level, n_random):
        if a['g'].any():
            yield {'generator': pa.Pauli(a['g'], int(rng.integers(0, 4))), 'qubits': None}


@gen(U + 'pauli_diagonalize2')
def g_diag2(rng, level=0, n_random=250):
    # all anticommuting pairs for N <= 2 and every target qubit, then random pairs up to N = 5
    for N in (1, 2):
        S = list(all_strings(N))
        for a in S:
            for b_ in S:
                for i0 in range(N):
                    yield {'g1': a, 'g2': b_, 'i0': i0}
    for _ in range(n_random):
        N = int(rng.integers(1, 6))
        a, b_ = bits(rng, 2 * N), bits(rng, 2 * N)
        yield {'g1': a, 'g2': b_, 'i0': int(rng.integers(0, N))}


@gen(CI + 'CliffordGate.compile#generator')
def g_gate_compile(rng, level=0, n_random=120):
    for _ in range(n_random):
        N = int(rng.integers(1, 5))
        yield {'self': _gate_gen(rng, N)}


@gen(PA + 'PauliList.__getitem__#int')
def g_getitem_int(rng, level=0, n_random=120):
    pa, _ = _pc()
    for _ in range(n_random):
        N = int(rng.integers(1, 4))
        L = int(rng.integers(1, 5))
        yield {'self': pa.PauliList(bits(rng, L, 2 * N), rng.integers(0, 4, L).astype(np.int64)), 'item': int(rng.integers(0, L))}


@gen(ST + 'StabilizerState.measure#state')
def g_smeasure_state(rng, level=0, n_random=120):
    for _ in range(n_random):
        N = int(rng.integers(1, 4))
        yield {'self': _rand_state(rng, N), 'obs': _rand_state(rng, N)}


@gen(ST + 'StabilizerState.get_prob')
def g_getprob(rng, level=0, n_random=120):
    for _ in range(n_random):
        N = int(rng.integers(1, 4))
        st = _rand_state(rng, N)
        st.r = 0
        yield {'self': st, 'readout': bits(rng, N)}


def _rand_poly(rng, N, L):
    pa, _ = _pc()
    p = pa.PauliPolynomial(bits(rng, L, 2 * N), rng.integers(0, 4, L).astype(np.int64))
    p.cs = (rng.normal(size=L) + 1j * rng.normal(size=L)).astype(np.complex128)
    return p


@gen(PA + 'PauliPolynomial.__neg__')
@gen(PA + 'PauliPolynomial.copy')
def g_poly1(rng, level=0, n_random=100):
    for _ in range(n_random):
        yield {'self': _rand_poly(rng, int(rng.integers(1, 4)), int(rng.integers(0, 5)))}


@gen(PA + 'PauliPolynomial.__rmul__')
def g_poly_rmul(rng, level=0, n_random=100):
    for _ in range(n_random):
        yield {'self': _rand_poly(rng, int(rng.integers(1, 4)), int(rng.integers(0, 5))), 'c': complex(rng.normal(), rng.normal())}


@gen(CI + 'CliffordGate.independent_from')
def g_indep(rng, level=0, n_random=200):
    import pyclifford.circuit as ci
    tuples = [q for n in range(1, 4) for q in itertools.combinations(range(4), n)]
    for q1 in tuples:
        for q2 in tuples:
            yield {'self': ci.CliffordGate(*q1), 'other_gate': ci.CliffordGate(*q2)}
    for _ in range(n_random):
        N = int(rng.integers(2, 9))
        q1 = tuple(int(x) for x in rng.choice(N, size=int(rng.integers(1, min(N, 4) + 1)), replace=False))
        q2 = tuple(int(x) for x in rng.choice(N, size=int(rng.integers(1, min(N, 4) + 1)), replace=False))
        yield {'self': ci.CliffordGate(*q1), 'other_gate': ci.CliffordGate(*q2)}


@gen(CI + 'MeasureLayer.obs_gs_ps')
def g_obs_gs_ps(rng, level=0, n_random=120):
    import pyclifford.circuit as ci
    for _ in range(n_random):
        N = int(rng.integers(1, 6))
        q = tuple(int(x) for x in rng.choice(N, size=int(rng.integers(1, N + 1)), replace=False))
        yield {'self': ci.MeasureLayer(*q, N=N)}


@gen(ST + 'CliffordMap.embed')
def g_embed(rng, level=0, n_random=150):
    for k in range(n_random):
        N = 1 + k % 4
        mask = _rand_mask(rng, N, k // 4)
        yield {'self': _rand_map(rng, N), 'small_map': _rand_map(rng, int(mask.sum())), 'mask': mask}


@gen(CI + 'CliffordLayer.independent_from')
def g_layer_indep(rng, level=0, n_random=250):
    import pyclifford.circuit as ci
    for _ in range(n_random):
        N = int(rng.integers(2, 8))
        perm = [int(x) for x in rng.permutation(N)]
        gates, pos = [], 0
        while pos < N and rng.integers(0, 4) > 0:
            n = int(rng.integers(1, min(3, N - pos) + 1))
            gates.append(ci.CliffordGate(*sorted(perm[pos:pos + n])))
            pos += n
        q = tuple(sorted(int(x) for x in rng.choice(N, size=int(rng.integers(1, min(N, 3) + 1)), replace=False)))
        yield {'self': ci.CliffordLayer(*gates), 'other_gate': ci.CliffordGate(*q)}


def _rand_mono(rng, N):
    pa, _ = _pc()
    m = pa.PauliMonomial(bits(rng, 2 * N), int(rng.integers(0, 4)))
    m.c = complex(rng.normal(), rng.normal())
    return m


@gen(PA + 'PauliMonomial.__neg__')
@gen(PA + 'PauliMonomial.copy')
@gen(PA + 'PauliMonomial.as_polynomial')
def g_mono1(rng, level=0, n_random=100):
    for _ in range(n_random):
        yield {'self': _rand_mono(rng, int(rng.integers(1, 4)))}


@gen(PA + 'PauliMonomial.__rmul__')
def g_mono_rmul(rng, level=0, n_random=100):
    for _ in range(n_random):
        yield {'self': _rand_mono(rng, int(rng.integers(1, 4))), 'c': complex(rng.normal(), rng.normal())}


def _g_named1(rng, level=0, n_random=12):
    for q in range(n_random):
        yield {'qubits': (q,)}


for _nm in ('H', 'S', 'X', 'Y', 'Z'):
    GENS[CI + _nm + '#1'] = _g_named1


@gen(CI + 'CNOT#2')
def g_cnot(rng, level=0, n_random=40):
    for a in range(5):
        for b_ in range(5):
            if a != b_:
                yield {'qubits': (a, b_)}


def _descriptions(rng, n_random):
    """symbol sequences as lists of (kind, code): operator symbols 0..3, sign symbols 4..7, the letter i (8), junk (9)"""
    import itertools
    for n in range(0, 4):
        for seq in itertools.product(range(6), repeat=n):
            yield list(seq)
    for _ in range(n_random):
        n = int(rng.integers(0, 9))
        yield [int(x) for x in rng.integers(0, 10, size=n)]


@gen(PA + 'pauli#codes')
def g_parse_codes(rng, level=0, n_random=300):
    for seq in _descriptions(rng, n_random):
        # codes 8 / 9 stand for integers outside 0..7 (ignored prefix symbols)
        yield {'obj': np.array([c if c < 8 else (11 if c == 8 else -3) for c in seq], dtype=np.int64), 'N': None}


_LETTER = {0: 'I', 1: 'X', 2: 'Y', 3: 'Z', 4: '+', 5: '-', 6: 'i', 7: 'i', 8: 'i', 9: 'q'}


@gen(PA + 'pauli#chars')
def g_parse_chars(rng, level=0, n_random=300):
    for seq in _descriptions(rng, n_random):
        yield {'obj': [_LETTER[c] for c in seq], 'N': None}


@gen(PA + 'pauli#str')
def g_parse_str(rng, level=0, n_random=300):
    for pre in ('', '+', '-', 'i', '-i', '+i'):
        for N in range(0, 3):
            import itertools
            for body in itertools.product('IXYZ', repeat=N):
                yield {'obj': pre + ''.join(body), 'N': None}
    for seq in _descriptions(rng, n_random):
        yield {'obj': ''.join(_LETTER[c] for c in seq), 'N': None}


def _plist(rng):
    pa, _ = _pc()
    N = int(rng.integers(1, 4))
    L = int(rng.integers(0, 6))
    return pa.PauliList(bits(rng, L, 2 * N), rng.integers(0, 4, L).astype(np.int64)), L


@gen(PA + 'PauliList.__getitem__#mask')
def g_getitem_mask(rng, level=0, n_random=150):
    for _ in range(n_random):
        pl, L = _plist(rng)
        yield {'self': pl, 'item': rng.integers(0, 2, L).astype(bool)}


@gen(PA + 'PauliList.__getitem__#slice')
def g_getitem_slice(rng, level=0, n_random=150):
    for _ in range(n_random):
        pl, L = _plist(rng)
        a, b = sorted(int(x) for x in rng.integers(0, L + 1, 2))
        yield {'self': pl, 'item': slice(a, b)}


@gen(PA + 'PauliList.__getitem__#index')
def g_getitem_index(rng, level=0, n_random=150):
    for _ in range(n_random):
        pl, L = _plist(rng)
        if L == 0:
            yield {'self': pl, 'item': np.zeros(0, dtype=np.int64)}
            continue
        yield {'self': pl, 'item': rng.integers(0, L, int(rng.integers(0, 7))).astype(np.int64)}


@gen(U + 'random_clifford.random_clifford_')
def g_random_clifford_rec(rng, level=0, n_random=60):
    for k in range(n_random):
        n = 1 + k % 4
        yield {'gs': np.zeros((2 * n, 2 * n), dtype=np.int64)}
    yield {'gs': np.ones((2, 2), dtype=np.int64)}          # not a zero matrix: the requires filter it


@gen(U + 'random_clifford')
def g_random_clifford(rng, level=0, n_random=60):
    for k in range(n_random):
        yield {'N': 1 + k % 5}


@gen(ST + 'random_clifford_map')
def g_rcm(rng, level=0, n_random=60):
    for k in range(n_random):
        yield {'N': 1 + k % 5}


def _g_rstate(with_r, lo):
    def g(rng, level=0, n_random=60):
        for k in range(n_random):
            N = lo + k % 5
            yield {'N': N, 'r': int(rng.integers(0, N + 1)) if with_r else None}
    return g


gen(ST + 'random_clifford_state#none')(_g_rstate(False, 1))
gen(ST + 'random_clifford_state#r')(_g_rstate(True, 1))
gen(ST + 'random_pauli_state#none')(_g_rstate(False, 0))
gen(ST + 'random_pauli_state#r')(_g_rstate(True, 0))


@gen(CI + 'CliffordGate.forward#random_global_state')
def g_gate_rnd_global(rng, level=0, n_random=60):
    import pyclifford.circuit as ci
    for _ in range(n_random):
        N = int(rng.integers(1, 4))
        yield {'self': ci.CliffordGate(*range(N)), 'obj': _rand_state(rng, N)}


@gen(CI + 'CliffordGate.forward#random_local_state')
def g_gate_rnd_local(rng, level=0, n_random=80):
    import pyclifford.circuit as ci
    for _ in range(n_random):
        N = int(rng.integers(2, 5))
        yield {'self': ci.CliffordGate(*_local_qubits(rng, N)), 'obj': _rand_state(rng, N)}


@gen(CI + 'CliffordGate.backward#random_state')
def g_gate_rnd_back(rng, level=0, n_random=80):
    import pyclifford.circuit as ci
    for k in range(n_random):
        N = int(rng.integers(1, 5))
        q = tuple(range(N)) if (k % 3 == 0 or N == 1) else _local_qubits(rng, N)
        yield {'self': ci.CliffordGate(*q), 'obj': _rand_state(rng, N)}


for _k in ('Pauli.as_list', 'Pauli.as_monomial', 'Pauli.as_polynomial', 'Pauli.tokenize'):
    gen(PA + _k)(g_pauli)
gen(PA + 'PauliList.as_polynomial')(g_plist)


def _mlayer_case(rng):
    import pyclifford.circuit as ci
    N = int(rng.integers(1, 5))
    q = tuple(int(x) for x in rng.choice(N, size=int(rng.integers(1, N + 1)), replace=False))
    st = _rand_state(rng, N)
    st.r = 0
    return ci.MeasureLayer(*q, N=N), st, q


@gen(CI + 'MeasureLayer.backward#record')
def g_mlayer_back(rng, level=0, n_random=150):
    for k in range(n_random):
        ml, st, q = _mlayer_case(rng)
        L = len(q) if k % 7 else len(q) + 1           # sometimes a record of the wrong length (must raise ValueError: allowed)
        yield {'self': ml, 'obj': st, 'measure_result': [int(x) for x in rng.choice([1, -1], size=L)]}


@gen(CI + 'MeasureLayer.backward#own')
def g_mlayer_back_own(rng, level=0, n_random=150):
    for k in range(n_random):
        ml, st, q = _mlayer_case(rng)
        if k % 3 == 0:
            ml.forward(st.copy())                      # a record the layer made itself
        else:
            ml.result = np.array([int(x) for x in rng.choice([1, -1], size=len(q))])
        yield {'self': ml, 'obj': st, 'measure_result': None}


@gen(CI + 'CliffordGate.copy#generator')
def g_gate_copy_gen(rng, level=0, n_random=80):
    import pyclifford.circuit as ci
    pa, _ = _pc()
    for _ in range(n_random):
        N = int(rng.integers(2, 5))
        q = _local_qubits(rng, N)
        g = ci.CliffordGate(*q)
        g.generator = pa.Pauli(bits(rng, 2 * len(q)), int(rng.integers(0, 4)))
        yield {'self': g}


@gen(CI + 'CliffordGate.copy#maps')
def g_gate_copy_maps(rng, level=0, n_random=80):
    import pyclifford.circuit as ci
    for _ in range(n_random):
        N = int(rng.integers(2, 5))
        q = _local_qubits(rng, N)
        g = ci.CliffordGate(*q)
        g.forward_map = _rand_map(rng, len(q))
        g.backward_map = g.forward_map.inverse()
        yield {'self': g}


@gen(ST + 'StabilizerState.sample')
def g_sample(rng, level=0, n_random=100):
    for _ in range(n_random):
        N = int(rng.integers(1, 5))
        yield {'self': _rand_state(rng, N), 'L': int(rng.integers(0, 6))}


def _any_gate(rng, N, direction):
    """a well-formed gate of a random kind on a random qubit tuple of an N-qubit register (generator / map / both maps / resampled)"""
    import pyclifford.circuit as ci
    pa, _ = _pc()
    if N == 1 or rng.integers(0, 4) == 0:
        q = tuple(range(N))
    else:
        q = _local_qubits(rng, N)
    g = ci.CliffordGate(*q)
    kind = int(rng.integers(0, 4))
    if kind == 0:
        g.generator = pa.Pauli(bits(rng, 2 * len(q)), int(rng.choice([0, 2])))
        if rng.integers(0, 2):
            g.forward_map = _rand_map(rng, len(q))          # ignored: the generator comes first
    elif kind == 1:
        m = _rand_map(rng, len(q))
        if direction == 'forward':
            g.forward_map = m
        else:
            g.backward_map = m
    elif kind == 2:
        g.forward_map = _rand_map(rng, len(q))
        g.backward_map = g.forward_map.inverse()
    return g


def _g_any_gate(direction):
    def g(rng, level=0, n_random=120):
        for _ in range(n_random):
            N = int(rng.integers(1, 5))
            yield {'self': _any_gate(rng, N, direction), 'obj': _rand_state(rng, N)}
    return g


def _g_any_layer(direction):
    def g(rng, level=0, n_random=100):
        import pyclifford.circuit as ci
        for k in range(n_random):
            N = int(rng.integers(1, 5))
            layer = ci.CliffordLayer(*[_any_gate(rng, N, direction) for _ in range(int(rng.integers(0, 4)))])
            if k % 4 == 0:
                m = _rand_map(rng, N)
                if direction == 'forward':
                    layer.forward_map = m
                else:
                    layer.backward_map = m
            yield {'self': layer, 'obj': _rand_state(rng, N)}
    return g


gen(CI + 'CliffordGate.forward#any_state')(_g_any_gate('forward'))
gen(CI + 'CliffordGate.backward#any_state')(_g_any_gate('backward'))
gen(CI + 'CliffordLayer.forward#state')(_g_any_layer('forward'))
gen(CI + 'CliffordLayer.backward#state')(_g_any_layer('backward'))


@gen(PA + 'PauliPolynomial.__getitem__#int')
def g_pgi_int(rng, level=0, n_random=100):
    for _ in range(n_random):
        L = int(rng.integers(1, 5))
        yield {'self': _rand_poly(rng, int(rng.integers(1, 4)), L), 'item': int(rng.integers(0, L))}


@gen(PA + 'PauliPolynomial.__getitem__#slice')
def g_pgi_slice(rng, level=0, n_random=100):
    for _ in range(n_random):
        L = int(rng.integers(0, 5))
        a, b = sorted(int(x) for x in rng.integers(0, L + 1, 2))
        yield {'self': _rand_poly(rng, int(rng.integers(1, 4)), L), 'item': slice(a, b)}


@gen(PA + 'PauliPolynomial.__getitem__#mask')
def g_pgi_mask(rng, level=0, n_random=100):
    for _ in range(n_random):
        L = int(rng.integers(0, 5))
        yield {'self': _rand_poly(rng, int(rng.integers(1, 4)), L), 'item': rng.integers(0, 2, L).astype(bool)}


@gen(PA + 'PauliPolynomial.__getitem__#index')
def g_pgi_index(rng, level=0, n_random=100):
    for _ in range(n_random):
        L = int(rng.integers(1, 5))
        yield {'self': _rand_poly(rng, int(rng.integers(1, 4)), L), 'item': rng.integers(0, L, int(rng.integers(0, 6))).astype(np.int64)}


@gen(ST + 'stabilizer_state#list')
def g_stabilizer_state_list(rng, level=0, n_random=150):
    pa, _ = _pc()
    for k in range(n_random):
        N = int(rng.integers(1, 5))
        gs, ps = rand_tableau(rng, N)
        L = int(rng.integers(1, N + 1))
        rows = rng.permutation(N)[:L]
        g = gs[rows].copy()
        p = (2 * rng.integers(0, 2, L)).astype(np.int64)
        if k % 5 == 1 and L >= 2:
            g[1] = g[0]                                  # dependent generators: the sign assignment cannot be made (ValueError allowed)
        if k % 5 == 2:
            g[0] = gs[N + rows[0]]                       # possibly anticommuting with another one
        if k % 7 == 3:
            g[0] = 0                                     # the identity string among the generators
        yield {'stabilizers': (pa.PauliList(g, p),)}


@gen(ST + 'random_bit_state_gs_ps')
@gen(ST + 'random_bit_state')
def g_random_bit(rng, level=0, n_random=40):
    for k in range(n_random):
        yield {'N': k % 6}


@gen(CI + 'CliffordGate.compile#forward_only')
def g_compile_fwd(rng, level=0, n_random=60):
    import pyclifford.circuit as ci
    for _ in range(n_random):
        n_ = int(rng.integers(1, 4))
        g = ci.CliffordGate(*range(n_))
        g.forward_map = _rand_map(rng, n_)
        yield {'self': g}


@gen(CI + 'CliffordGate.compile#backward_only')
def g_compile_bwd(rng, level=0, n_random=60):
    import pyclifford.circuit as ci
    for _ in range(n_random):
        n_ = int(rng.integers(1, 4))
        g = ci.CliffordGate(*range(n_))
        g.backward_map = _rand_map(rng, n_)
        yield {'self': g}


@gen(CI + 'CliffordGate.compile#any')
def g_compile_any(rng, level=0, n_random=120):
    import pyclifford.circuit as ci
    for k in range(n_random):
        if k % 6 == 0:
            yield {'self': ci.CliffordGate(*range(int(rng.integers(1, 4))))}        # nothing set: must raise Exception
        else:
            yield {'self': _any_gate(rng, int(rng.integers(1, 4)), 'forward' if k % 2 else 'backward')}


@gen(CI + 'CliffordGate.copy#any')
def g_copy_any(rng, level=0, n_random=100):
    for k in range(n_random):
        yield {'self': _any_gate(rng, int(rng.integers(1, 5)), 'forward' if k % 2 else 'backward')}
