"""Sidecar contracts for pyclifford/utils.py (kernel layer).  Keys: '<file>::<function>'.

Each contract: params (name, type) in the order of the real signature, requires, ensures, modifies,
returns (type descriptors; '=p' = the very array passed as p), loops {ordinal: {var, invariant, hints_*}}.
Top-level postconditions come from the property statements (oracle spec functions of spec_pauli.py),
helper invariants from the code.
"""
U = 'pyclifford/utils.py::'
CONTRACTS = {}
LEMMAS = {}
PREDS = {
    # entries 0/1 on the first n positions
    'bits': (('a', 'n'), 'forall(k, 0, n, 0 <= a[k] <= 1)'),
    'bits1': (('a',), 'forall(k, 0, len(a), 0 <= a[k] <= 1)'),
    'bits2': (('a',), 'forall(j, 0, rows(a), forall(k, 0, cols(a), 0 <= a[j][k] <= 1))'),
    'phase': (('p',), '0 <= p <= 3'),
    'herm': (('p',), 'p == 0 or p == 2'),
    'phases1': (('ps',), 'forall(k, 0, len(ps), 0 <= ps[k] <= 3)'),
    'herms1': (('ps',), 'forall(k, 0, len(ps), ps[k] == 0 or ps[k] == 2)'),
}

# ------------------------------------------------------------------ C01: acq / ipow / p0
CONTRACTS[U + 'acq'] = dict(
    params=[('g1', 'int1'), ('g2', 'int1')],
    requires=['len(g1) == len(g2)'],
    ensures=['result == AcqSum(g1, g2, len(g1) // 2) % 2',
             'implies(bits1(g1) and bits1(g2), result == AntiCount(g1, g2, len(g1) // 2) % 2)'],
    modifies=[], returns='int',
    loops={0: dict(var='i', invariant=['acq == AcqSum(g1, g2, i)'])},
    hints={'return': [('lemma?', 'acq_is_anticount', ['g1', 'g2', 'len(g1) // 2'])]},
)
LEMMAS['acq_is_anticount'] = dict(
    doc='the code-shaped symplectic sum has the parity of the number of anticommuting one-qubit factors (oracle table)',
    params=[('a', 'int1'), ('b', 'int1'), ('n', 'int')],
    requires=['bits(a, 2 * n)', 'bits(b, 2 * n)'],
    ensures=['(AcqSum(a, b, n) - AntiCount(a, b, n)) % 2 == 0'],
    induction='n',
)

CONTRACTS[U + 'ipow'] = dict(
    params=[('g1', 'int1'), ('g2', 'int1')],
    requires=['len(g1) == len(g2)', 'bits1(g1)', 'bits1(g2)'],
    ensures=['result == IpowSum(g1, g2, len(g1) // 2) % 4', '0 <= result <= 3'],
    modifies=[], returns='int',
    loops={0: dict(var='i', invariant=['(ipow - IpowSum(g1, g2, i)) % 4 == 0'])},
)

CONTRACTS[U + 'p0'] = dict(
    params=[('g', 'int1')],
    requires=[],
    ensures=['result == XZSum(g, len(g) // 2) % 4'],
    modifies=[], returns='int',
    loops={0: dict(var='i', invariant=['p0 == XZSum(g, i)'])},
)

CONTRACTS[U + 'ps0'] = dict(
    params=[('gs', 'int2')],
    requires=[],
    ensures=['len(result) == rows(gs)',
             'forall(j, 0, rows(gs), result[j] == XZSum(gs[j], cols(gs) // 2) % 4)'],
    modifies=[], returns='int1 fresh',
    loops={0: dict(var='j', invariant=['len(ps0) == L',
                                       'forall(j2, 0, j, ps0[j2] == XZSum(gs[j2], N))',
                                       'forall(j2, j, L, ps0[j2] == 0)']),
           1: dict(var='i', invariant=['len(ps0) == L', '0 <= j < L',
                                       'forall(j2, 0, j, ps0[j2] == XZSum(gs[j2], N))',
                                       'ps0[j] == XZSum(gs[j], i)',
                                       'forall(j2, j + 1, L, ps0[j2] == 0)'])},
)

CONTRACTS[U + 'acq_mat'] = dict(
    params=[('gs', 'int2')],
    requires=[],
    ensures=['rows(result) == rows(gs)', 'cols(result) == rows(gs)',
             'forall(a, 0, rows(gs), forall(b, 0, rows(gs), result[a][b] == AcqSum(gs[a], gs[b], cols(gs) // 2) % 2))'],
    result_term='AcqMat(gs, rows(gs), cols(gs) // 2)',
    modifies=[], returns='int2 fresh',
    loops={0: dict(var='j1', invariant=['rows(mat) == L', 'cols(mat) == L',
                                        'forall(a, 0, j1, forall(b, 0, L, mat[a][b] == AcqSum(gs[a], gs[b], N)))',
                                        'forall(a, j1, L, forall(b, 0, L, mat[a][b] == 0))']),
           1: dict(var='j2', invariant=['rows(mat) == L', 'cols(mat) == L', '0 <= j1 < L',
                                        'forall(a, 0, j1, forall(b, 0, L, mat[a][b] == AcqSum(gs[a], gs[b], N)))',
                                        'forall(b, 0, j2, mat[j1][b] == AcqSum(gs[j1], gs[b], N))',
                                        'forall(b, j2, L, mat[j1][b] == 0)',
                                        'forall(a, j1 + 1, L, forall(b, 0, L, mat[a][b] == 0))']),
           2: dict(var='i', invariant=['rows(mat) == L', 'cols(mat) == L', '0 <= j1 < L', '0 <= j2 < L',
                                       'forall(a, 0, j1, forall(b, 0, L, mat[a][b] == AcqSum(gs[a], gs[b], N)))',
                                       'forall(b, 0, j2, mat[j1][b] == AcqSum(gs[j1], gs[b], N))',
                                       'mat[j1][j2] == AcqSum(gs[j1], gs[j2], i)',
                                       'forall(b, j2 + 1, L, mat[j1][b] == 0)',
                                       'forall(a, j1 + 1, L, forall(b, 0, L, mat[a][b] == 0))'])},
)

# ------------------------------------------------------------------ C20: tokens
CONTRACTS[U + 'pauli_tokenize'] = dict(
    params=[('gs', 'int2'), ('ps', 'int1')],
    requires=['len(ps) == rows(gs)', 'cols(gs) % 2 == 0', 'bits2(gs)', 'phases1(ps)'],
    ensures=['rows(result) == rows(gs)', 'cols(result) == cols(gs) // 2 + 1',
             'forall(j, 0, rows(gs), forall(i, 0, cols(gs) // 2, result[j][i] == TOKEN(gs[j][2 * i], gs[j][2 * i + 1])))',
             'forall(j, 0, rows(gs), result[j][cols(gs) // 2] == PHASE_TOKEN(ps[j]))'],
    modifies=[], returns='int2 fresh',
    loops={0: dict(var='j', invariant=['rows(ts) == L', 'cols(ts) == N + 1',
                                       'forall(a, 0, j, forall(b, 0, N, ts[a][b] == TOKEN(gs[a][2 * b], gs[a][2 * b + 1])))',
                                       'forall(a, 0, j, ts[a][N] == PHASE_TOKEN(ps[a]))']),
           1: dict(var='i', invariant=['rows(ts) == L', 'cols(ts) == N + 1', '0 <= j < L',
                                       'forall(a, 0, j, forall(b, 0, N, ts[a][b] == TOKEN(gs[a][2 * b], gs[a][2 * b + 1])))',
                                       'forall(a, 0, j, ts[a][N] == PHASE_TOKEN(ps[a]))',
                                       'forall(b, 0, i, ts[j][b] == TOKEN(gs[j][2 * b], gs[j][2 * b + 1]))'])},
)

# ------------------------------------------------------------------ C03: combine / transform
LEMMAS['ipowsum_ext'] = dict(
    doc='frame lemma: IpowSum(a, b, n) only reads a[0 .. 2n)',
    params=[('a', 'int1'), ('a2', 'int1'), ('b', 'int1'), ('n', 'int')],
    requires=['forall(k, 0, 2 * n, a[k] == a2[k])'],
    ensures=['IpowSum(a, b, n) == IpowSum(a2, b, n)'],
    induction='n',
)
LEMMAS['acqsum_ext'] = dict(
    doc='frame lemma: AcqSum(a, b, n) only reads a[0 .. 2n)',
    params=[('a', 'int1'), ('a2', 'int1'), ('b', 'int1'), ('n', 'int')],
    requires=['forall(k, 0, 2 * n, a[k] == a2[k])'],
    ensures=['AcqSum(a, b, n) == AcqSum(a2, b, n)', 'AcqSum(b, a, n) == AcqSum(b, a2, n)'],
    induction='n',
)

_combine_shape = ['rows(gs_out) == L_out', 'cols(gs_out) == N2', 'len(ps_out) == L_out']
CONTRACTS[U + 'pauli_combine'] = dict(
    params=[('C', 'int2'), ('gs_in', 'int2'), ('ps_in', 'int1')],
    requires=['cols(C) == rows(gs_in)', 'len(ps_in) == rows(gs_in)', 'bits2(gs_in)'],
    ensures=['rows(result[0]) == rows(C)', 'cols(result[0]) == cols(gs_in)', 'len(result[1]) == rows(C)',
             'forall(j, 0, rows(C), forall(c, 0, cols(gs_in), result[0][j][c] == OrdG(C[j], gs_in, rows(gs_in), c)))',
             'forall(j, 0, rows(C), result[1][j] == OrdP(C[j], gs_in, ps_in, rows(gs_in), cols(gs_in) // 2))',
             'bits2(result[0])'],
    modifies=[], returns=('int2 fresh', 'int1 fresh'),
    loops={0: dict(var='j_out', invariant=_combine_shape + [
               'forall(j, 0, j_out, forall(c, 0, N2, gs_out[j][c] == OrdG(C[j], gs_in, L_in, c)))',
               'forall(j, 0, j_out, ps_out[j] == OrdP(C[j], gs_in, ps_in, L_in, N2 // 2))',
               'forall(j, 0, j_out, bits(gs_out[j], N2))',
               'forall(j, j_out, L_out, forall(c, 0, N2, gs_out[j][c] == 0))',
               'forall(j, j_out, L_out, ps_out[j] == 0)']),
           1: dict(var='j_in', invariant=_combine_shape + ['0 <= j_out < L_out',
               'forall(j, 0, j_out, forall(c, 0, N2, gs_out[j][c] == OrdG(C[j], gs_in, L_in, c)))',
               'forall(j, 0, j_out, ps_out[j] == OrdP(C[j], gs_in, ps_in, L_in, N2 // 2))',
               'forall(j, 0, j_out, bits(gs_out[j], N2))',
               'forall(c, 0, N2, gs_out[j_out][c] == OrdG(C[j_out], gs_in, j_in, c))',
               'ps_out[j_out] == OrdP(C[j_out], gs_in, ps_in, j_in, N2 // 2)',
               'bits(gs_out[j_out], N2)',
               'forall(j, j_out + 1, L_out, forall(c, 0, N2, gs_out[j][c] == 0))',
               'forall(j, j_out + 1, L_out, ps_out[j] == 0)'],
               hints_head=[('lemma', 'ipowsum_ext', ['gs_out[j_out]', 'OrdGRow(C[j_out], gs_in, j_in)', 'gs_in[j_in]', 'N2 // 2'])])},
)

CONTRACTS[U + 'pauli_transform'] = dict(
    params=[('gs_in', 'int2'), ('ps_in', 'int1'), ('gs_map', 'int2'), ('ps_map', 'int1')],
    requires=['cols(gs_in) == rows(gs_map)', 'len(ps_map) == rows(gs_map)', 'len(ps_in) == rows(gs_in)', 'bits2(gs_map)'],
    ensures=['rows(result[0]) == rows(gs_in)', 'cols(result[0]) == cols(gs_map)', 'len(result[1]) == rows(gs_in)',
             'forall(j, 0, rows(gs_in), forall(c, 0, cols(gs_map), result[0][j][c] == OrdG(gs_in[j], gs_map, rows(gs_map), c)))',
             'forall(j, 0, rows(gs_in), result[1][j] == (ps_in[j] + XZSum(gs_in[j], cols(gs_in) // 2) % 4 + OrdP(gs_in[j], gs_map, ps_map, rows(gs_map), cols(gs_map) // 2)) % 4)',
             'bits2(result[0])'],
    modifies=[], returns=('int2 fresh', 'int1 fresh'),
)

# ------------------------------------------------------------------ C02: rotation
_rot_row = ('implies(AcqSum(g, old(gs)[j], cols(gs) // 2) % 2 == 1, '
            'forall(c, 0, cols(gs), gs[j][c] == (old(gs)[j][c] + g[c]) % 2) and '
            'ps[j] == (old(ps)[j] + p + 1 + IpowSum(old(gs)[j], g, cols(gs) // 2)) % 4) and '
            'implies(AcqSum(g, old(gs)[j], cols(gs) // 2) % 2 == 0, '
            'forall(c, 0, cols(gs), gs[j][c] == old(gs)[j][c]) and ps[j] == old(ps)[j])')
CONTRACTS[U + 'clifford_rotate'] = dict(
    params=[('g', 'int1'), ('p', 'int'), ('gs', 'int2'), ('ps', 'int1')],
    requires=['len(g) == cols(gs)', 'len(ps) == rows(gs)', 'bits1(g)', 'bits2(gs)'],
    ensures=['forall(j, 0, rows(gs), %s)' % _rot_row, 'bits2(gs)',
             # the same statement with rows as whole arrays (Xor is the string part of the product)
             'forall(j, 0, rows(gs), same(gs[j], Xor(old(gs)[j], g)) if AcqSum(g, old(gs)[j], cols(gs) // 2) % 2 == 1 else same(gs[j], old(gs)[j]))'],
    modifies=['gs', 'ps'], returns=('=gs', '=ps'),
    loops={0: dict(var='j', invariant=['forall(jj, 0, j, same(gs[jj], Xor(old(gs)[jj], g)) if AcqSum(g, old(gs)[jj], cols(gs) // 2) % 2 == 1 else same(gs[jj], old(gs)[jj]))',
                                       'forall(jj, 0, j, %s)' % _rot_row.replace('[j]', '[jj]'),
                                       'forall(jj, j, L, same(gs[jj], old(gs)[jj]) and ps[jj] == old(ps)[jj])',
                                       'bits2(gs)'])},
)
_rots_row = ('implies(AcqSum(g, old(gs)[j], cols(gs) // 2) % 2 == 1, forall(c, 0, cols(gs), gs[j][c] == (old(gs)[j][c] + g[c]) % 2)) and '
             'implies(AcqSum(g, old(gs)[j], cols(gs) // 2) % 2 == 0, forall(c, 0, cols(gs), gs[j][c] == old(gs)[j][c]))')
CONTRACTS[U + 'clifford_rotate_signless'] = dict(
    params=[('g', 'int1'), ('gs', 'int2')],
    requires=['len(g) == cols(gs)'],
    ensures=['forall(j, 0, rows(gs), %s)' % _rots_row,
             # the same statement with rows as whole arrays (for callers that reason about commutation of whole rows)
             'forall(j, 0, rows(gs), same(gs[j], Xor(old(gs)[j], g)) if AcqSum(g, old(gs)[j], cols(gs) // 2) % 2 == 1 else same(gs[j], old(gs)[j]))',
             'implies(bits1(g) and bits2(old(gs)), bits2(gs))'],
    modifies=['gs'], returns='=gs',
    loops={0: dict(var='j', invariant=['forall(jj, 0, j, %s)' % _rots_row.replace('[j]', '[jj]'),
                                       'forall(jj, 0, j, same(gs[jj], Xor(old(gs)[jj], g)) if AcqSum(g, old(gs)[jj], cols(gs) // 2) % 2 == 1 else same(gs[jj], old(gs)[jj]))',
                                       'forall(jj, j, L, same(gs[jj], old(gs)[jj]))',
                                       'implies(bits1(g) and bits2(old(gs)), bits2(gs))'])},
)

# ------------------------------------------------------------------ C12: map <-> state
CONTRACTS[U + 'map_to_state'] = dict(
    params=[('gs_in', 'int2'), ('ps_in', 'int1')],
    requires=['rows(gs_in) == cols(gs_in)', 'cols(gs_in) % 2 == 0', 'len(ps_in) == rows(gs_in)'],
    ensures=['rows(result[0]) == rows(gs_in)', 'cols(result[0]) == cols(gs_in)', 'len(result[1]) == len(ps_in)',
             # Z-images (map rows 2i+1) are the stabilizers (rows i), X-images (rows 2i) the destabilizers (rows N+i)
             'forall(i, 0, rows(gs_in) // 2, forall(c, 0, cols(gs_in), result[0][i][c] == gs_in[2 * i + 1][c] and result[0][rows(gs_in) // 2 + i][c] == gs_in[2 * i][c]))',
             'forall(i, 0, rows(gs_in) // 2, result[1][i] == ps_in[2 * i + 1] and result[1][rows(gs_in) // 2 + i] == ps_in[2 * i])'],
    modifies=[], returns=('int2 fresh', 'int1 fresh'),
    loops={0: dict(var='i', invariant=['rows(gs_out) == L', 'cols(gs_out) == N2', 'len(ps_out) == L',
                                       'forall(k, 0, i, forall(c, 0, N2, gs_out[k][c] == gs_in[2 * k + 1][c] and gs_out[N + k][c] == gs_in[2 * k][c]))',
                                       'forall(k, 0, i, ps_out[k] == ps_in[2 * k + 1] and ps_out[N + k] == ps_in[2 * k])'])},
)
CONTRACTS[U + 'state_to_map'] = dict(
    params=[('gs_in', 'int2'), ('ps_in', 'int1')],
    requires=['rows(gs_in) == cols(gs_in)', 'cols(gs_in) % 2 == 0', 'len(ps_in) == rows(gs_in)'],
    ensures=['rows(result[0]) == rows(gs_in)', 'cols(result[0]) == cols(gs_in)', 'len(result[1]) == len(ps_in)',
             'forall(i, 0, rows(gs_in) // 2, forall(c, 0, cols(gs_in), result[0][2 * i + 1][c] == gs_in[i][c] and result[0][2 * i][c] == gs_in[rows(gs_in) // 2 + i][c]))',
             'forall(i, 0, rows(gs_in) // 2, result[1][2 * i + 1] == ps_in[i] and result[1][2 * i] == ps_in[rows(gs_in) // 2 + i])'],
    modifies=[], returns=('int2 fresh', 'int1 fresh'),
    loops={0: dict(var='i', invariant=['rows(gs_out) == L', 'cols(gs_out) == N2', 'len(ps_out) == L',
                                       'forall(k, 0, i, forall(c, 0, N2, gs_out[2 * k + 1][c] == gs_in[k][c] and gs_out[2 * k][c] == gs_in[N + k][c]))',
                                       'forall(k, 0, i, ps_out[2 * k + 1] == ps_in[k] and ps_out[2 * k] == ps_in[N + k])'])},
)

# ------------------------------------------------------------------ C18 helpers
CONTRACTS[U + 'front'] = dict(
    params=[('g', 'int1')],
    requires=['len(g) >= 2'],
    ensures=['0 <= result < len(g) // 2',
             'forall(k, 0, result, g[2 * k] == 0 and g[2 * k + 1] == 0)',
             'g[2 * result] != 0 or g[2 * result + 1] != 0 or result == len(g) // 2 - 1'],
    modifies=[], returns='int',
    loops={0: dict(var='i', invariant=['forall(k, 0, i, g[2 * k] == 0 and g[2 * k + 1] == 0)'])},
)
CONTRACTS[U + 'pauli_is_onsite'] = dict(
    params=[('g', 'int1'), ('i0', 'int')],
    defaults={'i0': 0},
    requires=[],
    ensures=['iff(result, forall(k, 0, len(g) // 2, k == i0 or (g[2 * k] == 0 and g[2 * k + 1] == 0)))'],
    modifies=[], returns='bool',
    loops={0: dict(var='i', invariant=['out', 'forall(k, 0, i, k == i0 or (g[2 * k] == 0 and g[2 * k + 1] == 0))'])},
)

# ------------------------------------------------------------------ C07: expectation kernel
PREDS['no_anti'] = (('gs', 'obs', 'n', 'N'), 'forall(i, 0, n, AcqSum(gs[i], obs, N) % 2 == 0)')
PREDS['expect_val'] = (('x', 'gs', 'ps', 'obs', 'pobs', 'r', 'N'),
    # 0 iff some stabilizer / standby row (index < N + r) anticommutes with the observable; otherwise the sign is that of
    # the ordered product of the active stabilizers selected by the anticommuting active destabilizers
    ['implies(not no_anti(gs, obs, N + r, N), x == 0)',
     'implies(no_anti(gs, obs, N + r, N), x == (-1) ** (((OrdP(DestabSel(gs, obs, r, N), gs, ps, N, N) - pobs) % 4) // 2))'])
_exp_shapes = ['len(xs) == L', 'len(ga) == 2 * N']
CONTRACTS[U + 'stabilizer_expect'] = dict(
    params=[('gs_stb', 'int2'), ('ps_stb', 'int1'), ('gs_obs', 'int2'), ('ps_obs', 'int1'), ('r', 'int')],
    requires=['cols(gs_obs) % 2 == 0', 'rows(gs_stb) == cols(gs_obs)', 'cols(gs_stb) == cols(gs_obs)',
              'len(ps_stb) == rows(gs_stb)', 'len(ps_obs) == rows(gs_obs)', '0 <= r <= cols(gs_obs) // 2',
              'bits2(gs_stb)', 'bits2(gs_obs)',
              'herms1(ps_obs)'],      # observables are Hermitian (the integer kernel cannot return +-i)
    ensures=['len(result) == rows(gs_obs)',
             'forall(k, 0, rows(gs_obs), expect_val(result[k], gs_stb, ps_stb, gs_obs[k], ps_obs[k], r, cols(gs_obs) // 2))'],
    modifies=[], returns='int1 fresh',
    loops={0: dict(var='k', invariant=_exp_shapes + [
               'forall(kk, 0, k, expect_val(xs[kk], gs_stb, ps_stb, gs_obs[kk], ps_obs[kk], r, N))']),
           1: dict(var='j', invariant=_exp_shapes + ['0 <= k < L', 'trivial',
               'forall(kk, 0, k, expect_val(xs[kk], gs_stb, ps_stb, gs_obs[kk], ps_obs[kk], r, N))',
               'no_anti(gs_stb, gs_obs[k], min(j, N + r), N)',
               'pa == OrdP(DestabSel(gs_stb, gs_obs[k], r, N), gs_stb, ps_stb, j - N, N)',
               'forall(c, 0, 2 * N, ga[c] == OrdG(DestabSel(gs_stb, gs_obs[k], r, N), gs_stb, j - N, c))',
               'bits(ga, 2 * N)'],
               hints_head=[('lemma?', 'ipowsum_ext', ['ga', 'OrdGRow(DestabSel(gs_stb, gs_obs[k], r, N), gs_stb, j - N)', 'gs_stb[j - N]', 'N'])])},
)

# ------------------------------------------------------------------ symplectic-form lemmas (C05 / C06 / C14)
LEMMAS['acq_bilinear'] = dict(
    doc='the symplectic form is bilinear mod 2 in either argument',
    params=[('a', 'int1'), ('b', 'int1'), ('c', 'int1'), ('n', 'int')],
    requires=['bits(a, 2 * n)', 'bits(b, 2 * n)', 'bits(c, 2 * n)'],
    ensures=['(AcqSum(Xor(a, b), c, n) - AcqSum(a, c, n) - AcqSum(b, c, n)) % 2 == 0',
             '(AcqSum(c, Xor(a, b), n) - AcqSum(c, a, n) - AcqSum(c, b, n)) % 2 == 0'],
    induction='n',
)
LEMMAS['acq_antisym'] = dict(
    doc='AcqSum(a,b,n) = -AcqSum(b,a,n); in particular equal parity',
    params=[('a', 'int1'), ('b', 'int1'), ('n', 'int')],
    requires=[],
    ensures=['AcqSum(a, b, n) + AcqSum(b, a, n) == 0', 'AcqSum(a, a, n) == 0'],
    induction='n',
)

# ------------------------------------------------------------------ tableau predicates
PREDS['gram'] = (('G', 'N'),
                 'forall(a, 0, 2 * N, forall(b, 0, 2 * N, AcqSum(G[a], G[b], N) % 2 == b2i(b == a + N or a == b + N)))')
PREDS['tab'] = (('G', 'N'), ['rows(G) == 2 * N', 'cols(G) == 2 * N', 'bits2(G)', 'gram(G, N)'])
# scan order of the measurement kernels: active stabilizers [r,N), standby stabilizers [0,r), then rows N..2N-1
PREDS['scan'] = (('t', 'r', 'N'), 't + r if t < N - r else (t - (N - r) if t < N else t)')
PREDS['iscan'] = (('j', 'r', 'N'), 'j - r if (r <= j and j < N) else (j + (N - r) if j < r else j)')
PREDS['anti'] = (('g', 'obs', 'N'), 'AcqSum(g, obs, N) % 2 == 1')

# arithmetic of the scan order, stated once per iteration so that the invariant steps do not have to rediscover it:
# the row visited at time jj is j, and j is visited exactly at time jj
# the kernels' callees measure N from the row length; say once that this is the same N (spares the solver a division argument)
_len_facts = [('assert', 'cols(gs_stb) // 2 == N and cols(gs_obs) // 2 == N'),
              ('assert', "implies(not update, forall(i, 0, 2 * N, same(gs_stb[i], at('loop1.pre', gs_stb)[i])))")]
_scan_facts = [('assert', '0 <= j < 2 * N and iscan(j, r, N) == jj and j == scan(jj, r, N)'),
               ('assert', 'forall(i, 0, 2 * N, implies(i != j, iscan(i, r, N) != jj))')]
_G0 = "at('loop1.pre', gs_stb)"
_HG, _HU, _HP = "at('loop1.head', gs_stb)", "at('loop1.head', update)", "at('loop1.head', p)"
_HPS, _HGA, _HPA = "at('loop1.head', ps_stb)", "at('loop1.head', ga)", "at('loop1.head', pa)"
_obs = 'gs_obs[k]'
_proj_inner = [
    'rows(gs_stb) == 2 * N', 'cols(gs_stb) == 2 * N', 'cols(gs_obs) == 2 * N', '0 <= k < L', '0 <= r <= N', 'bits2(gs_stb)',
    # pivot bookkeeping (positions are taken in scan order: iscan(i) is the time at which row i is visited)
    'implies(not update, p == 0 and not extend)',
    ('implies(not update, forall(i, 0, N + r, implies(iscan(i, r, N) < jj, not anti(%s[i], %s, N))))' % (_G0, _obs),
     {'by': ['@head', '0 <= j < 2 * N and iscan(j, r, N) == jj', 'forall(i, 0, 2 * N, implies(i != j, iscan(i, r, N) != jj))',
             'implies(not update, not %s)' % _HU, 'implies(not update and j < N + r, not anti(%s[j], %s, N))' % (_G0, _obs)]}),
    'implies(update, 0 <= p < N + r and iscan(p, r, N) < jj)',
    'implies(update, anti(%s[p], %s, N))' % (_G0, _obs),
    'implies(update, forall(i, 0, N + r, implies(iscan(i, r, N) < iscan(p, r, N), not anti(%s[i], %s, N))))' % (_G0, _obs),
    'implies(update, iff(extend, not (r <= p and p < N)))',
    # rows: visited after the pivot and anticommuting -> multiplied by the pivot row; everything else untouched
    ('forall(i, 0, 2 * N, '
     'same(gs_stb[i], Xor(%s[i], %s[p])) '
     'if (iscan(i, r, N) < jj and update and iscan(i, r, N) > iscan(p, r, N) and anti(%s[i], %s, N)) '
     'else same(gs_stb[i], %s[i]))' % (_G0, _G0, _G0, _obs, _G0),
     # preservation, as an explicit case analysis of what one iteration does to row j (all other rows are untouched)
     {'by': ['@head',
             '0 <= j < 2 * N and iscan(j, r, N) == jj',
             'forall(i, 0, 2 * N, implies(i != j, iscan(i, r, N) != jj and same(gs_stb[i], %s[i])))' % _HG,
             'implies(%s, update and p == %s)' % (_HU, _HP),
             'implies(%s, iscan(p, r, N) < jj)' % _HU,
             'implies(not %s and update, p == j)' % _HU,
             'implies(%s and anti(%s[j], %s, N), same(gs_stb[j], Xor(%s[j], %s[p])))' % (_HU, _G0, _obs, _G0, _G0),
             'implies(not (%s and anti(%s[j], %s, N)), same(gs_stb[j], %s[j]))' % (_HU, _G0, _obs, _G0)]}),
]
_gram_hints = [
    ('forall_lemma', [('i', '0', '2 * N'), ('l', '0', '2 * N')], 'acq_bilinear', ['%s[i]' % _G0, '%s[p0]' % _G0, '%s[l]' % _G0, 'N']),
    ('forall_lemma', [('i', '0', '2 * N')], 'acq_bilinear', ['%s[i]' % _G0, '%s[p0]' % _G0, _obs, 'N']),
    ('forall_lemma', [('i', '0', '2 * N'), ('l', '0', '2 * N')], 'acq_bilinear', ['%s[i]' % _G0, '%s[p0]' % _G0, 'Xor(%s[l], %s[p0])' % (_G0, _G0), 'N']),
    ('forall_lemma', [('i', '0', '2 * N'), ('l', '0', '2 * N')], 'acq_antisym', ['%s[i]' % _G0, '%s[l]' % _G0, 'N']),
    ('forall_lemma', [('i', '0', '2 * N')], 'acq_antisym', ['%s[i]' % _G0, _obs, 'N']),
    ('lemma', 'acq_antisym', [_obs, _obs, 'N']),
]
def _gram_after_pivot(p, q):
    """ghost assertion after `gs_stb[q] = gs_stb[p]; gs_stb[p] = gs_obs[k]`: the Gram structure holds again.
    Proved from: Gram structure of the tableau at the start of the scan, the row-level effect of the scan, the pivot facts and
    bilinearity / antisymmetry instances -- and nothing else."""
    G0, obs = _G0, _obs
    rows = ('forall(i, 0, 2 * N, same(gs_stb[i], %s) if i == %s else (same(gs_stb[i], %s[%s]) if i == %s else '
            '(same(gs_stb[i], Xor(%s[i], %s[%s])) if anti(%s[i], %s, N) else same(gs_stb[i], %s[i]))))'
            % (obs, p, G0, p, q, G0, G0, p, G0, obs, G0))
    return ('assert_from', 'gram(gs_stb, N)',
            ['gram(%s, N)' % G0, rows, '0 <= %s < 2 * N' % p, '%s == (%s + N if %s < N else %s - N)' % (q, p, p, p),
             'anti(%s[%s], %s, N)' % (G0, p, obs), 'N >= 1'] + _subst_p(_gram_hints, p), ['%s < N' % p, '%s >= N' % p])


def _swap_hints(K):
    """ghost assertions after the row swaps that follow a rank reduction (`if extend:` is the K-th if of the function,
    `if p == r` the (K+1)-th, `elif q == r` the (K+2)-th).  The tableau after the swaps is the tableau before them read through a
    permutation that maps partner pairs to partner pairs; proved from the Gram structure before the swaps, nothing else."""
    mid = "at('if%d.before', gs_stb)" % K
    base = ['gram(%s, N)' % mid, 'q == (p + N if p < N else p - N)', '0 <= r < N', '0 <= p < 2 * N']
    single = ('assert_from', 'gram(gs_stb, N)',
              base + ['q == r', 'forall(i, 0, 2 * N, same(gs_stb[i], %s[q if i == p else (p if i == q else i)]))' % mid])
    double = ('assert_from', 'gram(gs_stb, N)',
              base + ['s == r + N', 'p != r', 'q != r',
                      'forall(i, 0, 2 * N, same(gs_stb[i], %s[r if i == p else (p if i == r else (s if i == q else (q if i == s else i)))]))' % mid],
              ['p < N', 'p >= N'])
    return {'if%d.then.end' % (K + 2): [single], 'if%d.else.end' % (K + 2): [double]}


def _subst_p(hints, name):
    out = []
    for h in hints:
        out.append(tuple(x.replace('[p0]', '[%s]' % name) if isinstance(x, str) else
                         ([y.replace('[p0]', '[%s]' % name) for y in x] if isinstance(x, list) and x and isinstance(x[0], str) else x)
                         for x in h))
    return out


CONTRACTS[U + 'stabilizer_project'] = dict(
    params=[('gs_stb', 'int2'), ('gs_obs', 'int2'), ('r', 'int')],
    requires=['cols(gs_obs) % 2 == 0', 'tab(gs_stb, cols(gs_obs) // 2)', '0 <= r <= cols(gs_obs) // 2', 'bits2(gs_obs)'],
    ensures=['tab(gs_stb, cols(gs_obs) // 2)', '0 <= result[1] <= r'],
    modifies=['gs_stb'], returns=('=gs_stb', 'int'),
    loops={0: dict(var='k', invariant=['rows(gs_stb) == 2 * N', 'cols(gs_stb) == 2 * N', 'bits2(gs_stb)', 'gram(gs_stb, N)',
                                       '0 <= r <= N', 'cols(gs_obs) == 2 * N', 'r <= old(r)'],
                   ),
           1: dict(var='jj', invariant=_proj_inner, hints_end=_scan_facts, hints_head=_len_facts)},
    # ghost code before `if extend:` (the 6th if of the function): after the pivot replacement the Gram structure holds
    # again (bilinearity instances for the rows that were multiplied by the pivot); the swaps then only permute pairs
    hints=dict({'if5.before': [_gram_after_pivot('p', 'q')]}, **_swap_hints(5)),
)

# ------------------------------------------------------------------ C05 / C06: the measurement kernel
LEMMAS['ipow_parity'] = dict(
    doc='the product of two Pauli strings picks up an odd power of i exactly when they anticommute (per-qubit table, induction)',
    params=[('a', 'int1'), ('b', 'int1'), ('n', 'int')],
    requires=['bits(a, 2 * n)', 'bits(b, 2 * n)'],
    ensures=['(IpowSum(a, b, n) - AcqSum(a, b, n)) % 2 == 0'],
    induction='n',
)
PREDS['inv_state'] = (('G', 'P', 'r', 'N'), ['rows(G) == 2 * N', 'cols(G) == 2 * N', 'len(P) == 2 * N', '0 <= r <= N', 'bits2(G)', 'gram(G, N)',
                                             'forall(a, r, N, P[a] == 0 or P[a] == 2)'])
_P0 = "at('loop1.pre', ps_stb)"
_sel = 'DestabSel(%s, %s, r, N)' % (_G0, _obs)
_meas_inner = _proj_inner + [
    'len(ps_stb) == 2 * N', 'len(ga) == 2 * N', 'len(out) == L', 'len(ps_obs) == L',
    # phases: stabilizer rows (index < N) that were multiplied by the pivot row carry the product phase, all others are untouched
    ('forall(i, 0, 2 * N, '
     'ps_stb[i] == (%s[i] + %s[p] + IpowSum(%s[i], %s[p], N)) %% 4 '
     'if (i < N and iscan(i, r, N) < jj and update and iscan(i, r, N) > iscan(p, r, N) and anti(%s[i], %s, N)) '
     'else ps_stb[i] == %s[i])' % (_P0, _P0, _G0, _G0, _G0, _obs, _P0),
     {'by': ['@head',
             '0 <= j < 2 * N and iscan(j, r, N) == jj',
             'forall(i, 0, 2 * N, implies(i != j, iscan(i, r, N) != jj and ps_stb[i] == %s[i]))' % _HPS,
             'implies(%s, update and p == %s)' % (_HU, _HP),
             'implies(%s, iscan(p, r, N) < jj)' % _HU,
             'implies(not %s and update, p == j)' % _HU,
             'implies(%s and anti(%s[j], %s, N) and j < N, ps_stb[j] == (%s[j] + %s[p] + IpowSum(%s[j], %s[p], N)) %% 4)'
             % (_HU, _G0, _obs, _P0, _P0, _G0, _G0),
             'implies(not (%s and anti(%s[j], %s, N) and j < N), ps_stb[j] == %s[j])' % (_HU, _G0, _obs, _P0)]}),
    # accumulation of the destabilizer-selected active stabilizers while no pivot has been found
    ('implies(not update, pa == OrdP(%s, %s, %s, jj - N, N))' % (_sel, _G0, _P0),
     {'by': ['@head', 'implies(not update, not %s)' % _HU, 'j == scan(jj, r, N)', '0 <= r <= N', 'N >= 0',
             'implies(not update and jj >= N + r and anti(%s[jj], %s, N), '
             'pa == (%s + %s[jj - N] + IpowSum(OrdGRow(%s, %s, jj - N), %s[jj - N], N)) %% 4)' % (_G0, _obs, _HPA, _P0, _sel, _G0, _G0),
             'implies(not update and not (jj >= N + r and anti(%s[jj], %s, N)), pa == %s)' % (_G0, _obs, _HPA)]}),
    ('implies(not update, forall(c, 0, 2 * N, ga[c] == OrdG(%s, %s, jj - N, c)))' % (_sel, _G0),
     {'by': ['@head', 'implies(not update, not %s)' % _HU, 'j == scan(jj, r, N)', '0 <= r <= N', 'N >= 0',
             'implies(not update and jj >= N + r and anti(%s[jj], %s, N), forall(c, 0, 2 * N, ga[c] == (%s[c] + %s[jj - N][c]) %% 2))' % (_G0, _obs, _HGA, _G0),
             'implies(not update and not (jj >= N + r and anti(%s[jj], %s, N)), forall(c, 0, 2 * N, ga[c] == %s[c]))' % (_G0, _obs, _HGA),
             'bits2(%s)' % _G0, 'rows(%s) == 2 * N' % _G0]}),
    'implies(not update, bits(ga, 2 * N))',
]
_meas_outer = ['rows(gs_stb) == 2 * N', 'cols(gs_stb) == 2 * N', 'len(ps_stb) == 2 * N', 'bits2(gs_stb)', 'gram(gs_stb, N)', '0 <= r <= N',
               'forall(a, r, N, ps_stb[a] == 0 or ps_stb[a] == 2)',
               'cols(gs_obs) == 2 * N', 'len(ps_obs) == L', 'r <= old(r)', 'len(out) == L', 'len(ga) == 2 * N',
               'forall(kk, 0, k, out[kk] == 0 or out[kk] == 1)']
# deterministic branch: no row of index < N + r anticommutes; then obs xor ga commutes with every row of the tableau, hence
# (symplectic completeness, the one assumed bridge lemma) it is the identity string, i.e. ga == obs
_w = 'Xor(%s, ga)' % _obs
_det_hints = [
    ('forall_lemma', [('i', '0', '2 * N')], 'ordg_acq', [_sel, _G0, 'N', '%s[i]' % _G0, 'N']),
    ('forall_lemma', [('i', '0', '2 * N')], 'selacq_gram', [_sel, _G0, 'N', 'i', 'N']),
    ('forall_lemma', [('i', '0', '2 * N')], 'acqsum_ext', ['ga', 'OrdGRow(%s, %s, N)' % (_sel, _G0), '%s[i]' % _G0, 'N']),
    ('forall_lemma', [('i', '0', '2 * N')], 'acq_bilinear', [_obs, 'ga', '%s[i]' % _G0, 'N']),
    ('assert_from', 'forall(i, 0, 2 * N, AcqSum(%s[i], %s, N) %% 2 == 0)' % (_G0, _w),
     ['no_anti(%s, %s, N + r, N)' % (_G0, _obs), '0 <= r <= N',
      'forall(i, 0, 2 * N, (AcqSum(%s[i], OrdGRow(%s, %s, N), N) - SelAcq(%s, %s, N, %s[i], N)) %% 2 == 0)' % (_G0, _sel, _G0, _sel, _G0, _G0),
      'forall(i, 0, 2 * N, SelAcq(%s, %s, N, %s[i], N) %% 2 == b2i(N <= i and i < N + N and %s[i - N] != 0))' % (_sel, _G0, _G0, _sel),
      'forall(i, 0, 2 * N, AcqSum(%s[i], ga, N) == AcqSum(%s[i], OrdGRow(%s, %s, N), N))' % (_G0, _G0, _sel, _G0),
      'forall(i, 0, 2 * N, (AcqSum(%s[i], %s, N) - AcqSum(%s[i], %s, N) - AcqSum(%s[i], ga, N)) %% 2 == 0)' % (_G0, _w, _G0, _obs, _G0),
      'forall(u, 0, N, %s[u] == (1 if (u >= r and AcqSum(%s[N + u], %s, N) %% 2 == 1) else 0))' % (_sel, _G0, _obs)]),
    ('lemma', 'symplectic_complete', [_G0, _w, 'N']),
    ('assert_from', 'forall(c, 0, 2 * N, ga[c] == %s[c])' % _obs,
     ['forall(c, 0, 2 * N, %s[c] == 0)' % _w, 'bits(ga, 2 * N)', 'bits(%s, 2 * N)' % _obs]),
]
# C06, per observable, relative to the state at the start of its iteration (G0, P0, r0, lp0): these are the Born rule and the
# projection postulate in algebraic form (the stabilizer group is what defines the density matrix)
_r0 = "at('loop0.head', r)"
_lp0 = "at('loop0.head', log2prob)"
_pv = "at('if6.before', p)"
_sel0 = 'DestabSel(%s, %s, %s, N)' % (_G0, _obs, _r0)
_c06_step = [
    # deterministic: +-obs is already a stabilizer; outcome fixed by the state, nothing changes, probability one
    ('assert', 'implies(no_anti(%s, %s, N + %s, N), r == %s and log2prob == %s and '
               'forall(i, 0, 2 * N, same(gs_stb[i], %s[i]) and ps_stb[i] == %s[i]) and '
               'out[k] == ((OrdP(%s, %s, %s, N, N) - ps_obs[k]) %% 4) // 2)' % (_G0, _obs, _r0, _r0, _lp0, _G0, _P0, _sel0, _G0, _P0)),
    # otherwise: a fair coin (unconstrained here) decides, the probability halves, and the new generator is (-1)^out * obs
    ('assert', 'implies(not no_anti(%s, %s, N + %s, N), log2prob == %s - 1 and (out[k] == 0 or out[k] == 1))' % (_G0, _obs, _r0, _lp0)),
    # an active stabilizer anticommutes: rank unchanged, the least such row is replaced, the other anticommuting active rows are
    # multiplied by it with the exact product phase, the commuting ones are untouched
    ('assert', 'implies(%s <= %s and %s < N, r == %s and same(gs_stb[%s], %s) and ps_stb[%s] == (ps_obs[k] + 2 * out[k]) %% 4 and '
               'forall(i, %s, %s, not anti(%s[i], %s, N)) and '
               'forall(i, %s, N, implies(i != %s, '
               '(same(gs_stb[i], Xor(%s[i], %s[%s])) and ps_stb[i] == (%s[i] + %s[%s] + IpowSum(%s[i], %s[%s], N)) %% 4) '
               'if anti(%s[i], %s, N) else (same(gs_stb[i], %s[i]) and ps_stb[i] == %s[i]))))'
     % (_r0, _pv, _pv, _r0, _pv, _obs, _pv, _r0, _pv, _G0, _obs, _r0, _pv, _G0, _G0, _pv, _P0, _P0, _pv, _G0, _G0, _pv, _G0, _obs, _G0, _P0)),
    # only standby rows anticommute (an undetermined logical operator was measured): the rank drops by one, the active
    # stabilizers are untouched and (-1)^out * obs joins them
    ('assert', 'implies(not (%s <= %s and %s < N), r == %s - 1 and same(gs_stb[r], %s) and ps_stb[r] == (ps_obs[k] + 2 * out[k]) %% 4 and '
               'forall(i, %s, N, same(gs_stb[i], %s[i]) and ps_stb[i] == %s[i] and not anti(%s[i], %s, N)))'
     % (_r0, _pv, _pv, _r0, _obs, _r0, _G0, _P0, _G0, _obs)),
]
_A3p = ('implies(%s <= %s and %s < N, r == %s and ps_stb[%s] == (ps_obs[k] + 2 * out[k]) %% 4 and '
        'forall(i, %s, N, implies(i != %s, ps_stb[i] == ((%s[i] + %s[%s] + IpowSum(%s[i], %s[%s], N)) %% 4 if anti(%s[i], %s, N) else %s[i]))))'
        % (_r0, _pv, _pv, _r0, _pv, _r0, _pv, _P0, _P0, _pv, _G0, _G0, _pv, _G0, _obs, _P0))
_A4p = ('implies(not (%s <= %s and %s < N), r == %s - 1 and ps_stb[r] == (ps_obs[k] + 2 * out[k]) %% 4 and forall(i, %s, N, ps_stb[i] == %s[i]))'
        % (_r0, _pv, _pv, _r0, _r0, _P0))
CONTRACTS[U + 'stabilizer_measure'] = dict(
    params=[('gs_stb', 'int2'), ('ps_stb', 'int1'), ('gs_obs', 'int2'), ('ps_obs', 'int1'), ('r', 'int')],
    requires=['cols(gs_obs) % 2 == 0', 'inv_state(gs_stb, ps_stb, r, cols(gs_obs) // 2)', 'bits2(gs_obs)', 'len(ps_obs) == rows(gs_obs)',
              'herms1(ps_obs)'],
    ensures=['inv_state(gs_stb, ps_stb, result[2], cols(gs_obs) // 2)', '0 <= result[2] <= r',
             'len(result[3]) == rows(gs_obs)', 'forall(kk, 0, rows(gs_obs), result[3][kk] == 0 or result[3][kk] == 1)'],
    modifies=['gs_stb', 'ps_stb'], returns=('=gs_stb', '=ps_stb', 'int', 'int1 fresh', 'real'),
    loops={0: dict(var='k', invariant=_meas_outer,
                   hints_end=_c06_step + [
                       # Hermitian phases of the (new) active stabilizers: from the phase part of the step assertions, the Gram
                       # structure (stabilizers commute) and: commuting strings multiply with an even power of i
                       ('assert', _A3p), ('assert', _A4p),
                       ('assert_from', 'forall(a, r, N, ps_stb[a] == 0 or ps_stb[a] == 2)',
                        [_c06_step[1][1], _A3p, _A4p, 'forall(a, %s, N, %s[a] == 0 or %s[a] == 2)' % (_r0, _P0, _P0), 'gram(%s, N)' % _G0,
                         ('forall_lemma', [('i', '0', 'N')], 'ipow_parity', ['%s[i]' % _G0, '%s[%s]' % (_G0, _pv), 'N']),
                         'herms1(ps_obs)', '0 <= k < len(ps_obs)', '0 <= %s < N + %s' % (_pv, _r0), '0 <= %s <= N' % _r0,
                         'anti(%s[%s], %s, N)' % (_G0, _pv, _obs)],
                        ['%s <= %s and %s < N' % (_r0, _pv, _pv), 'not (%s <= %s and %s < N)' % (_r0, _pv, _pv)], 'optional'),
                       ('assert_from', 'forall(a, r, N, ps_stb[a] == 0 or ps_stb[a] == 2)',
                        [_c06_step[0][1], 'forall(a, %s, N, %s[a] == 0 or %s[a] == 2)' % (_r0, _P0, _P0),
                         'no_anti(%s, %s, N + %s, N)' % (_G0, _obs, _r0)])]),
           1: dict(var='jj', invariant=_meas_inner, hints_end=_scan_facts,
                   hints_head=_len_facts + [('assert', "implies(not update, forall(i, 0, 2 * N, ps_stb[i] == at('loop1.pre', ps_stb)[i]))"),
                                            ('assert', 'implies(jj >= N, scan(jj, r, N) == jj)')] + [('lemma?', 'ipowsum_ext', ['ga', 'OrdGRow(%s, %s, jj - N)' % (_sel, _G0), 'gs_stb[jj - N]', 'N']),
                                            ('assert', 'implies(not update and jj >= N, IpowSum(ga, %s[jj - N], N) == IpowSum(OrdGRow(%s, %s, jj - N), %s[jj - N], N))' % (_G0, _sel, _G0, _G0))])},
    hints=dict({'if6.before': [_gram_after_pivot('p', 'q')], 'assert1': _det_hints}, **_swap_hints(6)),
)

# ------------------------------------------------------------------ lemmas for the deterministic branch (ga == obs)
LEMMAS['ordg_bits'] = dict(
    doc='the string part of an ordered product of bit strings is a bit string',
    params=[('sel', 'int1'), ('G', 'int2'), ('n', 'int'), ('c', 'int')],
    requires=[],
    ensures=['0 <= OrdG(sel, G, n, c) <= 1'],
    induction='n',
)
LEMMAS['acq_zero'] = dict(
    doc='the symplectic form with the identity string vanishes',
    params=[('x', 'int1'), ('z', 'int1'), ('n', 'int')],
    requires=['forall(c, 0, 2 * n, z[c] == 0)'],
    ensures=['AcqSum(x, z, n) == 0', 'AcqSum(z, x, n) == 0'],
    induction='n',
)
LEMMAS['ordg_acq'] = dict(
    doc='the symplectic form of x with an ordered product is the sum (mod 2) of its forms with the selected rows',
    params=[('sel', 'int1'), ('G', 'int2'), ('n', 'int'), ('x', 'int1'), ('N', 'int')],
    requires=['N >= 0', 'bits(x, 2 * N)', 'forall(i, 0, n, bits(G[i], 2 * N))'],
    ensures=['(AcqSum(x, OrdGRow(sel, G, n), N) - SelAcq(sel, G, n, x, N)) % 2 == 0'],
    induction='n',
    uses_step=[('forall_lemma', [('c', '0', '2 * N')], 'ordg_bits', ['sel', 'G', 'n - 1', 'c']),
               ('lemma', 'acq_bilinear', ['OrdGRow(sel, G, n - 1)', 'G[n - 1]', 'x', 'N']),
               ('lemma?', 'acqsum_ext', ['OrdGRow(sel, G, n)', 'Xor(OrdGRow(sel, G, n - 1), G[n - 1])' , 'x', 'N']),
               ('lemma?', 'acqsum_ext', ['OrdGRow(sel, G, n)', 'OrdGRow(sel, G, n - 1)', 'x', 'N'])],
    uses=[('lemma', 'acq_zero', ['x', 'OrdGRow(sel, G, n)', 'N'])],
)
LEMMAS['selacq_gram'] = dict(
    doc='for a row of a valid tableau only its partner row contributes to the selected sum',
    params=[('sel', 'int1'), ('G', 'int2'), ('n', 'int'), ('i', 'int'), ('N', 'int')],
    requires=['gram(G, N)', '0 <= i < 2 * N', 'n <= N'],
    ensures=['SelAcq(sel, G, n, G[i], N) % 2 == b2i(N <= i and i < N + n and sel[i - N] != 0)'],
    induction='n',
)
LEMMAS['symplectic_complete'] = dict(
    doc='a string that commutes with all 2N rows of a valid tableau is the identity string',
    axiom='mathematical bridge (not proved here): the rows of a valid tableau satisfy M Omega M^T = Omega over GF(2), hence M is '
          'invertible and v -> M Omega v is injective; standard (Aaronson-Gottesman 2004, Prop. 1/3)',
    params=[('G', 'int2'), ('w', 'int1'), ('N', 'int')],
    requires=['gram(G, N)', 'bits2(G)', 'rows(G) == 2 * N', 'cols(G) == 2 * N', 'bits(w, 2 * N)',
              'forall(i, 0, 2 * N, AcqSum(G[i], w, N) % 2 == 0)'],
    ensures=['forall(c, 0, 2 * N, w[c] == 0)'],
)

# ------------------------------------------------------------------ C14: post-selection (pure states, one observable)
_H0, _Q0, _ob = 'old(gs_stb)', 'old(ps_stb)', 'gs_ob'
_selp = 'DestabSel(%s, %s, 0, N)' % (_H0, _ob)
_post_inner = [
    'rows(gs_stb) == 2 * N', 'cols(gs_stb) == 2 * N', 'len(ps_stb) == 2 * N', 'len(ga) == 2 * N', 'len(gs_ob) == 2 * N', 'bits2(gs_stb)',
    'implies(not update, p == 0)',
    'implies(not update, forall(i, 0, N, implies(i < j, not anti(%s[i], %s, N))))' % (_H0, _ob),
    'implies(update, 0 <= p < N and p < j)',
    'implies(update, anti(%s[p], %s, N))' % (_H0, _ob),
    'implies(update, forall(i, 0, p, not anti(%s[i], %s, N)))' % (_H0, _ob),
    'forall(i, 0, 2 * N, same(gs_stb[i], Xor(%s[i], %s[p])) if (i < j and update and i > p and anti(%s[i], %s, N)) else same(gs_stb[i], %s[i]))'
    % (_H0, _H0, _H0, _ob, _H0),
    'forall(i, 0, 2 * N, ps_stb[i] == (%s[i] + %s[p] + IpowSum(%s[i], %s[p], N)) %% 4 '
    'if (i < N and i < j and update and i > p and anti(%s[i], %s, N)) else ps_stb[i] == %s[i])' % (_Q0, _Q0, _H0, _H0, _H0, _ob, _Q0),
    'implies(not update, pa == OrdP(%s, %s, %s, j - N, N))' % (_selp, _H0, _Q0),
    'implies(not update, forall(c, 0, 2 * N, ga[c] == OrdG(%s, %s, j - N, c)))' % (_selp, _H0),
    'implies(not update, bits(ga, 2 * N))',
]
_wp = 'Xor(%s, ga)' % _ob
_post_rows = ('forall(i, 0, 2 * N, same(gs_stb[i], %s) if i == p else (same(gs_stb[i], %s[p]) if i == q else '
              '(same(gs_stb[i], Xor(%s[i], %s[p])) if anti(%s[i], %s, N) else same(gs_stb[i], %s[i]))))' % (_ob, _H0, _H0, _H0, _H0, _ob, _H0))
CONTRACTS[U + 'stabilizer_postselection'] = dict(
    params=[('gs_stb', 'int2'), ('ps_stb', 'int1'), ('gs_ob', 'int1'), ('ps_ob', 'int')],
    requires=['cols(gs_stb) % 2 == 0', 'inv_state(gs_stb, ps_stb, 0, cols(gs_stb) // 2)', 'len(gs_ob) == cols(gs_stb)', 'bits1(gs_ob)',
              'ps_ob == 0 or ps_ob == 2'],
    ensures=[
        'rows(gs_stb) == cols(gs_stb)', 'len(ps_stb) == rows(gs_stb)', 'bits2(gs_stb)', 'gram(gs_stb, cols(gs_stb) // 2)',
        'forall(a, 0, cols(gs_stb) // 2, ps_stb[a] == 0 or ps_stb[a] == 2)',
        # +-P is already a stabilizer: probability 1 if the sign agrees, 0 if not, and the state is unchanged
        'implies(no_anti(old(gs_stb), gs_ob, cols(gs_stb) // 2, cols(gs_stb) // 2), '
        'forall(i, 0, rows(gs_stb), same(gs_stb[i], old(gs_stb)[i]) and ps_stb[i] == old(ps_stb)[i]) and '
        'result[2] == (1 if OrdP(DestabSel(old(gs_stb), gs_ob, 0, cols(gs_stb) // 2), old(gs_stb), old(ps_stb), cols(gs_stb) // 2, cols(gs_stb) // 2) == ps_ob else 0))',
        # otherwise the requested outcome has probability one half and the signed operator becomes a stabilizer
        'implies(not no_anti(old(gs_stb), gs_ob, cols(gs_stb) // 2, cols(gs_stb) // 2), 2 * result[2] == 1 and '
        'exists(pp, 0, cols(gs_stb) // 2, same(gs_stb[pp], gs_ob) and ps_stb[pp] == ps_ob and anti(old(gs_stb)[pp], gs_ob, cols(gs_stb) // 2) and '
        'forall(i, 0, cols(gs_stb) // 2, implies(i != pp, '
        '(same(gs_stb[i], Xor(old(gs_stb)[i], old(gs_stb)[pp])) and ps_stb[i] == (old(ps_stb)[i] + old(ps_stb)[pp] + IpowSum(old(gs_stb)[i], old(gs_stb)[pp], cols(gs_stb) // 2)) % 4) '
        'if anti(old(gs_stb)[i], gs_ob, cols(gs_stb) // 2) else (same(gs_stb[i], old(gs_stb)[i]) and ps_stb[i] == old(ps_stb)[i])))))',
    ],
    modifies=['gs_stb', 'ps_stb'], returns=('=gs_stb', '=ps_stb', 'real'),
    loops={0: dict(var='j', invariant=_post_inner,
                   hints_head=[('lemma?', 'ipowsum_ext', ['ga', 'OrdGRow(%s, %s, j - N)' % (_selp, _H0), 'gs_stb[j - N]', 'N'])])},
    hints={
        'assert0': [
            ('forall_lemma', [('i', '0', '2 * N')], 'ordg_acq', [_selp, _H0, 'N', '%s[i]' % _H0, 'N']),
            ('forall_lemma', [('i', '0', '2 * N')], 'selacq_gram', [_selp, _H0, 'N', 'i', 'N']),
            ('forall_lemma', [('i', '0', '2 * N')], 'acqsum_ext', ['ga', 'OrdGRow(%s, %s, N)' % (_selp, _H0), '%s[i]' % _H0, 'N']),
            ('forall_lemma', [('i', '0', '2 * N')], 'acq_bilinear', [_ob, 'ga', '%s[i]' % _H0, 'N']),
            ('assert_from', 'forall(i, 0, 2 * N, AcqSum(%s[i], %s, N) %% 2 == 0)' % (_H0, _wp),
             ['no_anti(%s, %s, N, N)' % (_H0, _ob),
              'forall(i, 0, 2 * N, (AcqSum(%s[i], OrdGRow(%s, %s, N), N) - SelAcq(%s, %s, N, %s[i], N)) %% 2 == 0)' % (_H0, _selp, _H0, _selp, _H0, _H0),
              'forall(i, 0, 2 * N, SelAcq(%s, %s, N, %s[i], N) %% 2 == b2i(N <= i and i < N + N and %s[i - N] != 0))' % (_selp, _H0, _H0, _selp),
              'forall(i, 0, 2 * N, AcqSum(%s[i], ga, N) == AcqSum(%s[i], OrdGRow(%s, %s, N), N))' % (_H0, _H0, _selp, _H0),
              'forall(i, 0, 2 * N, (AcqSum(%s[i], %s, N) - AcqSum(%s[i], %s, N) - AcqSum(%s[i], ga, N)) %% 2 == 0)' % (_H0, _wp, _H0, _ob, _H0),
              'forall(u, 0, N, %s[u] == (1 if (u >= 0 and AcqSum(%s[N + u], %s, N) %% 2 == 1) else 0))' % (_selp, _H0, _ob)]),
            ('lemma', 'symplectic_complete', [_H0, _wp, 'N']),
            ('assert_from', 'forall(c, 0, 2 * N, ga[c] == %s[c])' % _ob,
             ['forall(c, 0, 2 * N, %s[c] == 0)' % _wp, 'bits(ga, 2 * N)', 'bits(%s, 2 * N)' % _ob])],
        'return': [('when', 'update', [
            ('assert_from', 'gram(gs_stb, N)',
             ['gram(%s, N)' % _H0, _post_rows, '0 <= p < N', 'q == p + N', 'anti(%s[p], %s, N)' % (_H0, _ob), 'N >= 1',
              ('forall_lemma', [('i', '0', '2 * N'), ('l', '0', '2 * N')], 'acq_bilinear', ['%s[i]' % _H0, '%s[p]' % _H0, '%s[l]' % _H0, 'N']),
              ('forall_lemma', [('i', '0', '2 * N')], 'acq_bilinear', ['%s[i]' % _H0, '%s[p]' % _H0, _ob, 'N']),
              ('forall_lemma', [('i', '0', '2 * N'), ('l', '0', '2 * N')], 'acq_bilinear', ['%s[i]' % _H0, '%s[p]' % _H0, 'Xor(%s[l], %s[p])' % (_H0, _H0), 'N']),
              ('forall_lemma', [('i', '0', '2 * N'), ('l', '0', '2 * N')], 'acq_antisym', ['%s[i]' % _H0, '%s[l]' % _H0, 'N']),
              ('forall_lemma', [('i', '0', '2 * N')], 'acq_antisym', ['%s[i]' % _H0, _ob, 'N']),
              ('lemma', 'acq_antisym', [_ob, _ob, 'N'])]),
            ('assert_from', 'forall(a, 0, N, ps_stb[a] == 0 or ps_stb[a] == 2)',
             ['forall(i, 0, N, ps_stb[i] == ps_ob if i == p else (ps_stb[i] == (%s[i] + %s[p] + IpowSum(%s[i], %s[p], N)) %% 4 '
              'if anti(%s[i], %s, N) else ps_stb[i] == %s[i]))' % (_Q0, _Q0, _H0, _H0, _H0, _ob, _Q0),
              'forall(a, 0, N, %s[a] == 0 or %s[a] == 2)' % (_Q0, _Q0), 'gram(%s, N)' % _H0, '0 <= p < N', 'ps_ob == 0 or ps_ob == 2',
              ('forall_lemma', [('i', '0', 'N')], 'ipow_parity', ['%s[i]' % _H0, '%s[p]' % _H0, 'N'])])])],
    },
)

# ------------------------------------------------------------------ C07: sequential projection with trace (state overlaps)
_tr0 = "at('loop0.head', trace)"
_pt_step = [
    ('assert', 'implies(no_anti(%s, %s, N + %s, N), r == %s and '
               'forall(i, 0, 2 * N, same(gs_stb[i], %s[i]) and ps_stb[i] == %s[i]) and '
               'trace == (%s if OrdP(%s, %s, %s, N, N) == ps_obs[k] else 0))' % (_G0, _obs, _r0, _r0, _G0, _P0, _tr0, _sel0, _G0, _P0)),
    ('assert', 'implies(not no_anti(%s, %s, N + %s, N), 2 * trace == %s)' % (_G0, _obs, _r0, _tr0)),
    ('assert', _c06_step[2][1].replace('(ps_obs[k] + 2 * out[k]) % 4', 'ps_obs[k]')),
    ('assert', _c06_step[3][1].replace('(ps_obs[k] + 2 * out[k]) % 4', 'ps_obs[k]')),
]
_m = CONTRACTS[U + 'stabilizer_measure']
_pt_outer = [c for c in _meas_outer if 'out' not in c]
_pt_inner = [c for c in _meas_inner if 'len(out)' not in c]
CONTRACTS[U + 'stabilizer_projection_trace'] = dict(
    params=_m['params'],
    requires=_m['requires'],
    ensures=['inv_state(gs_stb, ps_stb, result[2], cols(gs_obs) // 2)', '0 <= result[2] <= r'],
    modifies=['gs_stb', 'ps_stb'], returns=('=gs_stb', '=ps_stb', 'int', 'real'),
    loops={0: dict(var='k', invariant=_pt_outer, locals={'trace': 'real'},
                   hints_end=_pt_step + [
                       ('assert_from', 'forall(a, r, N, ps_stb[a] == 0 or ps_stb[a] == 2)',
                        [h[1] for h in _pt_step] + ['forall(a, %s, N, %s[a] == 0 or %s[a] == 2)' % (_r0, _P0, _P0), 'gram(%s, N)' % _G0,
                                                    ('forall_lemma', [('i', '0', 'N')], 'ipow_parity', ['%s[i]' % _G0, '%s[%s]' % (_G0, _pv), 'N']),
                                                    'herms1(ps_obs)', '0 <= k < len(ps_obs)', '0 <= %s < N + %s' % (_pv, _r0),
                                                    'anti(%s[%s], %s, N)' % (_G0, _pv, _obs)],
                        [], 'optional'),
                       ('assert_from', 'forall(a, r, N, ps_stb[a] == 0 or ps_stb[a] == 2)',
                        [_pt_step[0][1], 'forall(a, %s, N, %s[a] == 0 or %s[a] == 2)' % (_r0, _P0, _P0),
                         'no_anti(%s, %s, N + %s, N)' % (_G0, _obs, _r0)])]),
           1: dict(var='jj', invariant=_pt_inner, hints_end=_scan_facts, hints_head=_m['loops'][1]['hints_head'])},
    hints=_m['hints'],
)

# ------------------------------------------------------------------ C18: single-string diagonalisation
PREDS['qterm'] = (('x', 'y', 'k'), 'x[2 * k + 1] * y[2 * k] - x[2 * k] * y[2 * k + 1]')
PREDS['unitZ'] = (('h', 'i0', 'N'), 'forall(c, 0, 2 * N, h[c] == b2i(c == 2 * i0 + 1))')
LEMMAS['acq_diff2'] = dict(
    doc='changing a string on (at most) two qubits changes the symplectic sum by the terms of those qubits',
    params=[('a', 'int1'), ('a2', 'int1'), ('b', 'int1'), ('n', 'int'), ('i', 'int'), ('j', 'int')],
    requires=['forall(c, 0, 2 * n, implies(c != 2 * i and c != 2 * i + 1 and c != 2 * j and c != 2 * j + 1, a2[c] == a[c]))'],
    ensures=['AcqSum(a2, b, n) - AcqSum(a, b, n) == '
             '(qterm(a2, b, i) - qterm(a, b, i) if (0 <= i and i < n) else 0) + '
             '(qterm(a2, b, j) - qterm(a, b, j) if (0 <= j and j < n and j != i) else 0)'],
    induction='n',
)
LEMMAS['onsite_flat'] = dict(
    doc='a string that is trivial on every qubit but i0 has zero entries outside positions 2 i0, 2 i0 + 1',
    params=[('g', 'int1'), ('i0', 'int'), ('n', 'int')],
    requires=['forall(k, 0, n, k == i0 or (g[2 * k] == 0 and g[2 * k + 1] == 0))'],
    ensures=['forall(c, 0, 2 * n, implies(c != 2 * i0 and c != 2 * i0 + 1, g[c] == 0))'],
    induction='n',
)
_d1_N = 'len(old(g1)) // 2'
_g0 = 'old(g1)'
CONTRACTS[U + 'pauli_diagonalize1'] = dict(
    params=[('g1', 'int1'), ('i0', 'int')], defaults={'i0': 0},
    requires=['len(g1) % 2 == 0', '0 <= i0 < len(g1) // 2', 'bits1(g1)', 'exists(c, 0, len(g1), g1[c] != 0)'],
    # rotating by the returned generators in order: each one anticommutes with the current string (so the rotation multiplies it
    # in), and the string that is left is Z on qubit i0
    ensures=['len(result) <= 2',
             'implies(len(result) == 0, unitZ(%s, i0, %s))' % (_g0, _d1_N),
             'implies(len(result) == 1, anti(result[0], %s, %s) and unitZ(Xor(%s, result[0]), i0, %s))' % (_g0, _d1_N, _g0, _d1_N),
             'implies(len(result) == 2, anti(result[0], %s, %s) and anti(result[1], Xor(%s, result[0]), %s) and '
             'unitZ(Xor(Xor(%s, result[0]), result[1]), i0, %s))' % (_g0, _d1_N, _g0, _d1_N, _g0, _d1_N)],
    modifies=[], returns='list',
    hints={'return': [
        ('lemma?', 'onsite_flat', [_g0, 'i0', 'N']),
        ('lemma', 'acq_antisym', [_g0, _g0, 'N']),
        # first generator: the input changed on the pivot qubit i (if any) and on i0
        ('lemma?', 'acq_diff2', [_g0, 'result[0]', _g0, 'N', 'i', 'i0'], 'optional'),
        ('lemma?', 'acq_diff2', [_g0, 'result[0]', _g0, 'N', 'i0', 'i0'], 'optional'),
        # second generator: the current string with Z toggled on i0
        ('lemma', 'acq_antisym', ['Xor(%s, result[0])' % _g0, 'Xor(%s, result[0])' % _g0, 'N'], 'optional'),
        ('lemma?', 'acq_diff2', ['Xor(%s, result[0])' % _g0, 'result[1]', 'Xor(%s, result[0])' % _g0, 'N', 'i0', 'i0'], 'optional'),
    ]},
)

# ------------------------------------------------------------------ C16: validity of the random pair
CONTRACTS[U + 'random_pair'] = dict(
    params=[('N', 'int')],
    requires=['N >= 1'],
    # whatever the generator draws (every draw is an unconstrained bit here): a non-identity string and a string anticommuting with it
    ensures=['len(result[0]) == 2 * N', 'len(result[1]) == 2 * N', 'bits1(result[0])', 'bits1(result[1])',
             'exists(c, 0, 2 * N, result[0][c] != 0)', 'anti(result[0], result[1], N)'],
    modifies=[], returns=('int1 fresh', 'int1 fresh'),
    loops={0: dict(invariant=['len(g1) == 2 * N', 'bits1(g1)', 'len(g2) == 2 * N', 'bits1(g2)'])},
    hints={'return': [
        ('lemma?', 'onsite_flat', ['g1', '0 - 1', 'N']),
        ('lemma', 'acq_antisym', ['g1', 'g2', 'N']),
        ('lemma', 'acq_antisym', ['g1', "at('if0.before', g2)", 'N'], 'optional'),
        ('lemma?', 'acq_diff2', ["at('if0.before', g2)", 'g2', 'g1', 'N', 'i', 'i'], 'optional'),
    ], 'if0.before': []},
)

# ------------------------------------------------------------------ C01 / C15: all pairwise products of two term lists
_bd_prev = ['forall(a, 0, j1, forall(b, 0, L2, ps[a][b] == (ps1[a] + ps2[b] + IpowSum(gs1[a], gs2[b], N2 // 2)) % 4))',
            'forall(a, 0, j1, forall(b, 0, L2, same(gs[a][b], Xor(gs1[a], gs2[b]))))',
            'forall(a, 0, j1, forall(b, 0, L2, cs[a][b] == cmul(cs1[a], cs2[b])))']
_bd_shapes = ['gs.shape[0] == L1', 'gs.shape[1] == L2', 'gs.shape[2] == N2', 'rows(ps) == L1', 'cols(ps) == L2', 'rows(cs) == L1', 'cols(cs) == L2',
              'cols(gs1) == N2', 'cols(gs2) == N2']
CONTRACTS[U + 'batch_dot'] = dict(
    params=[('gs1', 'int2'), ('ps1', 'int1'), ('cs1', 'cplx1'), ('gs2', 'int2'), ('ps2', 'int1'), ('cs2', 'cplx1')],
    requires=['cols(gs1) == cols(gs2)', 'len(ps1) == rows(gs1)', 'len(cs1) == rows(gs1)', 'len(ps2) == rows(gs2)', 'len(cs2) == rows(gs2)',
              'bits2(gs1)', 'bits2(gs2)'],
    # term j1*L2 + j2 of the result is the product of term j1 of the first and term j2 of the second list: string = sum mod 2,
    # phase = p1 + p2 + product phase (oracle table) mod 4, coefficient = product of the coefficients
    ensures=['rows(result[0]) == rows(gs1) * rows(gs2)', 'cols(result[0]) == cols(gs1)', 'len(result[1]) == rows(gs1) * rows(gs2)',
             'len(result[2]) == rows(gs1) * rows(gs2)',
             'forall(a, 0, rows(gs1), forall(b, 0, rows(gs2), forall(c, 0, cols(gs1), '
             'result[0][a * rows(gs2) + b][c] == (gs1[a][c] + gs2[b][c]) % 2)))',
             'forall(a, 0, rows(gs1), forall(b, 0, rows(gs2), '
             'result[1][a * rows(gs2) + b] == (ps1[a] + ps2[b] + IpowSum(gs1[a], gs2[b], cols(gs1) // 2)) % 4))',
             'forall(a, 0, rows(gs1), forall(b, 0, rows(gs2), result[2][a * rows(gs2) + b] == cmul(cs1[a], cs2[b])))'],
    modifies=[], returns=('int2 fresh', 'int1 fresh', 'cplx1 fresh'),
    loops={0: dict(var='j1', invariant=_bd_shapes + _bd_prev),
           1: dict(var='j2', invariant=_bd_shapes + _bd_prev + ['0 <= j1 < L1',
               'forall(b, 0, j2, ps[j1][b] == (ps1[j1] + ps2[b] + IpowSum(gs1[j1], gs2[b], N2 // 2)) % 4)',
               'forall(b, 0, j2, same(gs[j1][b], Xor(gs1[j1], gs2[b])))',
               'forall(b, 0, j2, cs[j1][b] == cmul(cs1[j1], cs2[b]))'])},
)

# ------------------------------------------------------------------ group-level consequences (lemmas over the contracts)
LEMMAS['mul_assoc'] = dict(
    doc='C01: the product phase is a 2-cocycle, i.e. products are associative: (a b) c = a (b c) with the exact power of i',
    params=[('a', 'int1'), ('b', 'int1'), ('c', 'int1'), ('n', 'int')],
    requires=['bits(a, 2 * n)', 'bits(b, 2 * n)', 'bits(c, 2 * n)'],
    ensures=['(IpowSum(a, b, n) + IpowSum(Xor(a, b), c, n) - IpowSum(b, c, n) - IpowSum(a, Xor(b, c), n)) % 4 == 0'],
    induction='n',
)
LEMMAS['mul_square'] = dict(
    doc='C01: every Pauli string squares to the identity string with no extra phase, so (g,p)^2 = (0, 2p): plus or minus identity',
    params=[('a', 'int1'), ('n', 'int')],
    requires=['bits(a, 2 * n)'],
    ensures=['IpowSum(a, a, n) == 0', 'forall(c, 0, 2 * n, Xor(a, a)[c] == 0)'],
    induction='n',
)
LEMMAS['rotate_twice'] = dict(
    doc='C02: for P anticommuting with G the two product phases of (P G) G cancel mod 4 and the anticommutation persists; with the '
        'row contract of clifford_rotate this gives rotate(-G) after rotate(G) = identity and rotate(G)^2 = -1 on such P, hence ^4 = identity',
    params=[('P', 'int1'), ('G', 'int1'), ('n', 'int')],
    requires=['bits(P, 2 * n)', 'bits(G, 2 * n)'],
    ensures=['(IpowSum(P, G, n) + IpowSum(Xor(P, G), G, n)) % 4 == 0',
             '(AcqSum(G, Xor(P, G), n) - AcqSum(G, P, n)) % 2 == 0',
             'forall(c, 0, 2 * n, Xor(Xor(P, G), G)[c] == P[c])'],
    induction='n',
)

# ------------------------------------------------------------------ C03: a valid map preserves commutation relations
# map order: rows 2i, 2i+1 are the images of X_i, Z_i; partner(l) = l + 1 (l even), l - 1 (l odd)
PREDS['partner'] = (('l',), 'l + 1 if l % 2 == 0 else l - 1')
PREDS['gram_map'] = (('M', 'N'),
                     'forall(a, 0, 2 * N, forall(b, 0, 2 * N, AcqSum(M[a], M[b], N) % 2 == b2i(b == partner(a))))')
LEMMAS['selacq_map'] = dict(
    doc='for an image row of a valid map only its partner image contributes to a selected sum of symplectic forms',
    params=[('sel', 'int1'), ('M', 'int2'), ('n', 'int'), ('l', 'int'), ('N', 'int')],
    requires=['gram_map(M, N)', '0 <= l < 2 * N', 'n <= 2 * N'],
    ensures=['SelAcq(sel, M, n, M[l], N) % 2 == b2i(0 <= partner(l) and partner(l) < n and sel[partner(l)] != 0)'],
    induction='n',
)
LEMMAS['selacq_image'] = dict(
    doc='sum over the rows selected by b of the symplectic form of Img(a) with the row = sum_l b_l a_partner(l)  (mod 2)',
    params=[('a', 'int1'), ('b', 'int1'), ('M', 'int2'), ('n', 'int'), ('N', 'int')],
    requires=['N >= 0', 'gram_map(M, N)', 'bits2(M)', 'rows(M) == 2 * N', 'cols(M) == 2 * N', 'bits(a, 2 * N)', 'bits(b, 2 * N)', 'n <= 2 * N'],
    ensures=['(SelAcq(b, M, n, OrdGRow(a, M, 2 * N), N) - PartnerSum(a, b, n)) % 2 == 0'],
    induction='n',
    uses_step=[('forall_lemma', [('c', '0', '2 * N')], 'ordg_bits', ['a', 'M', '2 * N', 'c']),
               ('lemma', 'ordg_acq', ['a', 'M', '2 * N', 'M[n - 1]', 'N']),
               ('lemma', 'selacq_map', ['a', 'M', '2 * N', 'n - 1', 'N']),
               ('lemma', 'acq_antisym', ['M[n - 1]', 'OrdGRow(a, M, 2 * N)', 'N'])],
    uses=[],
)
LEMMAS['partnersum_acq'] = dict(
    doc='sum_l b_l a_partner(l) over the first 2m positions has the parity of the symplectic form of a and b on the first m qubits',
    params=[('a', 'int1'), ('b', 'int1'), ('m', 'int')],
    requires=['bits(a, 2 * m)', 'bits(b, 2 * m)'],
    ensures=['(PartnerSum(a, b, 2 * m) - AcqSum(a, b, m)) % 2 == 0'],
    induction='m', fuel=2,
)
LEMMAS['transform_preserves_acq'] = dict(
    doc='C03: images under a valid map commute exactly when the originals do (the map is a symplectic transformation)',
    params=[('a', 'int1'), ('b', 'int1'), ('M', 'int2'), ('N', 'int')],
    requires=['N >= 0', 'gram_map(M, N)', 'bits2(M)', 'rows(M) == 2 * N', 'cols(M) == 2 * N', 'bits(a, 2 * N)', 'bits(b, 2 * N)'],
    ensures=['(AcqSum(OrdGRow(a, M, 2 * N), OrdGRow(b, M, 2 * N), N) - AcqSum(a, b, N)) % 2 == 0'],
    uses=[('forall_lemma', [('c', '0', '2 * N')], 'ordg_bits', ['a', 'M', '2 * N', 'c']),
          ('lemma', 'ordg_acq', ['b', 'M', '2 * N', 'OrdGRow(a, M, 2 * N)', 'N']),
          ('lemma', 'selacq_image', ['a', 'b', 'M', '2 * N', 'N']),
          ('lemma', 'partnersum_acq', ['a', 'b', 'N'])],
)

# ------------------------------------------------------------------ C03 / C05: a valid map with Hermitian images keeps operators Hermitian
LEMMAS['ordp_parity'] = dict(
    doc='parity of the phase of the ordered product of selected images of a valid map: only the (X_i, Z_i) image pairs anticommute, '
        'so the odd powers of i are exactly the x.z products of the selection',
    params=[('g', 'int1'), ('M', 'int2'), ('pm', 'int1'), ('n', 'int'), ('N', 'int')],
    requires=['N >= 0', 'gram_map(M, N)', 'bits2(M)', 'rows(M) == 2 * N', 'cols(M) == 2 * N', 'bits(g, 2 * N)', 'n <= 2 * N',
              'forall(k, 0, 2 * N, pm[k] == 0 or pm[k] == 2)'],
    ensures=['(OrdP(g, M, pm, n, N) - XZPartial(g, n)) % 2 == 0'],
    induction='n',
    uses_step=[('forall_lemma', [('c', '0', '2 * N')], 'ordg_bits', ['g', 'M', 'n - 1', 'c']),
               ('lemma', 'ipow_parity', ['OrdGRow(g, M, n - 1)', 'M[n - 1]', 'N']),
               ('lemma', 'ordg_acq', ['g', 'M', 'n - 1', 'M[n - 1]', 'N']),
               ('lemma', 'acq_antisym', ['M[n - 1]', 'OrdGRow(g, M, n - 1)', 'N']),
               ('lemma', 'selacq_map', ['g', 'M', 'n - 1', 'n - 1', 'N'])],
    uses=[],
)
LEMMAS['xzpartial_full'] = dict(
    doc='the partial x.z sum over all 2m positions is the x.z sum over m qubits',
    params=[('g', 'int1'), ('m', 'int')],
    requires=[],
    ensures=['XZPartial(g, 2 * m) == XZSum(g, m)'],
    induction='m', fuel=2,
)


# ------------------------------------------------------------------ GF(2) linear algebra: z2inv (C04), z2rank (C08)
LEMMAS['dot_shift'] = dict(
    doc='the partial dot product depends only on the window u[off : off+m]',
    params=[('u', 'int1'), ('o1', 'int'), ('v', 'int1'), ('o2', 'int'), ('M', 'int2'), ('m', 'int'), ('c', 'int')],
    requires=['forall(k, 0, m, u[o1 + k] == v[o2 + k])'],
    ensures=['DotOff(u, o1, M, m, c) == DotOff(v, o2, M, m, c)'],
    induction='m',
)
LEMMAS['dot_add'] = dict(
    doc='the dot product is additive mod 2 in the row',
    params=[('u', 'int1'), ('v', 'int1'), ('w', 'int1'), ('off', 'int'), ('M', 'int2'), ('m', 'int'), ('c', 'int')],
    requires=['forall(k, 0, m, 0 <= u[off + k] <= 1 and 0 <= v[off + k] <= 1 and w[off + k] == (u[off + k] + v[off + k]) % 2)'],
    ensures=['(DotOff(w, off, M, m, c) - DotOff(u, off, M, m, c) - DotOff(v, off, M, m, c)) % 2 == 0'],
    induction='m',
)
LEMMAS['dot_unit'] = dict(
    doc='the dot product with a unit vector selects a row',
    params=[('u', 'int1'), ('off', 'int'), ('M', 'int2'), ('m', 'int'), ('c', 'int'), ('row', 'int')],
    requires=['0 <= row', 'forall(k, 0, m, u[off + k] == (1 if k == row else 0))'],
    ensures=['DotOff(u, off, M, m, c) == (M[row][c] if row < m else 0)'],
    induction='m',
)
LEMMAS['ordg_is_dot'] = dict(
    doc='the string part of an ordered product of selected rows is the GF(2) dot product of the selection with the rows',
    params=[('crow', 'int1'), ('gs', 'int2'), ('n', 'int'), ('c', 'int')],
    requires=['bits(crow, n)', 'forall(k, 0, n, 0 <= gs[k][c] <= 1)'],
    ensures=['OrdG(crow, gs, n, c) == DotOff(crow, 0, gs, n, c) % 2'],
    induction='n',
)

PREDS['aug'] = (('a', 'n'), ['rows(a) == n', 'cols(a) == 2 * n', 'bits2(a)'])
# the augmented-matrix relation of Gauss-Jordan inversion: left half == right half . mat  (mod 2), row by row
PREDS['augrel'] = (('a', 'mat', 'n'), 'forall(row, 0, n, forall(c, 0, n, a[row][c] == DotOff(a[row], n, mat, n, c) % 2))')
PREDS['lowzero'] = (('a', 'n', 'i'), 'forall(c, 0, i, forall(row, c + 1, n, a[row][c] == 0))')
PREDS['diagone'] = (('a', 'i'), 'forall(c, 0, i, a[c][c] == 1)')
PREDS['upzero'] = (('a', 'n', 'i'), 'forall(c, i + 1, n, forall(row, 0, c, a[row][c] == 0))')

_zi_fw = ['n == rows(mat)', 'n >= 1', 'cols(mat) == n', 'bits2(mat)', 'aug(a, n)', 'augrel(a, mat, n)']
_A3 = "at('loop3.pre', a)"
_A4 = "at('loop4.head', a)"
_A6 = "at('loop6.head', a)"


def _rowadd_hints(A, j, i):
    """after  a[j, i:] = (a[j, i:] + a[i, i:]) % 2  (A = the array before): additivity of the dot product for every column"""
    return [('forall_lemma', [('c', '0', 'n')], 'dot_add', ['%s[%s]' % (A, j), '%s[%s]' % (A, i), 'a[%s]' % j, 'n', 'mat', 'n', 'c'])]


CONTRACTS[U + 'z2inv'] = dict(
    params=[('mat', 'int2')],
    requires=['rows(mat) == cols(mat)', 'rows(mat) >= 1', 'bits2(mat)'],
    ensures=['rows(result) == rows(mat)', 'cols(result) == rows(mat)', 'bits2(result)',
             # result . mat == identity (mod 2): the returned matrix is a (left, hence two-sided) inverse over GF(2)
             'forall(j, 0, rows(mat), forall(c, 0, rows(mat), DotOff(result[j], 0, mat, rows(mat), c) % 2 == (1 if j == c else 0)))',
             'forall(j, 0, rows(mat), forall(c, 0, rows(mat), OrdG(result[j], mat, rows(mat), c) == (1 if j == c else 0)))'],
    may_raise=['ValueError'],             # partial correctness: "raises only for singular input" is checked bounded (C04)
    modifies=[], returns='int2 fresh',
    loops={
        0: dict(var='i', invariant=['n == rows(mat)', 'n >= 1', 'cols(mat) == n', 'bits2(mat)', 'aug(a, n)',
                                    'forall(row, 0, n, forall(c, 0, n, a[row][c] == mat[row][c]))',
                                    'forall(row, 0, n, forall(k, 0, n, a[row][n + k] == (1 if (k == row and row < i) else 0)))'],
                hints_exit=[('forall_lemma', [('row', '0', 'n'), ('c', '0', 'n')], 'dot_unit', ['a[row]', 'n', 'mat', 'n', 'c', 'row'])]),
        1: dict(var='i', invariant=_zi_fw + ['lowzero(a, n, i)', 'diagone(a, i)']),
        2: dict(var='k', invariant=['not found', 'forall(kk, i + 1, k, a[kk][i] == 0)']),
        3: dict(var='j', invariant=['n == rows(mat)', 'aug(a, n)', '0 <= i < k < n',
                                    'forall(row, 0, n, row == i or row == k or same(a[row], %s[row]))' % _A3,
                                    'forall(c, 0, 2 * n, a[i][c] == (%s[k][c] if (i <= c and c < j) else %s[i][c]))' % (_A3, _A3),
                                    'forall(c, 0, 2 * n, a[k][c] == (%s[i][c] if (i <= c and c < j) else %s[k][c]))' % (_A3, _A3)],
                hints_exit=[('forall_lemma', [('c', '0', 'n')], 'dot_shift', ['a[i]', 'n', '%s[k]' % _A3, 'n', 'mat', 'n', 'c']),
                            ('forall_lemma', [('c', '0', 'n')], 'dot_shift', ['a[k]', 'n', '%s[i]' % _A3, 'n', 'mat', 'n', 'c'])]),
        4: dict(var='j', invariant=_zi_fw + ['0 <= i < n', 'lowzero(a, n, i)', 'diagone(a, i + 1)', 'forall(row, i + 1, j, a[row][i] == 0)']),
        5: dict(var='i', invariant=_zi_fw + ['lowzero(a, n, n)', 'diagone(a, n)', 'upzero(a, n, i)']),
        6: dict(var='j', invariant=_zi_fw + ['1 <= i < n', 'lowzero(a, n, n)', 'diagone(a, n)', 'upzero(a, n, i)', 'forall(row, 0, j, a[row][i] == 0)']),
    },
    hints={
        'if3.then.end': _rowadd_hints(_A4, 'j', 'i'),
        'if4.then.end': _rowadd_hints(_A6, 'j', 'i'),
        'return': [('forall_lemma', [('j', '0', 'n'), ('c', '0', 'n')], 'dot_shift', ['result[j]', '0', 'a[j]', 'n', 'mat', 'n', 'c']),
                   ('forall_lemma', [('j', '0', 'n'), ('c', '0', 'n')], 'ordg_is_dot', ['result[j]', 'mat', 'n', 'c'])],
    },
)

# ---- z2rank: Gaussian elimination keeps the rank (row swaps / row additions) and ends in an echelon form
LEMMAS['lead_range'] = dict(
    doc='the leading column of a row lies in 0..n',
    params=[('row', 'int1'), ('n', 'int')], requires=['n >= 0'],
    ensures=['0 <= Lead(row, n) <= n'], induction='n',
)
LEMMAS['lead_char'] = dict(
    doc='a row that vanishes before column i and not at column i has leading column i',
    params=[('row', 'int1'), ('n', 'int'), ('i', 'int')],
    requires=['0 <= i < n', 'forall(c, 0, i, row[c] == 0)', 'row[i] != 0'],
    ensures=['Lead(row, n) == i'], induction='n',
    uses_step=[('lemma?', 'lead_zero', ['row', 'n - 1'])],
)
LEMMAS['lead_zero'] = dict(
    doc='a vanishing row has no leading column',
    params=[('row', 'int1'), ('n', 'int')],
    requires=['n >= 0', 'forall(c, 0, n, row[c] == 0)'],
    ensures=['Lead(row, n) == n'], induction='n',
)
_rank_axiom = ('classical linear algebra over GF(2), not proved here (Z2Rank is abstract for the solver); the statement is evaluated '
               'natively against the independent executable definition of Z2Rank on generated matrices in every run: ')
LEMMAS['rank_swap'] = dict(
    axiom=_rank_axiom + 'exchanging two rows does not change the rank',
    params=[('A', 'int2'), ('B', 'int2'), ('nr', 'int'), ('nc', 'int'), ('i', 'int'), ('k', 'int')],
    requires=['0 <= i < nr', '0 <= k < nr',
              'forall(c, 0, nc, B[i][c] == A[k][c] and B[k][c] == A[i][c])',
              'forall(row, 0, nr, forall(c, 0, nc, row == i or row == k or B[row][c] == A[row][c]))'],
    ensures=['Z2Rank(B, nr, nc) == Z2Rank(A, nr, nc)'],
)
LEMMAS['rank_rowadd'] = dict(
    axiom=_rank_axiom + 'adding one row to a different row (mod 2) does not change the rank',
    params=[('A', 'int2'), ('B', 'int2'), ('nr', 'int'), ('nc', 'int'), ('j', 'int'), ('r', 'int')],
    requires=['0 <= j < nr', '0 <= r < nr', 'j != r',
              'forall(c, 0, nc, B[j][c] == (A[j][c] + A[r][c]) % 2)',
              'forall(row, 0, nr, forall(c, 0, nc, row == j or B[row][c] == A[row][c]))'],
    ensures=['Z2Rank(B, nr, nc) == Z2Rank(A, nr, nc)'],
)
LEMMAS['rank_echelon'] = dict(
    axiom=_rank_axiom + 'a 0/1 matrix whose first r rows have strictly increasing leading columns and whose other rows vanish has rank r',
    params=[('A', 'int2'), ('nr', 'int'), ('nc', 'int'), ('r', 'int')],
    requires=['0 <= r <= nr', 'nc >= 0', 'forall(row, 0, nr, forall(c, 0, nc, 0 <= A[row][c] <= 1))',
              'forall(k, 0, r, Lead(A[k], nc) < nc)',
              'forall(k, 0, r, forall(k2, k + 1, r, Lead(A[k], nc) < Lead(A[k2], nc)))',
              'forall(k, r, nr, Lead(A[k], nc) == nc)'],
    ensures=['Z2Rank(A, nr, nc) == r'],
)

_M0 = 'old(mat)'
_zr = ['nr == rows(mat)', 'nc == cols(mat)', 'nr >= 0', 'nc >= 0', 'bits2(mat)', '0 <= r <= nr', 'r <= i',
       'Z2Rank(mat, nr, nc) == Z2Rank(%s, nr, nc)' % _M0,
       'forall(row, r, nr, forall(c, 0, i, mat[row][c] == 0))',
       'forall(k, 0, r, Lead(mat[k], nc) < i)',
       'forall(k, 0, r, forall(k2, k + 1, r, Lead(mat[k], nc) < Lead(mat[k2], nc)))']
_R2 = "at('loop2.pre', mat)"
_R3 = "at('loop3.head', mat)"
CONTRACTS[U + 'z2rank'] = dict(
    params=[('mat', 'int2')],
    requires=['bits2(mat)'],
    ensures=['result == Z2Rank(old(mat), rows(mat), cols(mat))', '0 <= result <= rows(mat)', 'result <= cols(mat)'],
    modifies=['mat'], returns='int',          # "mat is destroyed upon output" (docstring)
    loops={
        0: dict(var='i', invariant=_zr, locals={'found': 'bool', 'k': 'int', 'j': 'int', 'tmp': 'int'},
                hints_exit=[('forall_lemma', [('k', 'r', 'nr')], 'lead_zero', ['mat[k]', 'nc']),
                            ('lemma', 'rank_echelon', ['mat', 'nr', 'nc', 'r'])]),
        1: dict(var='k', invariant=['not found', 'forall(kk, r + 1, k, mat[kk][i] == 0)']),
        2: dict(var='j', invariant=['nr == rows(mat)', 'nc == cols(mat)', 'bits2(mat)', '0 <= r < k < nr', '0 <= i < nc',
                                    'forall(row, 0, nr, row == r or row == k or same(mat[row], %s[row]))' % _R2,
                                    'forall(c, 0, nc, mat[r][c] == (%s[k][c] if (i <= c and c < j) else %s[r][c]))' % (_R2, _R2),
                                    'forall(c, 0, nc, mat[k][c] == (%s[r][c] if (i <= c and c < j) else %s[k][c]))' % (_R2, _R2)],
                hints_exit=[('lemma', 'rank_swap', [_R2, 'mat', 'nr', 'nc', 'r', 'k'])]),
        3: dict(var='j', invariant=['nr == rows(mat)', 'nc == cols(mat)', 'nr >= 0', 'nc >= 0', 'bits2(mat)', '0 <= r < nr', '0 <= i < nc', 'r <= i',
                                    'Z2Rank(mat, nr, nc) == Z2Rank(%s, nr, nc)' % _M0,
                                    'forall(row, r, nr, forall(c, 0, i, mat[row][c] == 0))',
                                    'forall(k, 0, r, Lead(mat[k], nc) < i)',
                                    'forall(k, 0, r, forall(k2, k + 1, r, Lead(mat[k], nc) < Lead(mat[k2], nc)))',
                                    'mat[r][i] == 1', 'forall(row, r + 1, j, mat[row][i] == 0)'],
                hints_exit=[('lemma', 'lead_char', ['mat[r]', 'nc', 'i'])]),
    },
    hints={
        'return': [('forall_lemma', [('k', 'r', 'nr')], 'lead_zero', ['mat[k]', 'nc'], 'optional'),
                   ('lemma?', 'rank_echelon', ['mat', 'nr', 'nc', 'r'])],
        'if4.then.end': [('lemma', 'rank_rowadd', [_R3, 'mat', 'nr', 'nc', 'j', 'r'])],
    },
)

# ------------------------------------------------------------------ boolean-mask indexing (numpy semantics, assumed)
LEMMAS['mask_index'] = dict(
    axiom='encoding of numpy boolean-mask indexing a[:, m]: the selected positions in increasing order (MaskIdx), their number '
          '(MaskCnt) and the inverse position map (MaskPos); abstract for the solver, evaluated natively on generated masks in every run',
    params=[('m', 'int1'), ('n', 'int')],
    requires=['n >= 0'],
    ensures=['0 <= MaskCnt(m, n) <= n',
             'forall(k, 0, MaskCnt(m, n), 0 <= MaskIdx(m, n)[k] < n and m[MaskIdx(m, n)[k]] != 0 and MaskPos(m, n)[MaskIdx(m, n)[k]] == k)',
             'forall(k, 0, MaskCnt(m, n), forall(k2, k + 1, MaskCnt(m, n), MaskIdx(m, n)[k] < MaskIdx(m, n)[k2]))',
             'forall(c, 0, n, implies(m[c] != 0, 0 <= MaskPos(m, n)[c] < MaskCnt(m, n) and MaskIdx(m, n)[MaskPos(m, n)[c]] == c))',
             'MaskPos(m, n)[0] == 0', 'MaskPos(m, n)[n] == MaskCnt(m, n)',
             'forall(c, 0, n, MaskPos(m, n)[c + 1] == MaskPos(m, n)[c] + b2i(m[c] != 0))'],
)

LEMMAS['inq_exists'] = dict(
    doc='InQ is the characteristic function of the listed positions',
    params=[('q', 'int1'), ('n', 'int'), ('c', 'int')],
    requires=[],
    ensures=['0 <= InQ(q, n, c) <= 1', 'implies(InQ(q, n, c) == 1, exists(k, 0, n, q[k] == c))'],
    induction='n',
)
LEMMAS['inq_member'] = dict(
    doc='every listed position is a member',
    params=[('q', 'int1'), ('n', 'int'), ('k', 'int')],
    requires=['0 <= k < n'],
    ensures=['InQ(q, n, q[k]) == 1'],
    induction='n',
)
CONTRACTS[U + 'mask'] = dict(
    params=[('qubits', 'int1'), ('N', 'int')],
    # qubits: the tuple of qubit indices of a gate, as an integer sequence
    requires=['len(qubits) >= 1', 'forall(k, 0, len(qubits), 0 <= qubits[k] < N)'],
    ensures=['len(result) == N', 'forall(c, 0, N, result[c] == InQ(qubits, len(qubits), c))'],
    result_term='QMask(qubits, len(qubits), N)',
    modifies=[], returns='bool1 fresh',
    hints={'return': [('forall_lemma', [('c', '0', 'N')], 'inq_exists', ['qubits', 'len(qubits)', 'c']),
                      ('forall_lemma', [('k', '0', 'len(qubits)')], 'inq_member', ['qubits', 'len(qubits)', 'k'], {'trigger': 'qubits[k]'})]},
)


LEMMAS['acq_unit'] = dict(
    doc='the symplectic form with a unit string reads off the partner component',
    params=[('g', 'int1'), ('i', 'int'), ('m', 'int'), ('n', 'int')],
    requires=['0 <= i', 'm >= 2 * n'],
    ensures=['AcqSum(g, Unit(i, m), n) == ((g[i + 1] if i % 2 == 0 else 0 - g[i - 1]) if i < 2 * n else 0)'],
    induction='n',
)


# ---- a rotation of a subsystem is the rotation of the whole register by the padded generator
_E = 'Expand(g, Repeat2(mask), 2 * N)'
_Cx = 'Compress(x, Repeat2(mask), 2 * N)'
_P2 = 'MaskPos(Repeat2(mask), 2 * N)'
LEMMAS['expand_sums'] = dict(
    doc='symplectic form and product phase with a padded string = those of the compressed string with the small string',
    params=[('g', 'int1'), ('x', 'int1'), ('mask', 'int1'), ('N', 'int'), ('K', 'int')],
    requires=['len(mask) == N', '0 <= K <= N'],
    ensures=['%s[2 * K] %% 2 == 0' % _P2, '0 <= %s[2 * K]' % _P2,
             'AcqSum(%s, x, K) == AcqSum(g, %s, %s[2 * K] // 2)' % (_E, _Cx, _P2),
             'IpowSum(x, %s, K) == IpowSum(%s, g, %s[2 * K] // 2)' % (_E, _Cx, _P2)],
    induction='K',
    uses=[('lemma', 'mask_index', ['Repeat2(mask)', '2 * N'])],
    uses_step=[('lemma', 'mask_index', ['Repeat2(mask)', '2 * N']),
               ('assert', 'Repeat2(mask)[2 * K - 2] == mask[K - 1] and Repeat2(mask)[2 * K - 1] == mask[K - 1]'),
               ('assert', '%(P)s[2 * K - 1] == %(P)s[2 * K - 2] + b2i(mask[K - 1] != 0)' % dict(P=_P2)),
               ('assert', '%(P)s[2 * K] == %(P)s[2 * K - 1] + b2i(mask[K - 1] != 0)' % dict(P=_P2)),
               ('assert', 'implies(mask[K - 1] != 0, MaskIdx(Repeat2(mask), 2 * N)[%(P)s[2 * K - 2]] == 2 * K - 2 and '
                          'MaskIdx(Repeat2(mask), 2 * N)[%(P)s[2 * K - 1]] == 2 * K - 1)' % dict(P=_P2)),
               ('assert', '%(E)s[2 * K - 2] == (g[%(P)s[2 * K - 2]] if mask[K - 1] != 0 else 0) and '
                          '%(E)s[2 * K - 1] == (g[%(P)s[2 * K - 1]] if mask[K - 1] != 0 else 0)' % dict(E=_E, P=_P2)),
               ('assert', 'implies(mask[K - 1] != 0, %(C)s[%(P)s[2 * K - 2]] == x[2 * K - 2] and %(C)s[%(P)s[2 * K - 1]] == x[2 * K - 1])' % dict(C=_Cx, P=_P2)),
               ('assert', '%(P)s[2 * K - 2] %% 2 == 0 and 0 <= %(P)s[2 * K - 2]' % dict(P=_P2)),
               ('focus',),
               ],
)

# ---- a map applied to a subsystem: the symplectic form splits into the selected qubits (compressed strings) and the rest
_Cy = 'Compress(y, Repeat2(mask), 2 * N)'
LEMMAS['split_acq'] = dict(
    doc='symplectic sum = sum over the selected qubits (of the compressed strings) + sum over the unselected qubits',
    params=[('x', 'int1'), ('y', 'int1'), ('mask', 'int1'), ('N', 'int'), ('K', 'int')],
    requires=['len(mask) == N', '0 <= K <= N'],
    ensures=['%s[2 * K] %% 2 == 0' % _P2, '0 <= %s[2 * K]' % _P2,
             'AcqSum(x, y, K) == AcqSum(%s, %s, %s[2 * K] // 2) + AcqOut(x, y, mask, K)' % (_Cx, _Cy, _P2)],
    induction='K',
    uses=[('lemma', 'mask_index', ['Repeat2(mask)', '2 * N'])],
    uses_step=[('lemma', 'mask_index', ['Repeat2(mask)', '2 * N']),
               ('assert', 'Repeat2(mask)[2 * K - 2] == mask[K - 1] and Repeat2(mask)[2 * K - 1] == mask[K - 1]'),
               ('assert', '%(P)s[2 * K - 1] == %(P)s[2 * K - 2] + b2i(mask[K - 1] != 0)' % dict(P=_P2)),
               ('assert', '%(P)s[2 * K] == %(P)s[2 * K - 1] + b2i(mask[K - 1] != 0)' % dict(P=_P2)),
               ('assert', 'implies(mask[K - 1] != 0, MaskIdx(Repeat2(mask), 2 * N)[%(P)s[2 * K - 2]] == 2 * K - 2 and '
                          'MaskIdx(Repeat2(mask), 2 * N)[%(P)s[2 * K - 1]] == 2 * K - 1)' % dict(P=_P2)),
               ('assert', 'implies(mask[K - 1] != 0, %(C)s[%(P)s[2 * K - 2]] == x[2 * K - 2] and %(C)s[%(P)s[2 * K - 1]] == x[2 * K - 1])' % dict(C=_Cx, P=_P2)),
               ('assert', 'implies(mask[K - 1] != 0, %(C)s[%(P)s[2 * K - 2]] == y[2 * K - 2] and %(C)s[%(P)s[2 * K - 1]] == y[2 * K - 1])' % dict(C=_Cy, P=_P2)),
               ('assert', '%(P)s[2 * K - 2] %% 2 == 0 and 0 <= %(P)s[2 * K - 2]' % dict(P=_P2)),
               ('focus',)],
)
LEMMAS['acqout_ext'] = dict(
    doc='the unselected part only reads the columns of the unselected qubits',
    params=[('x', 'int1'), ('x2', 'int1'), ('y', 'int1'), ('y2', 'int1'), ('mask', 'int1'), ('K', 'int')],
    requires=['forall(k, 0, K, implies(mask[k] == 0, x[2 * k] == x2[2 * k] and x[2 * k + 1] == x2[2 * k + 1] and '
              'y[2 * k] == y2[2 * k] and y[2 * k + 1] == y2[2 * k + 1]))'],
    ensures=['AcqOut(x, y, mask, K) == AcqOut(x2, y2, mask, K)'],
    induction='K',
)

# ------------------------------------------------------------------ C08: the entropy kernel returns the textbook rank formulas
# mixed (L generators of an N-qubit state, L != N):  S(A) = |A| - (L - rank of the generators restricted to the complement of A)
# pure  (L == N):  S(A) = 1/2 rank of the anticommutation matrix of the generators that act on both sides, restricted to A
# (that these rank formulas ARE the von Neumann entropy of the reduced state is the mathematical bridge, cross-checked densely)
_eM2 = 'Repeat2(mask)'
_eIn = 'Cols(gs, %s, cols(gs))' % _eM2
_eOut = 'Cols(gs, Not1(%s), cols(gs))' % _eM2
_eCnt = 'MaskCnt(%s, cols(gs))' % _eM2
_eCntC = 'MaskCnt(Not1(%s), cols(gs))' % _eM2
_eAcross = 'And1(Nz(RowSums(%s, %s)), Nz(RowSums(%s, %s)))' % (_eIn, _eCnt, _eOut, _eCntC)
_eLa = 'MaskCnt(%s, rows(gs))' % _eAcross
_eGA = 'Cols(Rows(gs, %s, rows(gs)), %s, cols(gs))' % (_eAcross, _eM2)
CONTRACTS[U + 'stabilizer_entropy'] = dict(
    params=[('gs', 'int2'), ('mask', 'bool1')],
    requires=['cols(gs) == 2 * len(mask)', 'bits2(gs)', 'rows(gs) <= cols(gs) // 2'],       # L = N - r generators
    ensures=['implies(rows(gs) != cols(gs) // 2, result == RowSum(mask, len(mask)) - (rows(gs) - Z2Rank(%s, rows(gs), %s)))' % (_eOut, _eCntC),
             'implies(rows(gs) == cols(gs) // 2, result == Z2Rank(AcqMat(%s, %s, %s // 2), %s, %s) // 2)' % (_eGA, _eLa, _eCnt, _eLa, _eLa)],
    modifies=[], returns='int',
)

# ------------------------------------------------------------------ C16: a random Pauli map is a valid (block-diagonal) Clifford map
LEMMAS['acq_local'] = dict(
    doc='a string supported on one qubit has a symplectic form that only reads that qubit',
    params=[('x', 'int1'), ('y', 'int1'), ('n', 'int'), ('k', 'int')],
    requires=['forall(c, 0, 2 * n, implies(c != 2 * k and c != 2 * k + 1, x[c] == 0))'],
    ensures=['AcqSum(x, y, n) == (qterm(x, y, k) if (0 <= k and k < n) else 0)'],
    induction='n',
)
_rp_rows = ['forall(a, 0, 2 * i, forall(c, 0, 2 * N, implies(c != 2 * (a // 2) and c != 2 * (a // 2) + 1, gs[a][c] == 0)))',
            'forall(a, 0, 2 * i, forall(b, 0, 2 * i, AcqSum(gs[a], gs[b], N) % 2 == b2i(b == partner(a))))']
CONTRACTS[U + 'random_pauli'] = dict(
    params=[('N', 'int')],
    requires=['N >= 0'],
    # whatever is drawn: every (X_i, Z_i) image pair sits on qubit i alone and anticommutes -- the canonical commutation relations
    ensures=['rows(result) == 2 * N', 'cols(result) == 2 * N', 'bits2(result)', 'gram_map(result, N)',
             'forall(a, 0, 2 * N, forall(c, 0, 2 * N, implies(c != 2 * (a // 2) and c != 2 * (a // 2) + 1, result[a][c] == 0)))'],
    modifies=[], returns='int2 fresh',
    loops={0: dict(var='i', invariant=['rows(gs) == 2 * N', 'cols(gs) == 2 * N', 'bits2(gs)'] + _rp_rows +
                   ['forall(r_, 2 * i, 2 * N, forall(c, 0, 2 * N, gs[r_][c] == 0))'],
                   locals={'g1': 'int1', 'g2': 'int1'},
                   hints_end=[('assert', 'AcqSum(g1, g2, 0) == 0'),
                              ('assert', 'qterm(gs[2 * i], gs[2 * i + 1], i) == g1[1] * g2[0] - g1[0] * g2[1]'),
                              ('lemma', 'acq_local', ['gs[2 * i]', 'gs[2 * i + 1]', 'N', 'i']),
                              ('lemma', 'acq_antisym', ['gs[2 * i]', 'gs[2 * i + 1]', 'N']),
                              ('lemma', 'acq_antisym', ['gs[2 * i + 1]', 'gs[2 * i + 1]', 'N']),
                              ('forall_lemma', [('a', '0', '2 * i')], 'acq_local', ['gs[2 * i]', 'gs[a]', 'N', 'i']),
                              ('forall_lemma', [('a', '0', '2 * i')], 'acq_local', ['gs[2 * i + 1]', 'gs[a]', 'N', 'i']),
                              ('forall_lemma', [('a', '0', '2 * i')], 'acq_antisym', ['gs[a]', 'gs[2 * i]', 'N']),
                              ('forall_lemma', [('a', '0', '2 * i')], 'acq_antisym', ['gs[a]', 'gs[2 * i + 1]', 'N'])])},
)

# ------------------------------------------------------------------ C18 / C02: condense = restriction of a string to its support
LEMMAS['mask_ext'] = dict(
    axiom='the abstract index functions of a boolean mask depend only on its entries 0..n-1 (they are defined from those entries); '
          'evaluated natively on generated masks in every run',
    params=[('m', 'int1'), ('m2', 'int1'), ('n', 'int')],
    requires=['n >= 0', 'forall(c, 0, n, b2i(m[c] != 0) == b2i(m2[c] != 0))'],
    ensures=['MaskCnt(m, n) == MaskCnt(m2, n)', 'forall(k, 0, MaskCnt(m, n), MaskIdx(m, n)[k] == MaskIdx(m2, n)[k])',
             'forall(c, 0, n + 1, MaskPos(m, n)[c] == MaskPos(m2, n)[c])'],
)
_sm = 'SuppMask(g, len(g) // 2)'
CONTRACTS[U + 'condense'] = dict(
    params=[('g', 'int1')],
    requires=['len(g) % 2 == 0'],
    ensures=['len(result[0]) == MaskCnt(Repeat2(%s), len(g))' % _sm, 'len(result[1]) == MaskCnt(%s, len(g) // 2)' % _sm,
             'forall(k, 0, len(result[0]), result[0][k] == Compress(g, Repeat2(%s), len(g))[k])' % _sm,
             'forall(k, 0, len(result[1]), result[1][k] == MaskIdx(%s, len(g) // 2)[k])' % _sm],
    result_term=('Compress(g, Repeat2(%s), len(g))' % _sm, 'Compress(Arange(len(g) // 2), %s, len(g) // 2)' % _sm),
    modifies=[], returns=('int1 fresh', 'int1 fresh'),
    loops={0: dict(var='i', invariant=['len(mask) == N', 'forall(k, 0, i, mask[k] == SuppMask(g, N)[k])', 'forall(k, i, N, mask[k] == 0)',
                                       'forall(k, 0, N, 0 <= mask[k] <= 1)'])},
    hints={'return': [('lemma', 'mask_ext', ['mask', 'SuppMask(g, N)', 'N']),
                      ('assert_from', 'forall(c, 0, 2 * N, Repeat2(mask)[c] == Repeat2(SuppMask(g, N))[c])',
                       ['forall(k, 0, N, mask[k] == SuppMask(g, N)[k])', 'N >= 0']),
                      ('lemma', 'mask_ext', ['Repeat2(mask)', 'Repeat2(SuppMask(g, N))', '2 * N']),
                      ('lemma', 'mask_index', ['SuppMask(g, N)', 'N']),
                      ('lemma', 'mask_index', ['Repeat2(SuppMask(g, N))', '2 * N'])]},
)

# ------------------------------------------------------------------ C16 / C18: pauli_diagonalize2
# signless rotation of a string x by a generator r: multiplied in exactly when they anticommute
PREDS['rot'] = (('r', 'x', 'N'), 'Xor(x, r) if AcqSum(r, x, N) % 2 == 1 else x')
PREDS['eqn'] = (('a', 'b', 'n'), 'forall(c, 0, n, a[c] == b[c])')
LEMMAS['rot_preserve'] = dict(
    doc='rotating two strings by the same generator preserves their commutation relation',
    params=[('r', 'int1'), ('a', 'int1'), ('b', 'int1'), ('N', 'int')],
    requires=['bits(r, 2 * N)', 'bits(a, 2 * N)', 'bits(b, 2 * N)'],
    ensures=['(AcqSum(rot(r, a, N), rot(r, b, N), N) - AcqSum(a, b, N)) % 2 == 0'],
    uses=[('lemma', 'acq_bilinear', ['a', 'r', 'b', 'N']),
          ('lemma', 'acq_bilinear', ['a', 'r', 'Xor(b, r)', 'N']),
          ('lemma', 'acq_bilinear', ['b', 'r', 'a', 'N']),
          ('lemma', 'acq_bilinear', ['b', 'r', 'Xor(a, r)', 'N']),
          ('lemma', 'acq_bilinear', ['b', 'r', 'r', 'N']),
          ('lemma', 'acq_bilinear', ['a', 'r', 'r', 'N']),
          ('lemma', 'acq_antisym', ['r', 'r', 'N']),
          ('lemma', 'acq_antisym', ['a', 'r', 'N']),
          ('lemma', 'acq_antisym', ['b', 'r', 'N']),
          ('lemma', 'acq_antisym', ['a', 'b', 'N'])],
)

_d2N = 'N'
_o1, _o2 = 'old(g1)', 'old(g2)'
_s1g1, _s1g2 = "at('if1.then.end', g1)", "at('if1.then.end', g2)"
_s2g1, _s2g2 = "at('if0.then.end', g1)", "at('if0.then.end', g2)"


def _d2_step(gen, b1, b2, with_unit=False):
    """ghost assertions after one rotation step `g1 = rot(gen, b1); g2 = rot(gen, b2)` of pauli_diagonalize2 (b1, b2: the values before)"""
    out = [
        ('assert', 'bits(%s, 2 * N) and bits(g1, 2 * N) and bits(g2, 2 * N)' % gen),
        ('assert', 'eqn(g1, rot(%s, %s, N), 2 * N)' % (gen, b1)),
        ('assert', 'eqn(g2, rot(%s, %s, N), 2 * N)' % (gen, b2)),
        # the pair still anticommutes
        ('assert_from', 'anti(g1, g2, N)',
         ['anti(%s, %s, N)' % (b1, b2), 'eqn(g1, rot(%s, %s, N), 2 * N)' % (gen, b1), 'eqn(g2, rot(%s, %s, N), 2 * N)' % (gen, b2),
          'bits(%s, 2 * N) and bits(%s, 2 * N) and bits(%s, 2 * N)' % (gen, b1, b2),
          ('lemma', 'rot_preserve', [gen, b1, b2, 'N']),
          ('lemma', 'acqsum_ext', ['g1', 'rot(%s, %s, N)' % (gen, b1), 'g2', 'N']),
          ('lemma', 'acqsum_ext', ['g2', 'rot(%s, %s, N)' % (gen, b2), 'rot(%s, %s, N)' % (gen, b1), 'N'])]),
    ]
    if with_unit:
        out.append(('assert', 'unitZ(g1, i0, N)'))
    return out



def _d2_unit_facts(b1, b2):
    """from unitZ(b1) and anti(b1, b2): the x component of b2 on qubit i0 is 1"""
    return [('assert_from', '%s[2 * i0] == 1' % b2,
             ['unitZ(%s, i0, N)' % b1, 'anti(%s, %s, N)' % (b1, b2), 'bits(%s, 2 * N)' % b2, '0 <= i0 and i0 < N',
              ('lemma', 'acq_local', [b1, b2, 'N', 'i0'])])]


def _d2_block3(b2):
    """ghost assertions after the third block `g = b2 with Z on qubit i0; g2 = (b2 + g) % 2` (g1 is the unit Z string, b2 anticommutes with it)"""
    return (_d2_unit_facts('g1', b2) + [
        ('lemma', 'acq_antisym', [b2, b2, 'N'], 'optional'),
        ('lemma?', 'acq_diff2', [b2, 'g', b2, 'N', 'i0', 'i0'], 'optional'),
        ('assert', 'anti(g, %s, N)' % b2, 'optional'),
        ('lemma', 'acq_local', ['g1', 'g', 'N', 'i0'], 'optional'),
        ('lemma', 'acq_antisym', ['g', 'g1', 'N'], 'optional'),
        ('assert', 'not anti(g, g1, N)', 'optional'),
        ('assert', 'bits(g, 2 * N) and bits(g2, 2 * N)', 'optional'),
        ('assert', 'eqn(g2, rot(g, %s, N), 2 * N)' % b2, 'optional'),
        ('assert', 'eqn(g1, rot(g, g1, N), 2 * N)', 'optional'),
        ('assert', 'g2[2 * i0] == 1 and forall(c, 0, 2 * N, implies(c != 2 * i0 and c != 2 * i0 + 1, g2[c] == 0))', 'optional'),
    ])


# first block skipped: g1 is trivial off qubit i0 and has no X component there; it is not the identity (it anticommutes with g2): it is Z on i0
_d2_none_facts = [('lemma?', 'onsite_flat', [_o1, 'i0', 'N']), ('lemma?', 'acq_zero', [_o2, _o1, 'N']),
                  ('assert', 'unitZ(%s, i0, N)' % _o1)]
_d2_chain1 = lambda x: 'rot(result[0][0], %s, N)' % x
_d2_chain2 = lambda x: 'rot(result[0][1], rot(result[0][0], %s, N), N)' % x
_d2_chain3 = lambda x: 'rot(result[0][2], rot(result[0][1], rot(result[0][0], %s, N), N), N)' % x
CONTRACTS[U + 'pauli_diagonalize2'] = dict(
    params=[('g1', 'int1'), ('g2', 'int1'), ('i0', 'int')], defaults={'i0': 0},
    requires=['len(g1) % 2 == 0', 'len(g2) == len(g1)', '0 <= i0 < len(g1) // 2', 'bits1(g1)', 'bits1(g2)', 'anti(g1, g2, len(g1) // 2)'],
    # the returned generators, applied in order as signless rotations to BOTH strings, turn the anticommuting pair into (Z, X or Y) on qubit i0
    ensures=['len(result[0]) <= 3', 'len(result[1]) == len(old(g1))', 'len(result[2]) == len(old(g1))',
             'unitZ(result[1], i0, len(old(g1)) // 2)',
             'result[2][2 * i0] == 1',
             'forall(c, 0, len(old(g1)), implies(c != 2 * i0 and c != 2 * i0 + 1, result[2][c] == 0))',
             'bits1(result[1])', 'bits1(result[2])',
             'implies(len(result[0]) >= 1, len(result[0][0]) == len(old(g1)) and bits1(result[0][0]))',
             'implies(len(result[0]) >= 2, len(result[0][1]) == len(old(g1)) and bits1(result[0][1]))',
             'implies(len(result[0]) >= 3, len(result[0][2]) == len(old(g1)) and bits1(result[0][2]))',
             'implies(len(result[0]) == 0, eqn(result[1], %s, 2 * N) and eqn(result[2], %s, 2 * N))' % (_o1, _o2),
             'implies(len(result[0]) == 1, eqn(result[1], %s, 2 * N) and eqn(result[2], %s, 2 * N))' % (_d2_chain1(_o1), _d2_chain1(_o2)),
             'implies(len(result[0]) == 2, eqn(result[1], %s, 2 * N) and eqn(result[2], %s, 2 * N))' % (_d2_chain2(_o1), _d2_chain2(_o2)),
             'implies(len(result[0]) == 3, eqn(result[1], %s, 2 * N) and eqn(result[2], %s, 2 * N))' % (_d2_chain3(_o1), _d2_chain3(_o2))],
    modifies=[], returns=(('list', 'int1', 3), 'int1', 'int1'),
    hints={
        'if1.then.end': [
            ('lemma', 'acq_antisym', [_o1, _o1, 'N']),
            ('lemma?', 'acq_zero', [_o2, _o1, 'N']),
            ('lemma?', 'acq_diff2', [_o1, 'g', _o1, 'N', 'i', 'i0'], 'optional'),
            ('lemma?', 'acq_diff2', [_o1, 'g', _o1, 'N', 'i0', 'i0']),
            ('assert', 'anti(g, %s, N)' % _o1),
        ] + _d2_step('g', _o1, _o2),
        'if0.then.end': [
            # after the first block (the snapshot exists): the second generator acts on the values left by the first
            ('lemma', 'acq_antisym', [_s1g1, _s1g1, 'N'], 'optional'),
            ('lemma?', 'acq_diff2', [_s1g1, 'g', _s1g1, 'N', 'i0', 'i0'], 'optional'),
            ('assert', 'anti(g, %s, N)' % _s1g1, 'optional'),
        ] + [h + ('optional',) for h in _d2_step('g', _s1g1, _s1g2, with_unit=True)] + [
            ('unless', '%s[2 * i0] == 0' % _o1, [
                ('lemma', 'acq_antisym', [_o1, _o1, 'N']),
                ('lemma?', 'acq_diff2', [_o1, 'g', _o1, 'N', 'i0', 'i0']),
                ('assert', 'anti(g, %s, N)' % _o1)] + _d2_step('g', _o1, _o2, with_unit=True)),
        ],
        'if3.then.end': [
            ('when', 'len(gs) >= 2', _d2_block3(_s2g2)),
            ('when', 'len(gs) == 1', _d2_none_facts + _d2_block3(_o2)),
        ],
        'return': [
            ('when', 'len(gs) == 0', _d2_none_facts + _d2_unit_facts(_o1, _o2)),
            # no third block after the first: g2 is on site, and its x component is 1 because it anticommutes with Z on that qubit
            ('unless_passed', 'if3.then.end', [('when', 'len(gs) >= 1', _d2_unit_facts('result[1]', 'result[2]'))]),
            ('lemma?', 'onsite_flat', ['result[2]', 'i0', 'N']),
            # the chains of the postcondition, step by step (the applicable instances are the ones whose antecedent holds on this path)
            ('lemma?', 'acqsum_ext', [_s1g1, _d2_chain1(_o1), 'result[0][1]', 'N'], 'optional'),
            ('lemma?', 'acqsum_ext', [_s1g2, _d2_chain1(_o2), 'result[0][1]', 'N'], 'optional'),
            ('lemma?', 'acqsum_ext', [_s2g1, _d2_chain1(_o1), 'result[0][1]', 'N'], 'optional'),
            ('lemma?', 'acqsum_ext', [_s2g2, _d2_chain1(_o2), 'result[0][1]', 'N'], 'optional'),
            ('lemma?', 'acqsum_ext', [_s2g1, _d2_chain2(_o1), 'result[0][2]', 'N'], 'optional'),
            ('lemma?', 'acqsum_ext', [_s2g2, _d2_chain2(_o2), 'result[0][2]', 'N'], 'optional'),
            ('when', 'len(gs) == 3', sum([[
                ('lemma', 'acqsum_ext', [a1, _d2_chain1(o), 'result[0][1]', 'N']),
                ('assert_from', 'eqn(%s, %s, 2 * N)' % (a2, _d2_chain2(o)),
                 ['eqn(%s, rot(result[0][1], %s, N), 2 * N)' % (a2, a1), 'eqn(%s, %s, 2 * N)' % (a1, _d2_chain1(o)),
                  'AcqSum(result[0][1], %s, N) == AcqSum(result[0][1], %s, N)' % (a1, _d2_chain1(o))]),
                ('lemma', 'acqsum_ext', [a2, _d2_chain2(o), 'result[0][2]', 'N']),
                ('assert_from', 'eqn(result[%d], %s, 2 * N)' % (t, _d2_chain3(o)),
                 ['eqn(result[%d], rot(result[0][2], %s, N), 2 * N)' % (t, a2), 'eqn(%s, %s, 2 * N)' % (a2, _d2_chain2(o)),
                  'AcqSum(result[0][2], %s, N) == AcqSum(result[0][2], %s, N)' % (a2, _d2_chain2(o))])]
                for (t, o, a1, a2) in ((1, _o1, _s1g1, _s2g1), (2, _o2, _s1g2, _s2g2))], [])),
        ],
    },
)

import re as _re
CONTRACTS[U + 'pauli_diagonalize2']['ensures'] = [_re.sub(r'\bN\b', '(len(old(g1)) // 2)', e) for e in CONTRACTS[U + 'pauli_diagonalize2']['ensures']]

# ------------------------------------------------------------------ C16: random_clifford (the recursive sampler of arXiv:2008.06011)
# For EVERY draw of the generator the result satisfies the canonical commutation relations (gram_map) - i.e. it is the binary table of
# a Clifford map.  Induction over the recursion: an anticommuting pair brought to (Z, X or Y) on the first qubit, a valid table on the
# remaining qubits in the lower right block, zeros elsewhere - a block-diagonal valid table -, then rotated back by the generators
# that diagonalised the pair (signless rotations preserve every commutation relation: rot_preserve).
LEMMAS['acq_drop2'] = dict(
    doc='if one of two strings is trivial on the first qubit, the symplectic form is the one of the strings without that qubit',
    params=[('x', 'int1'), ('y', 'int1'), ('n', 'int')],
    requires=['n >= 1', '(x[0] == 0 and x[1] == 0) or (y[0] == 0 and y[1] == 0)'],
    ensures=['AcqSum(x, y, n) == AcqSum(Drop2(x), Drop2(y), n - 1)'],
    induction='n',
)
_rcR = 'region_random_clifford__0'
_rcT = {'trigger': 'AcqSum(gs[a], gs[b], n)'}
_rcAB = [('a', '2', '2 * n'), ('b', '2', '2 * n')]
_rc_block = 'forall(a, 2, 2 * n, forall(b, 2, 2 * n, AcqSum(gs[a], gs[b], n) == AcqSum(%s[a - 2], %s[b - 2], n - 1)))' % (_rcR, _rcR)
_rc_low = 'forall(b, 2, 2 * n, gs[b][0] == 0 and gs[b][1] == 0)'
_rc_init = [
    # (1) lower right block: the symplectic form of two rows is the one of the block the recursive call filled
    ('assert_from', _rc_block,
     [('forall_lemma', _rcAB, 'acq_drop2', ['gs[a]', 'gs[b]', 'n'], _rcT),
      ('forall_lemma', _rcAB, 'acqsum_ext', ['%s[a - 2]' % _rcR, 'Drop2(gs[a])', '%s[b - 2]' % _rcR, 'n - 1'], _rcT),
      ('forall_lemma', _rcAB, 'acqsum_ext', ['%s[b - 2]' % _rcR, 'Drop2(gs[b])', 'Drop2(gs[a])', 'n - 1'], _rcT)]),
    ('assert_from', 'forall(a, 2, 2 * n, forall(b, 2, 2 * n, AcqSum(gs[a], gs[b], n) % 2 == b2i(b == partner(a))))',
     [_rc_block, 'gram_map(%s, n - 1)' % _rcR, 'rows(%s) == 2 * n - 2' % _rcR]),
    # (2) the first pair against the block: the pair lives on the first qubit, the block rows are trivial there
    ('assert_from', 'forall(b, 2, 2 * n, AcqSum(gs[0], gs[b], n) == 0 and AcqSum(gs[b], gs[0], n) == 0 and AcqSum(gs[1], gs[b], n) == 0 and AcqSum(gs[b], gs[1], n) == 0)',
     [_rc_low,
      ('forall_lemma', [('b', '2', '2 * n')], 'acq_local', ['gs[0]', 'gs[b]', 'n', '0'], {'trigger': 'AcqSum(gs[0], gs[b], n)'}),
      ('forall_lemma', [('b', '2', '2 * n')], 'acq_local', ['gs[1]', 'gs[b]', 'n', '0'], {'trigger': 'AcqSum(gs[1], gs[b], n)'}),
      ('forall_lemma', [('b', '2', '2 * n')], 'acq_antisym', ['gs[0]', 'gs[b]', 'n'], {'trigger': 'AcqSum(gs[0], gs[b], n)'}),
      ('forall_lemma', [('b', '2', '2 * n')], 'acq_antisym', ['gs[1]', 'gs[b]', 'n'], {'trigger': 'AcqSum(gs[1], gs[b], n)'})]),
    # (3) the first pair itself: Z against X or Y on the first qubit
    ('assert_from', 'AcqSum(gs[0], gs[1], n) == 1 and AcqSum(gs[1], gs[0], n) == 0 - 1 and AcqSum(gs[0], gs[0], n) == 0 and AcqSum(gs[1], gs[1], n) == 0',
     ['gs[0][0] == 0', 'gs[0][1] == 1', 'gs[1][0] == 1', 'n >= 2',
      ('lemma', 'acq_local', ['gs[0]', 'gs[1]', 'n', '0']),
      ('lemma', 'acq_antisym', ['gs[0]', 'gs[1]', 'n']),
      ('lemma', 'acq_antisym', ['gs[1]', 'gs[1]', 'n'])]),
]
_rcH = "at('loop0.head', gs)"
CONTRACTS[U + 'random_clifford.random_clifford_'] = dict(
    params=[('gs', 'int2')],
    requires=['rows(gs) == cols(gs)', 'cols(gs) % 2 == 0', 'cols(gs) >= 2', 'forall(a, 0, rows(gs), forall(c, 0, cols(gs), gs[a][c] == 0))'],
    ensures=['bits2(gs)', 'gram_map(gs, cols(gs) // 2)'],
    modifies=['gs'], returns='=gs', decreases='cols(gs)',
    loops={0: dict(invariant=['bits2(gs)', 'gram_map(gs, n)', 'rows(gs) == 2 * n', 'cols(gs) == 2 * n'],
                   hints_init=_rc_init,
                   hints_end=[
                       # every row has been rotated by g (callee's postcondition, rows as whole strings); rotations preserve commutation
                       ('assert', 'forall(j, 0, 2 * n, same(gs[j], rot(g, %s[j], n)))' % _rcH),
                       ('assert_from', 'gram_map(gs, n)',
                        ['forall(j, 0, 2 * n, same(gs[j], rot(g, %s[j], n)))' % _rcH, 'gram_map(%s, n)' % _rcH,
                         ('forall_lemma', [('a', '0', '2 * n'), ('b', '0', '2 * n')], 'rot_preserve', ['g', '%s[a]' % _rcH, '%s[b]' % _rcH, 'n'],
                          {'trigger': 'AcqSum(gs[a], gs[b], n)'})]),
                   ])},
    hints={'return': [('lemma?', 'acq_antisym', ['gs[0]', 'gs[1]', 'n']), ('lemma?', 'acq_antisym', ['gs[0]', 'gs[0]', 'n']),
                      ('lemma?', 'acq_antisym', ['gs[1]', 'gs[1]', 'n'])]},
)
CONTRACTS[U + 'random_clifford'] = dict(
    params=[('N', 'int')],
    requires=['N >= 1'],
    ensures=['rows(result) == 2 * N', 'cols(result) == 2 * N', 'bits2(result)', 'gram_map(result, N)'],
    modifies=[], returns='int2 fresh',
)

# ------------------------------------------------------------------ C19: a signed product of active stabilizers has expectation +1
# (the bridge between what StabilizerState.sample returns - its contract - and what stabilizer_expect computes - its contract)
LEMMAS['ordg_selext'] = dict(
    doc='the string of an ordered product depends on the selection only through which entries are non-zero',
    params=[('sel', 'int1'), ('sel2', 'int1'), ('G', 'int2'), ('n', 'int'), ('c', 'int')],
    requires=['forall(i, 0, n, (sel[i] != 0) == (sel2[i] != 0))'],
    ensures=['OrdG(sel, G, n, c) == OrdG(sel2, G, n, c)'],
    induction='n',
)
LEMMAS['ordp_selext'] = dict(
    doc='... and so does its phase',
    params=[('sel', 'int1'), ('sel2', 'int1'), ('G', 'int2'), ('P', 'int1'), ('n', 'int'), ('N', 'int')],
    requires=['forall(i, 0, n, (sel[i] != 0) == (sel2[i] != 0))', 'cols(G) == 2 * N', 'N >= 0'],
    ensures=['OrdP(sel, G, P, n, N) == OrdP(sel2, G, P, n, N)'],
    induction='n',
    uses_step=[('forall_lemma', [('c', '0', '2 * N')], 'ordg_selext', ['sel', 'sel2', 'G', 'n - 1', 'c']),
               ('lemma', 'ipowsum_ext', ['OrdGRow(sel, G, n - 1)', 'OrdGRow(sel2, G, n - 1)', 'G[n - 1]', 'N'])],
)
_meD = 'DestabSel(gs, obs, r, N)'
LEMMAS['member_expect'] = dict(
    doc='an operator that IS (entry by entry) the ordered product of the active stabilizers selected by sel, with the phase of that '
        'product, has expectation +1: it commutes with every stabilizer and standby row, the active destabilizers that anticommute with '
        'it are exactly the partners of the selected stabilizers, so the sign the expectation kernel reconstructs is its own phase',
    params=[('gs', 'int2'), ('ps', 'int1'), ('sel', 'int1'), ('obs', 'int1'), ('pobs', 'int'), ('r', 'int'), ('N', 'int')],
    requires=['tab(gs, N)', 'len(ps) == 2 * N', '0 <= r <= N', 'forall(i, 0, N, 0 <= sel[i] <= 1)', 'forall(i, 0, r, sel[i] == 0)',
              'forall(k, 0, 2 * N, obs[k] == OrdG(sel, gs, N, k))', 'pobs == OrdP(sel, gs, ps, N, N)'],
    ensures=['no_anti(gs, obs, N + r, N)',
             'forall(i, 0, N, %s[i] == sel[i])' % _meD,
             'OrdP(%s, gs, ps, N, N) == OrdP(sel, gs, ps, N, N)' % _meD,
             'expect_val(1, gs, ps, obs, pobs, r, N)'],
    uses=[('forall_lemma', [('i', '0', '2 * N')], 'ordg_acq', ['sel', 'gs', 'N', 'gs[i]', 'N']),
          ('forall_lemma', [('i', '0', '2 * N')], 'acqsum_ext', ['OrdGRow(sel, gs, N)', 'obs', 'gs[i]', 'N']),
          ('forall_lemma', [('i', '0', '2 * N')], 'selacq_gram', ['sel', 'gs', 'N', 'i', 'N']),
          ('lemma', 'ordp_selext', [_meD, 'sel', 'gs', 'ps', 'N', 'N'])],
)
LEMMAS['ordg_nosel'] = dict(
    doc='nothing selected: the product is the identity string with phase 0',
    params=[('sel', 'int1'), ('G', 'int2'), ('P', 'int1'), ('m', 'int'), ('N', 'int'), ('c', 'int')],
    requires=['forall(i, 0, m, sel[i] == 0)'],
    ensures=['OrdG(sel, G, m, c) == 0', 'OrdP(sel, G, P, m, N) == 0'],
    induction='m',
)
_ssS, _ssP, _ssL = 'RowSlice(gs, r, N)', 'Slice1(ps, r, N)', 'ShiftSel(c, r, N)'
LEMMAS['ordg_slice'] = dict(
    doc='a product over the rows r .. N-1 taken as a slice is the product over the whole tableau with the selection shifted by r',
    params=[('c', 'int1'), ('gs', 'int2'), ('ps', 'int1'), ('r', 'int'), ('N', 'int'), ('n', 'int'), ('col', 'int')],
    requires=['0 <= r', '0 <= n', 'r + n <= N'],
    ensures=['OrdG(c, %s, n, col) == OrdG(%s, gs, r + n, col)' % (_ssS, _ssL)],
    induction='n',
    uses=[('lemma', 'ordg_nosel', [_ssL, 'gs', 'ps', 'r', 'N', 'col'])],
)
LEMMAS['ordp_slice'] = dict(
    doc='... and the same for the phase',
    params=[('c', 'int1'), ('gs', 'int2'), ('ps', 'int1'), ('r', 'int'), ('N', 'int'), ('n', 'int')],
    requires=['0 <= r', '0 <= n', 'r + n <= N', 'cols(gs) == 2 * N'],
    ensures=['OrdP(c, %s, %s, n, N) == OrdP(%s, gs, ps, r + n, N)' % (_ssS, _ssP, _ssL)],
    induction='n',
    uses=[('lemma', 'ordg_nosel', [_ssL, 'gs', 'ps', 'r', 'N', '0'])],
    uses_step=[('forall_lemma', [('col', '0', '2 * N')], 'ordg_slice', ['c', 'gs', 'ps', 'r', 'N', 'n - 1', 'col']),
               ('lemma', 'ipowsum_ext', ['OrdGRow(c, %s, n - 1)' % _ssS, 'OrdGRow(%s, gs, r + n - 1)' % _ssL, 'gs[r + n - 1]', 'N'])],
)
_soO = 'OrdGRow(c, %s, N - r)' % _ssS
_soP = 'OrdP(c, %s, %s, N - r, N)' % (_ssS, _ssP)
LEMMAS['sample_expect_one'] = dict(
    doc='what StabilizerState.sample returns (its contract: row = ordered product of the active stabilizers RowSlice(gs, r, N) selected by a '
        'bit row c, phase = the phase of that product) has expectation +1 in the state (contract of stabilizer_expect)',
    params=[('gs', 'int2'), ('ps', 'int1'), ('c', 'int1'), ('r', 'int'), ('N', 'int')],
    # r < N: with no active stabilizer (r == N) every sample is the identity string with phase 0 - true as well, but the executable
    # spec function OrdGRow cannot know the row length of an empty slice, so that case is left to the bounded check
    requires=['tab(gs, N)', 'len(ps) == 2 * N', '0 <= r < N', 'len(c) == N - r', 'bits1(c)'],
    ensures=['expect_val(1, gs, ps, %s, %s, r, N)' % (_soO, _soP)],
    uses=[('forall_lemma', [('col', '0', '2 * N')], 'ordg_slice', ['c', 'gs', 'ps', 'r', 'N', 'N - r', 'col']),
          ('lemma', 'ordp_slice', ['c', 'gs', 'ps', 'r', 'N', 'N - r']),
          ('lemma', 'member_expect', ['gs', 'ps', _ssL, _soO, _soP, 'r', 'N'])],
)

# ------------------------------------------------------------------ C12: "converting that state back gives the same map"
# the two conversion contracts (row interleaving) composed: every row and every phase returns to its place, in both orders
_m2s = ['rows(S) == 2 * N', 'cols(S) == 2 * N', 'len(SP) == 2 * N',
        'forall(i, 0, N, forall(c, 0, 2 * N, S[i][c] == M[2 * i + 1][c] and S[N + i][c] == M[2 * i][c]))',
        'forall(i, 0, N, SP[i] == MP[2 * i + 1] and SP[N + i] == MP[2 * i])']
_s2m = ['rows(M2) == 2 * N', 'cols(M2) == 2 * N', 'len(MP2) == 2 * N',
        'forall(i, 0, N, forall(c, 0, 2 * N, M2[2 * i + 1][c] == S[i][c] and M2[2 * i][c] == S[N + i][c]))',
        'forall(i, 0, N, MP2[2 * i + 1] == SP[i] and MP2[2 * i] == SP[N + i])']
LEMMAS['map_state_roundtrip'] = dict(
    doc='state_to_map after map_to_state (their postconditions) is the identity on tables and phases: stated per pair of rows',
    params=[('M', 'int2'), ('MP', 'int1'), ('S', 'int2'), ('SP', 'int1'), ('M2', 'int2'), ('MP2', 'int1'), ('N', 'int')],
    requires=['N >= 0', 'rows(M) == 2 * N', 'cols(M) == 2 * N', 'len(MP) == 2 * N'] + _m2s + _s2m,
    ensures=['forall(i, 0, N, forall(c, 0, 2 * N, M2[2 * i][c] == M[2 * i][c] and M2[2 * i + 1][c] == M[2 * i + 1][c]))',
             'forall(i, 0, N, MP2[2 * i] == MP[2 * i] and MP2[2 * i + 1] == MP[2 * i + 1])'],
)
