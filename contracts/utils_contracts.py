"""Sidecar contracts for pyclifford/utils.py (kernel layer).  Keys: '<file>::<function>'.

Each contract: params (name, type) in the order of the real signature, requires, ensures, modifies,
returns (type descriptors; '=p' = the very array passed as p), loops {ordinal: {var, invariant, hints_*}}.
Top-level postconditions come from the property statements (oracle spec functions of spec_pauli.py),
helper invariants from the code.
"""
U = 'pyclifford/utils.py::'
CONTRACTS = {}
LEMMAS = {}
PREDS = {
    # entries 0/1 on the first n positions
    'bits': (('a', 'n'), 'forall(k, 0, n, 0 <= a[k] <= 1)'),
    'bits1': (('a',), 'forall(k, 0, len(a), 0 <= a[k] <= 1)'),
    'bits2': (('a',), 'forall(j, 0, rows(a), forall(k, 0, cols(a), 0 <= a[j][k] <= 1))'),
    'phase': (('p',), '0 <= p <= 3'),
    'herm': (('p',), 'p == 0 or p == 2'),
    'phases1': (('ps',), 'forall(k, 0, len(ps), 0 <= ps[k] <= 3)'),
}

# ------------------------------------------------------------------ C01: acq / ipow / p0
CONTRACTS[U + 'acq'] = dict(
    params=[('g1', 'int1'), ('g2', 'int1')],
    requires=['len(g1) == len(g2)'],
    ensures=['result == AcqSum(g1, g2, len(g1) // 2) % 2',
             'implies(bits1(g1) and bits1(g2), result == AntiCount(g1, g2, len(g1) // 2) % 2)'],
    modifies=[], returns='int',
    loops={0: dict(var='i', invariant=['acq == AcqSum(g1, g2, i)'])},
    hints={'return': [('lemma?', 'acq_is_anticount', ['g1', 'g2', 'len(g1) // 2'])]},
)
LEMMAS['acq_is_anticount'] = dict(
    doc='the code-shaped symplectic sum has the parity of the number of anticommuting one-qubit factors (oracle table)',
    params=[('a', 'int1'), ('b', 'int1'), ('n', 'int')],
    requires=['bits(a, 2 * n)', 'bits(b, 2 * n)'],
    ensures=['(AcqSum(a, b, n) - AntiCount(a, b, n)) % 2 == 0'],
    induction='n',
)

CONTRACTS[U + 'ipow'] = dict(
    params=[('g1', 'int1'), ('g2', 'int1')],
    requires=['len(g1) == len(g2)', 'bits1(g1)', 'bits1(g2)'],
    ensures=['result == IpowSum(g1, g2, len(g1) // 2) % 4', '0 <= result <= 3'],
    modifies=[], returns='int',
    loops={0: dict(var='i', invariant=['(ipow - IpowSum(g1, g2, i)) % 4 == 0'])},
)

CONTRACTS[U + 'p0'] = dict(
    params=[('g', 'int1')],
    requires=[],
    ensures=['result == XZSum(g, len(g) // 2) % 4'],
    modifies=[], returns='int',
    loops={0: dict(var='i', invariant=['p0 == XZSum(g, i)'])},
)
