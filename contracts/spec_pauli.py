"""Executable spec functions for the PyClifford contracts.

One source, three interpretations:
  * engine A (pyvc) translates each @spec function body (a single `return` of a
    conditional expression, recursion on an integer index) into a z3 recursive
    function definition;
  * the native replay runner / run-time monitor *execute* them on numpy arrays;
  * selftest() executes them against dense matrices.

The oracle tables CSTAR / ASTAR are computed here, at import time, from the 2x2
Pauli matrices with exact Gaussian-integer arithmetic.  They are NOT copied from
pyclifford.utils.ipow / acq.
"""
import sys
sys.setrecursionlimit(100000)

SPEC_FUNCS = {}


def spec(*argtypes, ret='int', abstract=False, inline=False):
    """Register a spec function.  argtypes in {'int','int1','int2'}.  abstract=True: executable here, but only declared
    (uninterpreted, never unfolded) for the solver -- everything the proofs know about it comes from stated lemmas."""
    def deco(f):
        f._spec_argtypes = argtypes
        f._spec_ret = ret
        f._spec_abstract = abstract
        f._spec_inline = inline      # non-recursive integer helper: the solver sees its body at every application
        SPEC_FUNCS[f.__name__] = f
        return f
    return deco


# ---------------------------------------------------------------- exact 2x2 algebra
def _mm(A, B):
    return tuple(tuple(sum(A[i][k] * B[k][j] for k in range(2)) for j in range(2)) for i in range(2))


def _scale(c, A):
    return tuple(tuple(c * A[i][j] for j in range(2)) for i in range(2))


_I = ((1, 0), (0, 1))
_X = ((0, 1), (1, 0))
_Z = ((1, 0), (0, -1))
_Y = _scale(1j, _mm(_X, _Z))          # Y = i X Z
SIGMA = {(0, 0): _I, (1, 0): _X, (1, 1): _Y, (0, 1): _Z}   # keyed (x, z)
_IPOW = (1, 1j, -1, -1j)


def _build_tables():
    cstar = {}
    astar = {}
    for (x1, z1), A in SIGMA.items():
        for (x2, z2), B in SIGMA.items():
            P = _mm(A, B)
            Q = _mm(B, A)
            tgt = SIGMA[((x1 + x2) % 2, (z1 + z2) % 2)]
            ks = [k for k in range(4) if P == _scale(_IPOW[k], tgt)]
            assert len(ks) == 1
            cstar[(x1, z1, x2, z2)] = ks[0]
            if P == Q:
                astar[(x1, z1, x2, z2)] = 0
            else:
                assert P == _scale(-1, Q)
                astar[(x1, z1, x2, z2)] = 1
    return cstar, astar


CSTAR_TABLE, ASTAR_TABLE = _build_tables()


def CSTAR(x1, z1, x2, z2):
    """power of i in sigma(x1,z1) sigma(x2,z2) = i^CSTAR sigma(x1^x2, z1^z2); from the matrices."""
    return CSTAR_TABLE[(int(x1), int(z1), int(x2), int(z2))]


def ASTAR(x1, z1, x2, z2):
    """1 iff the two one-qubit Paulis anticommute; from the matrices."""
    return ASTAR_TABLE[(int(x1), int(z1), int(x2), int(z2))]


CSTAR._spec_table = CSTAR_TABLE
ASTAR._spec_table = ASTAR_TABLE
SPEC_FUNCS['CSTAR'] = CSTAR
SPEC_FUNCS['ASTAR'] = ASTAR


# ---------------------------------------------------------------- recursive spec functions
@spec('int1', 'int1', 'int')
def AcqSum(g1, g2, n):
    # integer (not reduced) symplectic sum over the first n qubits -- the *code-shaped* sum
    return 0 if n <= 0 else AcqSum(g1, g2, n - 1) + g1[2 * n - 1] * g2[2 * n - 2] - g1[2 * n - 2] * g2[2 * n - 1]


@spec('int1', 'int1', 'int')
def AntiCount(g1, g2, n):
    # number of qubits k < n on which the one-qubit factors anticommute (oracle, from the matrices)
    return 0 if n <= 0 else AntiCount(g1, g2, n - 1) + ASTAR(g1[2 * n - 2], g1[2 * n - 1], g2[2 * n - 2], g2[2 * n - 1])


@spec('int1', 'int1', 'int')
def IpowSum(g1, g2, n):
    # sum over k<n of the one-qubit product phases (oracle, from the matrices)
    return 0 if n <= 0 else IpowSum(g1, g2, n - 1) + CSTAR(g1[2 * n - 2], g1[2 * n - 1], g2[2 * n - 2], g2[2 * n - 1])


@spec('int1', 'int')
def XZSum(g, n):
    # sum_k<n x_k z_k : number of Y factors (sigma[g] = i^(x.z) prod X^x Z^z)
    return 0 if n <= 0 else XZSum(g, n - 1) + g[2 * n - 2] * g[2 * n - 1]


@spec('int1', 'int2', 'int', 'int')
def OrdG(crow, gs, n, c):
    # element c of the string part of the ordered product of the rows j<n of gs selected by crow
    return 0 if n <= 0 else ((OrdG(crow, gs, n - 1, c) + gs[n - 1][c]) % 2 if crow[n - 1] != 0 else OrdG(crow, gs, n - 1, c))


@spec('int1', 'int2', 'int', ret='int1')
def OrdGRow(crow, gs, n):
    # the whole string part as an array (defined pointwise by OrdG; engine adds  OrdGRow(..)[c] == OrdG(.., c))
    return [OrdG(crow, gs, n, c) for c in range(len(gs[0]))]


@spec('int1', 'int2', 'int1', 'int', 'int')
def OrdP(crow, gs, ps, n, N):
    # phase of the ordered product  (increasing j: P_{j0} P_{j1} ...), reduced mod 4 at every step
    return 0 if n <= 0 else (
        (OrdP(crow, gs, ps, n - 1, N) + ps[n - 1] + IpowSum(OrdGRow(crow, gs, n - 1), gs[n - 1], N)) % 4
        if crow[n - 1] != 0 else OrdP(crow, gs, ps, n - 1, N))


# ---------------------------------------------------------------- non-recursive helpers (python only)
def mul(g1, p1, g2, p2):
    """spec product of two Pauli operators: (g, p) with sigma[g1]i^p1 * sigma[g2]i^p2 = i^p sigma[g]."""
    N = len(g1) // 2
    g = [(int(a) + int(b)) % 2 for a, b in zip(g1, g2)]
    return g, (int(p1) + int(p2) + IpowSum(g1, g2, N)) % 4


def dense(g, p=0):
    """D(g,p) = i^p (x) sigma(g[2k], g[2k+1]) as a nested tuple matrix with exact complex integer entries."""
    N = len(g) // 2
    M = ((1,),)
    for k in range(N):
        S = SIGMA[(int(g[2 * k]), int(g[2 * k + 1]))]
        M = tuple(tuple(M[i // 2][j // 2] * S[i % 2][j % 2] for j in range(2 * len(M))) for i in range(2 * len(M)))
    c = _IPOW[int(p) % 4]
    return tuple(tuple(c * v for v in row) for row in M)


def matmul(A, B):
    n = len(A)
    return tuple(tuple(sum(A[i][k] * B[k][j] for k in range(n)) for j in range(n)) for i in range(n))


def selftest(Nmax=2):
    """D(mul(a,b)) == D(a) D(b), AcqSum parity == matrix anticommutation, for all strings with N<=Nmax."""
    import itertools
    n = 0
    for N in range(1, Nmax + 1):
        strings = list(itertools.product([0, 1], repeat=2 * N))
        for a in strings:
            for b in strings:
                for pa in range(4):
                    pb = (pa * 3 + 1) % 4
                    g, p = mul(a, pa, b, pb)
                    assert dense(g, p) == matmul(dense(a, pa), dense(b, pb)), (a, pa, b, pb)
                    n += 1
                AB = matmul(dense(a), dense(b))
                BA = matmul(dense(b), dense(a))
                anti = AntiCount(a, b, N) % 2
                assert (AB == BA) if anti == 0 else (AB == tuple(tuple(-v for v in r) for r in BA))
                assert AcqSum(a, b, N) % 2 == anti
    return n


if __name__ == '__main__':
    print('selftest cases', selftest(2))


# ---------------------------------------------------------------- token tables (C20): from the documented convention
# 0 = I, 1 = X, 2 = Y, 3 = Z  keyed by (x, z);   4 = '+', 5 = '-', 6 = '+i', 7 = '-i'  keyed by the power of i
TOKEN_TABLE = {(0, 0): 0, (1, 0): 1, (1, 1): 2, (0, 1): 3}
PHASE_TOKEN_TABLE = {(0,): 4, (1,): 6, (2,): 5, (3,): 7}


def TOKEN(x, z):
    return TOKEN_TABLE[(int(x), int(z))]


def PHASE_TOKEN(p):
    return PHASE_TOKEN_TABLE[(int(p),)]


TOKEN._spec_table = TOKEN_TABLE
PHASE_TOKEN._spec_table = PHASE_TOKEN_TABLE
SPEC_FUNCS['TOKEN'] = TOKEN
SPEC_FUNCS['PHASE_TOKEN'] = PHASE_TOKEN


@spec('int2', 'int1', 'int', 'int', ret='int1')
def DestabSel(gs, obs, r, N):
    # selection of *active* stabilizers i in [r, N): those whose destabilizer partner gs[N+i] anticommutes with obs
    return [1 if (i >= r and AcqSum(gs[N + i], obs, N) % 2 == 1) else 0 for i in range(N)]


@spec('int1', 'int1', ret='int1')
def Xor(a, b):
    # string part of the product of two Pauli strings (pointwise sum mod 2), total
    return [(a[c] + b[c]) % 2 for c in range(len(a))]


@spec('int1', 'int2', 'int', 'int1', 'int')
def SelAcq(sel, G, n, x, N):
    # sum over the selected rows i < n of the symplectic form of x with row i
    return 0 if n <= 0 else SelAcq(sel, G, n - 1, x, N) + (AcqSum(x, G[n - 1], N) if sel[n - 1] != 0 else 0)


@spec('int1', 'int1', 'int')
def PartnerSum(a, b, n):
    # sum over l < n of b[l] * a[partner(l)], partner(l) = l + 1 for even l (X_i <-> Z_i), l - 1 for odd l
    return 0 if n <= 0 else PartnerSum(a, b, n - 1) + b[n - 1] * (a[n] if (n - 1) % 2 == 0 else a[n - 2])


@spec('int1', 'int')
def XZPartial(g, n):
    # sum over odd positions l < n of g[l] * g[l-1]: the x.z products of the qubits completely below position n
    return 0 if n <= 0 else XZPartial(g, n - 1) + (g[n - 1] * g[n - 2] if (n - 1) % 2 == 1 else 0)


# ---------------------------------------------------------------- GF(2) linear algebra (z2inv / z2rank)
@spec('int1', 'int', 'int2', 'int', 'int')
def DotOff(u, off, M, n, c):
    # integer (unreduced) sum over k < n of u[off + k] * M[k][c]: entry c of  (u[off:off+n]) . M
    return 0 if n <= 0 else DotOff(u, off, M, n - 1, c) + u[off + n - 1] * M[n - 1][c]


@spec('int1', 'int')
def Lead(row, n):
    # first index c < n with row[c] != 0, or n if there is none (leading column of a row)
    return 0 if n <= 0 else (Lead(row, n - 1) if Lead(row, n - 1) < n - 1 else (n - 1 if row[n - 1] != 0 else n))


@spec('int2', 'int', 'int', abstract=True)
def Z2Rank(M, nr, nc):
    # rank over GF(2) of the nr x nc matrix M (entries taken mod 2).  Abstract for the solver: the proofs use only the three
    # classical facts stated as assumed lemmas (invariance under row swap / row addition, rank of an echelon form).
    # Executable definition, independent of pyclifford.utils.z2rank: size of a greedily built xor-basis of the rows
    # (each basis vector keyed by its leading column).
    basis = {}
    for r in range(nr):
        v = 0
        for c in range(nc):
            v |= (int(M[r][c]) % 2) << (nc - 1 - c)
        while v:
            h = v.bit_length()
            if h in basis:
                v ^= basis[h]
            else:
                basis[h] = v
                break
    return len(basis)


# ---------------------------------------------------------------- boolean-mask indexing (local gates: gs[:, mask2])
@spec('int1', 'int', ret='int1', abstract=True)
def MaskIdx(m, n):
    # positions c < n with m[c] != 0, in increasing order  (what numpy's a[:, m] selects)
    return [c for c in range(n) if m[c] != 0]


@spec('int1', 'int', abstract=True)
def MaskCnt(m, n):
    return sum(1 for c in range(n) if m[c] != 0)


@spec('int1', 'int', ret='int1', abstract=True)
def MaskPos(m, n):
    # MaskPos[c] = number of selected positions before c, for c = 0..n  (the column of the compressed array that c maps to, if
    # selected; MaskPos[n] = MaskCnt)
    out, k = [], 0
    for c in range(n):
        out.append(k)
        k += 1 if m[c] != 0 else 0
    out.append(k)
    return out


@spec('int1', ret='int1')
def Repeat2(m):
    # numpy.repeat(m, 2)
    return [m[c // 2] for c in range(2 * len(m))]


@spec('int1', 'int1', 'int', ret='int1')
def Compress(row, m, n):
    # row[m] for a boolean mask m of length n
    return [row[MaskIdx(m, n)[k]] for k in range(MaskCnt(m, n))]


@spec('int1', 'int', 'int')
def InQ(q, n, c):
    # 1 if c is among q[0..n), else 0
    return 0 if n <= 0 else (1 if q[n - 1] == c else InQ(q, n - 1, c))


@spec('int1', 'int', 'int', ret='int1')
def QMask(q, nq, N):
    # utils.mask(qubits, N): boolean vector over N qubits, true at the listed qubits
    return [InQ(q, nq, c) for c in range(N)]


@spec('int', 'int', ret='int1')
def Unit(i, n):
    # the unit string e_i of length n  (X_0, Z_0, X_1, Z_1, ... in the library's interleaved convention)
    return [1 if c == i else 0 for c in range(n)]


@spec('int1', 'int1', 'int', ret='int1')
def Expand(g, m, n):
    # the string g of the selected positions padded with 0 (identity) on the unselected ones: inverse of Compress
    return [g[MaskPos(m, n)[c]] if m[c] != 0 else 0 for c in range(n)]


@spec('int1', 'int1', 'int1', 'int')
def AcqOut(x, y, mask, K):
    # the part of the symplectic sum over the first K qubits that comes from the qubits NOT selected by the (per-qubit) mask
    return 0 if K <= 0 else AcqOut(x, y, mask, K - 1) + ((x[2 * K - 1] * y[2 * K - 2] - x[2 * K - 2] * y[2 * K - 1]) if mask[K - 1] == 0 else 0)


# ---------------------------------------------------------------- entropy kernel: row sums, boolean vectors, row / column selections
@spec('int1', 'int')
def RowSum(row, n):
    return 0 if n <= 0 else RowSum(row, n - 1) + row[n - 1]


@spec('int2', 'int', ret='int1')
def RowSums(M, w):
    # numpy.sum(M, -1) of an (L, w) array
    return [RowSum(M[r], w) for r in range(len(M))]


@spec('int1', ret='int1')
def Nz(v):
    # the boolean vector  v != 0
    return [1 if v[c] != 0 else 0 for c in range(len(v))]


@spec('int1', ret='int1')
def Not1(m):
    # ~m of a boolean vector
    return [0 if m[c] != 0 else 1 for c in range(len(m))]


@spec('int1', 'int1', ret='int1')
def And1(a, b):
    # numpy.logical_and of two boolean vectors
    return [1 if (a[c] != 0 and b[c] != 0) else 0 for c in range(len(a))]


@spec('int2', 'int1', 'int', ret='int2')
def Cols(M, m, n):
    # M[:, m] for a boolean column mask m of length n
    return [Compress(M[r], m, n) for r in range(len(M))]


@spec('int2', 'int1', 'int', ret='int2')
def Rows(M, b, L):
    # M[b] for a boolean row mask b of length L
    return [M[MaskIdx(b, L)[k]] for k in range(MaskCnt(b, L))]


@spec('int2', 'int', 'int', 'int', ret='int1')
def AcqRow(M, a, L, n):
    return [AcqSum(M[a], M[b], n) % 2 for b in range(L)]


@spec('int2', 'int', 'int', ret='int2')
def AcqMat(M, L, n):
    # the anticommutation indicator matrix of the L rows of M (n qubits)
    return [AcqRow(M, a, L, n) for a in range(L)]


@spec('int2', 'int', 'int', ret='int2')
def RowSlice(M, lo, hi):
    # M[lo:hi] (rows)
    return [M[r + lo] for r in range(hi - lo)]


@spec('int', ret='int1')
def Arange(n):
    return [c for c in range(n)]


@spec('int1', 'int', ret='int1')
def SuppMask(g, N):
    # boolean vector over the qubits: true where the string g is not the identity
    return [1 if (g[2 * i] != 0 or g[2 * i + 1] != 0) else 0 for i in range(N)]


# ---------------------------------------------------------------- operator descriptions (C20): the parser pauli()
# A description is a sequence of symbols.  Operator symbols (codes 0..3 / letters I X Y Z) each describe one qubit, in order;
# every other symbol is a prefix symbol that describes no qubit.  Sign symbols set the phase ('+' / 4 -> 0, '-' / 5 -> 2,
# 6 -> 1 (+i), 7 -> 3 (-i)), the letter 'i' multiplies by i.  Written from the documented convention (docstring of
# pauli_tokenize, README), not from the body of pauli().
@spec('int', inline=True)
def IsOp(c):
    return 1 if (0 <= c and c <= 3) else 0


@spec('int', inline=True)
def OpX(c):
    return 1 if (c == 1 or c == 2) else 0


@spec('int', inline=True)
def OpZ(c):
    return 1 if (c == 2 or c == 3) else 0


@spec('int1', 'int')
def Toks(a, k):
    # number of prefix symbols among the first k integer codes
    return 0 if k <= 0 else Toks(a, k - 1) + 1 - IsOp(a[k - 1])


@spec('int1', 'int')
def CodePhase(a, k):
    # phase described by the first k integer codes: the last sign code decides
    return 0 if k <= 0 else (0 if a[k - 1] == 4 else (2 if a[k - 1] == 5 else (1 if a[k - 1] == 6 else (3 if a[k - 1] == 7 else CodePhase(a, k - 1)))))


# letters as character codes: I = 73, X = 88, Y = 89, Z = 90, '+' = 43, '-' = 45, 'i' = 105
@spec('int', inline=True)
def IsOpC(c):
    return 1 if (c == 73 or c == 88 or c == 89 or c == 90) else 0


@spec('int', inline=True)
def OpXC(c):
    return 1 if (c == 88 or c == 89) else 0


@spec('int', inline=True)
def OpZC(c):
    return 1 if (c == 89 or c == 90) else 0


@spec('int1', 'int')
def ToksC(a, k):
    return 0 if k <= 0 else ToksC(a, k - 1) + 1 - IsOpC(a[k - 1])


@spec('int1', 'int')
def CharPhase(a, k):
    # '+' and '-' set the sign, every 'i' multiplies by i (so '-i' is 3, '+i' and 'i' are 1)
    return 0 if k <= 0 else (0 if a[k - 1] == 43 else (2 if a[k - 1] == 45 else (CharPhase(a, k - 1) + 1 if a[k - 1] == 105 else CharPhase(a, k - 1))))


@spec('int1', ret='int1')
def Drop2(x):
    # x[2:]: a Pauli string without its first qubit
    return [x[c + 2] for c in range(len(x) - 2)]


@spec('int1', 'int', 'int', ret='int1')
def Slice1(a, lo, hi):
    # a[lo:hi]
    return [a[k + lo] for k in range(hi - lo)]


@spec('int1', 'int', 'int', ret='int1')
def ShiftSel(c, r, N):
    # the selection of tableau rows r .. N-1 by the entries of c (row r + k selected by c[k]); rows below r are not selected
    return [(c[i - r] if i >= r else 0) for i in range(N)]
