"""Sidecar contracts for the class layer (paulialg.py, stabilizer.py): straight-line methods over the kernel contracts.
A key 'file::Class.method#variant' selects one dispatch case of the method through the declared parameter classes."""
PA = 'pyclifford/paulialg.py::'
ST = 'pyclifford/stabilizer.py::'
CONTRACTS = {}
LEMMAS = {}
PREDS = {}

PAULI = {'cls': 'Pauli', 'fields': {'g': 'int1', 'p': 'int'}, 'exact': True}
PLIST = {'cls': 'PauliList', 'fields': {'gs': 'int2', 'ps': 'int1'}}
CMAP = {'cls': 'CliffordMap', 'fields': {'gs': 'int2', 'ps': 'int1'}}
STATE = {'cls': 'StabilizerState', 'fields': {'gs': 'int2', 'ps': 'int1', 'r': 'int'}}

# ------------------------------------------------------------------ C01: the product of two Pauli operators
CONTRACTS[PA + 'Pauli.__matmul__#Pauli'] = dict(
    params=[('self', PAULI), ('other', PAULI)],
    requires=['len(self.g) == len(other.g)', 'bits1(self.g)', 'bits1(other.g)'],
    ensures=['len(result.g) == len(self.g)',
             'forall(c, 0, len(self.g), result.g[c] == (self.g[c] + other.g[c]) % 2)',
             # the phase of the matrix product: p1 + p2 + sum of the one-qubit product phases (oracle table), mod 4
             'result.p == (self.p + other.p + IpowSum(self.g, other.g, len(self.g) // 2)) % 4',
             '0 <= result.p <= 3',
             'fresh_loc(result.g)'],
    modifies=[], returns=dict(PAULI, exact=False),
)
CONTRACTS[PA + 'Pauli.__neg__'] = dict(
    params=[('self', PAULI)],
    requires=[],
    ensures=['same(result.g, self.g)', 'len(result.g) == len(self.g)', 'result.p == (self.p + 2) % 4'],
    modifies=[], returns=dict(PAULI, exact=False),
)
CONTRACTS[PA + 'Pauli.copy'] = dict(
    params=[('self', PAULI)],
    requires=[],
    ensures=['eq1(result.g, self.g)', 'result.p == self.p', 'fresh_loc(result.g)'],
    modifies=[], returns=dict(PAULI, exact=False),
)
CONTRACTS[PA + 'PauliList.copy'] = dict(
    params=[('self', PLIST)],
    requires=[],
    ensures=['rows(result.gs) == rows(self.gs)', 'cols(result.gs) == cols(self.gs)',
             'forall(j, 0, rows(self.gs), forall(c, 0, cols(self.gs), result.gs[j][c] == self.gs[j][c]))',
             'eq1(result.ps, self.ps)', 'fresh_loc(result.gs)', 'fresh_loc(result.ps)'],
    modifies=[], returns=PLIST,
)

# ------------------------------------------------------------------ C02 / C03: in-place rotation and map transformation of a list
_rot_row = ('implies(AcqSum(generator.g, old(self.gs)[j], cols(self.gs) // 2) % 2 == 1, '
            'forall(c, 0, cols(self.gs), self.gs[j][c] == (old(self.gs)[j][c] + generator.g[c]) % 2) and '
            'self.ps[j] == (old(self.ps)[j] + generator.p + 1 + IpowSum(old(self.gs)[j], generator.g, cols(self.gs) // 2)) % 4) and '
            'implies(AcqSum(generator.g, old(self.gs)[j], cols(self.gs) // 2) % 2 == 0, '
            'forall(c, 0, cols(self.gs), self.gs[j][c] == old(self.gs)[j][c]) and self.ps[j] == old(self.ps)[j])')
for _cls, _t in (('PauliList', PLIST),):
    CONTRACTS[PA + _cls + '.rotate_by#nomask'] = dict(
        params=[('self', _t), ('generator', dict(PAULI, exact=False)), ('mask', 'none')],
        defaults={'mask': None},
        requires=['len(generator.g) == cols(self.gs)', 'len(self.ps) == rows(self.gs)', 'bits1(generator.g)', 'bits2(self.gs)'],
        ensures=['forall(j, 0, rows(self.gs), %s)' % _rot_row, 'same_loc(result, self)',
                 'same_loc(self.gs, old(self.gs)) and same_loc(self.ps, old(self.ps))'],
        modifies=['self.gs', 'self.ps'], returns='=self',
    )
    CONTRACTS[PA + _cls + '.transform_by#nomask'] = dict(
        params=[('self', _t), ('clifford_map', CMAP), ('mask', 'none')],
        defaults={'mask': None},
        requires=['cols(self.gs) == rows(clifford_map.gs)', 'len(clifford_map.ps) == rows(clifford_map.gs)', 'len(self.ps) == rows(self.gs)',
                  'bits2(clifford_map.gs)'],
        ensures=['rows(self.gs) == rows(old(self.gs))', 'cols(self.gs) == cols(clifford_map.gs)', 'len(self.ps) == rows(old(self.gs))',
                 'forall(j, 0, rows(old(self.gs)), forall(c, 0, cols(clifford_map.gs), self.gs[j][c] == OrdG(old(self.gs)[j], clifford_map.gs, rows(clifford_map.gs), c)))',
                 'forall(j, 0, rows(old(self.gs)), self.ps[j] == (old(self.ps)[j] + XZSum(old(self.gs)[j], cols(old(self.gs)) // 2) % 4 '
                 '+ OrdP(old(self.gs)[j], clifford_map.gs, clifford_map.ps, rows(clifford_map.gs), cols(clifford_map.gs) // 2)) % 4)',
                 'same_loc(result, self)', 'fresh_loc(self.gs)', 'fresh_loc(self.ps)'],
        modifies=['self.gs', 'self.ps'], returns='=self',
    )

# ---- the same two operations restricted to a subsystem (local gates): mask = boolean vector over the qubits.  The operation acts on
# the compressed strings exactly as the unmasked operation acts on whole strings, and every column outside the mask is untouched.
_M2, _n2 = 'Repeat2(mask)', '2 * len(mask)'
_cnt = 'MaskCnt(%s, %s)' % (_M2, _n2)
_idx = 'MaskIdx(%s, %s)' % (_M2, _n2)
_subj = 'Compress(old(self.gs)[j], %s, %s)' % (_M2, _n2)
_local = 'forall(j, 0, rows(self.gs), forall(c, 0, cols(self.gs), implies(%s[c] == 0, self.gs[j][c] == old(self.gs)[j][c])))' % _M2
_mrot_row = ('implies(AcqSum(generator.g, %(s)s, %(n)s // 2) %% 2 == 1, '
             'forall(k, 0, %(n)s, self.gs[j][%(i)s[k]] == (old(self.gs)[j][%(i)s[k]] + generator.g[k]) %% 2) and '
             'self.ps[j] == (old(self.ps)[j] + generator.p + 1 + IpowSum(%(s)s, generator.g, %(n)s // 2)) %% 4) and '
             'implies(AcqSum(generator.g, %(s)s, %(n)s // 2) %% 2 == 0, '
             'forall(k, 0, %(n)s, self.gs[j][%(i)s[k]] == old(self.gs)[j][%(i)s[k]]) and self.ps[j] == old(self.ps)[j])') % dict(s=_subj, n=_cnt, i=_idx)
# ... which is the rotation of the WHOLE strings by the generator padded with identities (Expand): the form in which the invariant
# proofs for states are carried out
_EG = 'Expand(generator.g, %s, %s)' % (_M2, _n2)
_mrot_glob = ('implies(AcqSum(%(E)s, old(self.gs)[j], len(mask)) %% 2 == 1, '
              'forall(c, 0, cols(self.gs), self.gs[j][c] == (old(self.gs)[j][c] + %(E)s[c]) %% 2) and '
              'self.ps[j] == (old(self.ps)[j] + generator.p + 1 + IpowSum(old(self.gs)[j], %(E)s, len(mask))) %% 4) and '
              'implies(AcqSum(%(E)s, old(self.gs)[j], len(mask)) %% 2 == 0, '
              'forall(c, 0, cols(self.gs), self.gs[j][c] == old(self.gs)[j][c]) and self.ps[j] == old(self.ps)[j])') % dict(E=_EG)
_mrot_hints = [('lemma', 'mask_index', [_M2, _n2]),
               ('forall_lemma', [('j', '0', 'rows(self.gs)')], 'expand_sums', ['generator.g', 'old(self.gs)[j]', 'mask', 'len(mask)', 'len(mask)'])]
CONTRACTS[PA + 'PauliList.rotate_by#mask'] = dict(
    params=[('self', PLIST), ('generator', dict(PAULI, exact=False)), ('mask', 'bool1')],
    requires=['cols(self.gs) == 2 * len(mask)', 'len(generator.g) == %s' % _cnt, 'len(self.ps) == rows(self.gs)', 'bits1(generator.g)', 'bits2(self.gs)'],
    ensures=['forall(j, 0, rows(self.gs), %s)' % _mrot_row, _local, 'same_loc(result, self)',
             'same_loc(self.gs, old(self.gs)) and same_loc(self.ps, old(self.ps))',
             'rows(self.gs) == rows(old(self.gs))', 'cols(self.gs) == cols(old(self.gs))',
             'forall(j, 0, rows(self.gs), %s)' % _mrot_glob, 'bits2(self.gs)'],
    modifies=['self.gs', 'self.ps'], returns='=self',
    hints={'return': _mrot_hints},
)
CONTRACTS[PA + 'PauliList.transform_by#mask'] = dict(
    params=[('self', PLIST), ('clifford_map', CMAP), ('mask', 'bool1')],
    requires=['cols(self.gs) == 2 * len(mask)', 'rows(clifford_map.gs) == %s' % _cnt, 'cols(clifford_map.gs) == %s' % _cnt,
              'len(clifford_map.ps) == rows(clifford_map.gs)', 'len(self.ps) == rows(self.gs)', 'bits2(clifford_map.gs)'],
    ensures=['rows(self.gs) == rows(old(self.gs))', 'cols(self.gs) == cols(old(self.gs))', 'len(self.ps) == rows(old(self.gs))',
             'forall(j, 0, rows(self.gs), forall(k, 0, %s, self.gs[j][%s[k]] == OrdG(%s, clifford_map.gs, %s, k)))' % (_cnt, _idx, _subj, _cnt),
             'forall(j, 0, rows(self.gs), self.ps[j] == (old(self.ps)[j] + XZSum(%s, %s // 2) %% 4 '
             '+ OrdP(%s, clifford_map.gs, clifford_map.ps, %s, %s // 2)) %% 4)' % (_subj, _cnt, _subj, _cnt, _cnt),
             _local, 'same_loc(result, self)', 'same_loc(self.gs, old(self.gs))', 'fresh_loc(self.ps)'],
    modifies=['self.gs', 'self.ps'], returns='=self',
)

# ------------------------------------------------------------------ C04 / C12 / C17: maps and states
CONTRACTS[ST + 'CliffordMap.copy'] = dict(
    params=[('self', CMAP)],
    requires=[],
    ensures=['rows(result.gs) == rows(self.gs)', 'cols(result.gs) == cols(self.gs)',
             'forall(j, 0, rows(self.gs), forall(c, 0, cols(self.gs), result.gs[j][c] == self.gs[j][c]))',
             'eq1(result.ps, self.ps)', 'fresh_loc(result.gs)', 'fresh_loc(result.ps)'],
    modifies=[], returns=CMAP,
)
CONTRACTS[ST + 'CliffordMap.compose'] = dict(
    params=[('self', CMAP), ('other', CMAP)],
    requires=['cols(self.gs) == rows(other.gs)', 'len(other.ps) == rows(other.gs)', 'len(self.ps) == rows(self.gs)', 'bits2(other.gs)'],
    # "this map transforms first": every row of self (the image of X_i / Z_i) is transformed by the other map
    ensures=['rows(result.gs) == rows(self.gs)', 'cols(result.gs) == cols(other.gs)', 'len(result.ps) == rows(self.gs)',
             'forall(j, 0, rows(self.gs), forall(c, 0, cols(other.gs), result.gs[j][c] == OrdG(self.gs[j], other.gs, rows(other.gs), c)))',
             'forall(j, 0, rows(self.gs), result.ps[j] == (self.ps[j] + XZSum(self.gs[j], cols(self.gs) // 2) % 4 '
             '+ OrdP(self.gs[j], other.gs, other.ps, rows(other.gs), cols(other.gs) // 2)) % 4)',
             'fresh_loc(result.gs)', 'fresh_loc(result.ps)'],
    modifies=[], returns=CMAP,
)
# inverse: "composes with its inverse results in identity map" -- stated as  inverse().compose(self) == identity_map, in the
# vocabulary of compose's own postcondition (OrdG / XZSum / OrdP), so that the two contracts chain without any further lemma:
#   string part:  row j of the inverse, transformed by self, is the unit string e_j
#   phase part:   its phase after that transformation is 0
CONTRACTS[ST + 'CliffordMap.inverse'] = dict(
    params=[('self', CMAP)],
    requires=['rows(self.gs) == cols(self.gs)', 'rows(self.gs) >= 1', 'len(self.ps) == rows(self.gs)', 'bits2(self.gs)'],
    ensures=['rows(result.gs) == rows(self.gs)', 'cols(result.gs) == rows(self.gs)', 'len(result.ps) == rows(self.gs)', 'bits2(result.gs)',
             'forall(j, 0, rows(self.gs), forall(c, 0, rows(self.gs), OrdG(result.gs[j], self.gs, rows(self.gs), c) == (1 if j == c else 0)))',
             'forall(j, 0, rows(self.gs), (result.ps[j] + XZSum(result.gs[j], cols(self.gs) // 2) % 4 '
             '+ OrdP(result.gs[j], self.gs, self.ps, rows(self.gs), cols(self.gs) // 2)) % 4 == 0)',
             'forall(j, 0, rows(self.gs), 0 <= result.ps[j] <= 3)',
             'fresh_loc(result.gs)', 'fresh_loc(result.ps)'],
    may_raise=['ValueError'],
    modifies=[], returns=CMAP,
)
_to_state_post = [
    'rows(result.gs) == rows(self.gs)', 'cols(result.gs) == cols(self.gs)', 'len(result.ps) == len(self.ps)',
    'forall(i, 0, rows(self.gs) // 2, forall(c, 0, cols(self.gs), result.gs[i][c] == self.gs[2 * i + 1][c] and result.gs[rows(self.gs) // 2 + i][c] == self.gs[2 * i][c]))',
    'forall(i, 0, rows(self.gs) // 2, result.ps[i] == self.ps[2 * i + 1] and result.ps[rows(self.gs) // 2 + i] == self.ps[2 * i])',
    'fresh_loc(result.gs)', 'fresh_loc(result.ps)',
    # C12 duality: the canonical commutation relations of the map (X_i / Z_i images) become the tableau structure of the state
    # (stabilizer i = image of Z_i, destabilizer i = image of X_i: rows anticommute exactly with their partners)
    'implies(gram_map(self.gs, rows(self.gs) // 2) and bits2(self.gs), gram(result.gs, rows(self.gs) // 2) and bits2(result.gs))']
_tsN = 'rows(self.gs) // 2'
_tsS = lambda a: '(2 * %s + 1 if %s < %s else 2 * (%s - %s))' % (a, a, _tsN, a, _tsN)      # state row a is map row sigma(a)
_ts_hints = {'return': [
    ('when?', 'gram_map(self.gs, %s) and bits2(self.gs)' % _tsN, []),
    ('assert_from', 'forall(a, 0, 2 * (%s), forall(c, 0, cols(self.gs), result.gs[a][c] == self.gs[%s][c]))' % (_tsN, _tsS('a')),
     [_to_state_post[3], 'rows(self.gs) == 2 * (%s)' % _tsN, 'cols(self.gs) == rows(self.gs)']),
    ('assert_from', 'implies(gram_map(self.gs, %s) and bits2(self.gs), gram(result.gs, %s) and bits2(result.gs))' % (_tsN, _tsN),
     ['forall(a, 0, 2 * (%s), forall(c, 0, cols(self.gs), result.gs[a][c] == self.gs[%s][c]))' % (_tsN, _tsS('a')),
      'rows(self.gs) == 2 * (%s)' % _tsN, 'cols(self.gs) == rows(self.gs)', 'rows(result.gs) == rows(self.gs)', 'cols(result.gs) == cols(self.gs)', '%s >= 0' % _tsN,
      'implies(gram_map(self.gs, %(N)s), forall(a, 0, 2 * (%(N)s), forall(b, 0, 2 * (%(N)s), AcqSum(self.gs[%(sa)s], self.gs[%(sb)s], %(N)s) %% 2 == '
      'b2i(%(sb)s == partner(%(sa)s)))))' % dict(N=_tsN, sa=_tsS('a'), sb=_tsS('b')),
      ('forall_lemma', [('a', '0', '2 * (%s)' % _tsN), ('b', '0', '2 * (%s)' % _tsN)], 'acqsum_ext', ['result.gs[a]', 'self.gs[%s]' % _tsS('a'), 'result.gs[b]', _tsN]),
      ('forall_lemma', [('a', '0', '2 * (%s)' % _tsN), ('b', '0', '2 * (%s)' % _tsN)], 'acqsum_ext', ['result.gs[b]', 'self.gs[%s]' % _tsS('b'), 'self.gs[%s]' % _tsS('a'), _tsN])]),
]}
_ts_hints['return'] = _ts_hints['return'][1:]
CONTRACTS[ST + 'CliffordMap.to_state#r'] = dict(
    params=[('self', CMAP), ('r', 'int')],
    requires=['rows(self.gs) == cols(self.gs)', 'cols(self.gs) % 2 == 0', 'len(self.ps) == rows(self.gs)'],
    ensures=_to_state_post + ['result.r == r'],
    modifies=[], returns=STATE, hints=_ts_hints,
)
CONTRACTS[ST + 'CliffordMap.to_state#none'] = dict(
    params=[('self', CMAP), ('r', 'none')], defaults={'r': None},
    requires=['rows(self.gs) == cols(self.gs)', 'cols(self.gs) % 2 == 0', 'len(self.ps) == rows(self.gs)'],
    ensures=_to_state_post + ['result.r == 0'],
    modifies=[], returns=STATE, hints=_ts_hints,
)
CONTRACTS[ST + 'StabilizerState.copy'] = dict(
    params=[('self', STATE)],
    requires=[],
    ensures=['rows(result.gs) == rows(self.gs)', 'cols(result.gs) == cols(self.gs)',
             'forall(j, 0, rows(self.gs), forall(c, 0, cols(self.gs), result.gs[j][c] == self.gs[j][c]))',
             'eq1(result.ps, self.ps)', 'result.r == self.r', 'fresh_loc(result.gs)', 'fresh_loc(result.ps)'],
    modifies=[], returns=STATE,
)
CONTRACTS[ST + 'StabilizerState.to_map'] = dict(
    params=[('self', STATE)],
    requires=['rows(self.gs) == cols(self.gs)', 'cols(self.gs) % 2 == 0', 'len(self.ps) == rows(self.gs)'],
    ensures=['rows(result.gs) == rows(self.gs)', 'cols(result.gs) == cols(self.gs)', 'len(result.ps) == len(self.ps)',
             'forall(i, 0, rows(self.gs) // 2, forall(c, 0, cols(self.gs), result.gs[2 * i + 1][c] == self.gs[i][c] and result.gs[2 * i][c] == self.gs[rows(self.gs) // 2 + i][c]))',
             'forall(i, 0, rows(self.gs) // 2, result.ps[2 * i + 1] == self.ps[i] and result.ps[2 * i] == self.ps[rows(self.gs) // 2 + i])',
             'fresh_loc(result.gs)', 'fresh_loc(result.ps)'],
    modifies=[], returns=CMAP,
)
CONTRACTS[ST + 'StabilizerState.expect#list'] = dict(
    params=[('self', STATE), ('obs', dict(PLIST, exact=True))],
    requires=['cols(obs.gs) % 2 == 0', 'rows(self.gs) == cols(obs.gs)', 'cols(self.gs) == cols(obs.gs)',
              'len(self.ps) == rows(self.gs)', 'len(obs.ps) == rows(obs.gs)', '0 <= self.r <= cols(obs.gs) // 2',
              'bits2(self.gs)', 'bits2(obs.gs)', 'herms1(obs.ps)'],
    ensures=['len(result) == rows(obs.gs)',
             'forall(k, 0, rows(obs.gs), expect_val(result[k], self.gs, self.ps, obs.gs[k], obs.ps[k], self.r, cols(obs.gs) // 2))'],
    modifies=[], returns='int1 fresh',
)
CONTRACTS[ST + 'identity_map'] = dict(
    params=[('N', 'int')],
    requires=['N >= 0'],
    ensures=['rows(result.gs) == 2 * N', 'cols(result.gs) == 2 * N', 'len(result.ps) == 2 * N',
             'forall(i, 0, 2 * N, forall(c, 0, 2 * N, result.gs[i][c] == b2i(i == c)))',
             'forall(i, 0, 2 * N, result.ps[i] == 0)',
             # the identity table satisfies the canonical commutation relations
             'gram_map(result.gs, N)', 'bits2(result.gs)'],
    modifies=[], returns=CMAP,
    hints={'return': [
        ('assert_from', 'gram_map(result.gs, N)',
         ['N >= 0', 'forall(i, 0, 2 * N, forall(c, 0, 2 * N, result.gs[i][c] == b2i(i == c)))',
          ('forall_lemma', [('a', '0', '2 * N'), ('b', '0', '2 * N')], 'acqsum_ext', ['result.gs[b]', 'Unit(b, 2 * N)', 'result.gs[a]', 'N']),
          ('forall_lemma', [('a', '0', '2 * N'), ('b', '0', '2 * N')], 'acq_unit', ['result.gs[a]', 'b', '2 * N', 'N'])]),
    ]},
)

# ------------------------------------------------------------------ C05 / C06 / C14 / C17: measurement glue
_inv_self = 'inv_state(self.gs, self.ps, self.r, cols(self.gs) // 2)'
CONTRACTS[ST + 'StabilizerState.measure#list'] = dict(
    params=[('self', STATE), ('obs', dict(PLIST, exact=True))],
    requires=['cols(obs.gs) % 2 == 0', 'cols(obs.gs) == cols(self.gs)', _inv_self, 'bits2(obs.gs)', 'len(obs.ps) == rows(obs.gs)', 'herms1(obs.ps)'],
    # the state object keeps its arrays (updated in place), carries the rank returned by the kernel, and stays valid
    ensures=[_inv_self, 'self.r <= old(self.r)', 'same_loc(self.gs, old(self.gs))', 'same_loc(self.ps, old(self.ps))',
             'len(result[0]) == rows(obs.gs)', 'forall(k, 0, rows(obs.gs), result[0][k] == 0 or result[0][k] == 1)'],
    modifies=['self.gs', 'self.ps'], modifies_scalar=['self.r'], returns=('int1 fresh', 'real'),
)
CONTRACTS[ST + 'StabilizerState.postselect'] = dict(
    params=[('self', STATE), ('paulistring', dict(PAULI, exact=False)), ('postselect_res', 'int')],
    requires=['cols(self.gs) % 2 == 0', 'inv_state(self.gs, self.ps, 0, cols(self.gs) // 2)', '0 <= self.r', 'len(paulistring.g) == cols(self.gs)',
              'bits1(paulistring.g)', 'paulistring.p == 0 or paulistring.p == 2', 'postselect_res == 0 or postselect_res == 1'],
    raises={'ValueError': 'self.r != 0'},
    ensures=['inv_state(self.gs, self.ps, 0, cols(self.gs) // 2)', 'self.r == 0',
             # the requested eigenvalue (-1)^res of the SIGNED operator i^p sigma[g]: the kernel is asked for the sign p + 2 res
             'implies(no_anti(old(self.gs), paulistring.g, cols(self.gs) // 2, cols(self.gs) // 2), '
             'forall(i, 0, rows(self.gs), same(self.gs[i], old(self.gs)[i]) and self.ps[i] == old(self.ps)[i]) and '
             'result == (1 if OrdP(DestabSel(old(self.gs), paulistring.g, 0, cols(self.gs) // 2), old(self.gs), old(self.ps), cols(self.gs) // 2, cols(self.gs) // 2) '
             '== (paulistring.p + 2 * postselect_res) % 4 else 0))',
             'implies(not no_anti(old(self.gs), paulistring.g, cols(self.gs) // 2, cols(self.gs) // 2), 2 * result == 1 and '
             'exists(pp, 0, cols(self.gs) // 2, same(self.gs[pp], paulistring.g) and self.ps[pp] == (paulistring.p + 2 * postselect_res) % 4))'],
    modifies=['self.gs', 'self.ps'], returns='real',
)

CI = 'pyclifford/circuit.py::'
MLAYER = {'cls': 'MeasureLayer', 'fields': {'gs': 'int2', 'ps': 'int1', 'N': 'int', 'result': 'none', 'log2prob': 'none'}}
CONTRACTS[CI + 'MeasureLayer.forward'] = dict(
    params=[('self', MLAYER), ('obj', STATE)],
    requires=['cols(self.gs) % 2 == 0', 'cols(self.gs) == cols(obj.gs)', 'inv_state(obj.gs, obj.ps, obj.r, cols(obj.gs) // 2)',
              'bits2(self.gs)', 'len(self.ps) == rows(self.gs)', 'herms1(self.ps)'],
    ensures=['inv_state(obj.gs, obj.ps, obj.r, cols(obj.gs) // 2)', 'obj.r <= old(obj.r)',
             'same_loc(obj.gs, old(obj.gs))', 'same_loc(obj.ps, old(obj.ps))', 'same_loc(result, obj)',
             'len(self.result) == rows(self.gs)', 'forall(k, 0, rows(self.gs), self.result[k] == 1 or self.result[k] == -1)'],
    modifies=['obj.gs', 'obj.ps', 'self.result', 'self.log2prob'], modifies_scalar=['obj.r'], returns='=obj',
)
CONTRACTS[ST + 'StabilizerState.expect#state'] = dict(
    params=[('self', STATE), ('obs', dict(STATE, exact=True))],
    requires=['cols(self.gs) % 2 == 0', 'inv_state(self.gs, self.ps, 0, cols(self.gs) // 2)', 'self.r == 0',
              'inv_state(obs.gs, obs.ps, obs.r, cols(self.gs) // 2)'],
    # a query: receiver and argument unchanged (the in-place kernel must be given copies)
    ensures=[],
    modifies=[], returns='real',
)

# ------------------------------------------------------------------ C20: multiplication by the units +1, i, -1, -i and negation
for _tag, _c, _k in (('1', 1, 0), ('i', 1j, 1), ('m1', -1, 2), ('mi', -1j, 3)):
    CONTRACTS[PA + 'Pauli.__rmul__#' + _tag] = dict(
        params=[('self', PAULI), ('c', ('const', _c))],
        requires=['0 <= self.p <= 3'],
        ensures=['same(result.g, self.g)', 'len(result.g) == len(self.g)', 'result.p == (self.p + %d) %% 4' % _k],
        modifies=[], returns=dict(PAULI, exact=False),
    )
    CONTRACTS[PA + 'PauliList.__rmul__#' + _tag] = dict(
        params=[('self', dict(PLIST, exact=True)), ('c', ('const', _c))],
        requires=['phases1(self.ps)'],
        ensures=['same(result.gs, self.gs)', 'rows(result.gs) == rows(self.gs)', 'cols(result.gs) == cols(self.gs)', 'len(result.ps) == len(self.ps)',
                 'forall(j, 0, len(self.ps), result.ps[j] == (self.ps[j] + %d) %% 4)' % _k],
        modifies=[], returns=PLIST,
    )
CONTRACTS[PA + 'PauliList.__neg__'] = dict(
    params=[('self', dict(PLIST, exact=True))],
    requires=['phases1(self.ps)'],
    ensures=['same(result.gs, self.gs)', 'len(result.ps) == len(self.ps)', 'forall(j, 0, len(self.ps), result.ps[j] == (self.ps[j] + 2) % 4)'],
    modifies=[], returns=PLIST,
)

# ------------------------------------------------------------------ C05: rotating a state keeps it valid
_og, _gg, _NN = 'old(self.gs)', 'generator.g', 'cols(self.gs) // 2'
CONTRACTS[PA + 'PauliList.rotate_by#state'] = dict(
    params=[('self', STATE), ('generator', dict(PAULI, exact=False)), ('mask', 'none')], defaults={'mask': None},
    requires=['cols(self.gs) % 2 == 0', 'inv_state(self.gs, self.ps, self.r, %s)' % _NN, 'len(generator.g) == cols(self.gs)', 'bits1(generator.g)',
              'generator.p == 0 or generator.p == 2'],
    ensures=['rows(self.gs) == 2 * (%s)' % _NN, 'cols(self.gs) == 2 * (%s)' % _NN, 'len(self.ps) == 2 * (%s)' % _NN, 'bits2(self.gs)',
             'gram(self.gs, %s)' % _NN, 'forall(a, self.r, %s, self.ps[a] == 0 or self.ps[a] == 2)' % _NN, 'same_loc(result, self)'],
    modifies=['self.gs', 'self.ps'], returns='=self',
    hints={'return': [
        # conjugation preserves commutation relations: every row is multiplied by G exactly when it anticommutes with G
        ('assert_from', 'gram(self.gs, %s)' % _NN,
         ['gram(%s, %s)' % (_og, _NN),
          'forall(j, 0, rows(self.gs), same(self.gs[j], Xor(%s[j], %s)) if AcqSum(%s, %s[j], %s) %% 2 == 1 else same(self.gs[j], %s[j]))'
          % (_og, _gg, _gg, _og, _NN, _og),
          'rows(self.gs) == 2 * (%s)' % _NN,
          ('forall_lemma', [('i', '0', 'rows(self.gs)'), ('l', '0', 'rows(self.gs)')], 'acq_bilinear', ['%s[i]' % _og, _gg, '%s[l]' % _og, _NN]),
          ('forall_lemma', [('i', '0', 'rows(self.gs)'), ('l', '0', 'rows(self.gs)')], 'acq_bilinear', ['%s[i]' % _og, _gg, 'Xor(%s[l], %s)' % (_og, _gg), _NN]),
          ('forall_lemma', [('i', '0', 'rows(self.gs)')], 'acq_bilinear', ['%s[i]' % _og, _gg, _gg, _NN]),
          ('forall_lemma', [('i', '0', 'rows(self.gs)')], 'acq_antisym', ['%s[i]' % _og, _gg, _NN]),
          ('lemma', 'acq_antisym', [_gg, _gg, _NN])]),
        # Hermitian signs: i P G is Hermitian when P and G anticommute (odd power of i from the product, plus the explicit i)
        ('assert_from', 'forall(a, self.r, %s, self.ps[a] == 0 or self.ps[a] == 2)' % _NN,
         ['forall(j, 0, rows(self.gs), self.ps[j] == (old(self.ps)[j] + generator.p + 1 + IpowSum(%s[j], %s, %s)) %% 4 '
          'if AcqSum(%s, %s[j], %s) %% 2 == 1 else self.ps[j] == old(self.ps)[j])' % (_og, _gg, _NN, _gg, _og, _NN),
          'forall(a, self.r, %s, old(self.ps)[a] == 0 or old(self.ps)[a] == 2)' % _NN, 'generator.p == 0 or generator.p == 2',
          '0 <= self.r', 'rows(self.gs) == 2 * (%s)' % _NN,
          ('forall_lemma', [('i', '0', 'rows(self.gs)')], 'ipow_parity', ['%s[i]' % _og, _gg, _NN]),
          ('forall_lemma', [('i', '0', 'rows(self.gs)')], 'acq_antisym', ['%s[i]' % _og, _gg, _NN])]),
    ]},
)

# ------------------------------------------------------------------ C01 / C15: product of two polynomials
POLY = {'cls': 'PauliPolynomial', 'fields': {'gs': 'int2', 'ps': 'int1', 'cs': 'cplx1'}}
CONTRACTS[PA + 'PauliPolynomial.__matmul__#poly'] = dict(
    params=[('self', POLY), ('other', POLY)],
    requires=['cols(self.gs) == cols(other.gs)', 'len(self.ps) == rows(self.gs)', 'len(self.cs) == rows(self.gs)',
              'len(other.ps) == rows(other.gs)', 'len(other.cs) == rows(other.gs)', 'bits2(self.gs)', 'bits2(other.gs)'],
    ensures=['rows(result.gs) == rows(self.gs) * rows(other.gs)', 'len(result.ps) == rows(self.gs) * rows(other.gs)',
             'len(result.cs) == rows(self.gs) * rows(other.gs)',
             'forall(a, 0, rows(self.gs), forall(b, 0, rows(other.gs), forall(c, 0, cols(self.gs), '
             'result.gs[a * rows(other.gs) + b][c] == (self.gs[a][c] + other.gs[b][c]) % 2)))',
             'forall(a, 0, rows(self.gs), forall(b, 0, rows(other.gs), '
             'result.ps[a * rows(other.gs) + b] == (self.ps[a] + other.ps[b] + IpowSum(self.gs[a], other.gs[b], cols(self.gs) // 2)) % 4))',
             'forall(a, 0, rows(self.gs), forall(b, 0, rows(other.gs), result.cs[a * rows(other.gs) + b] == cmul(self.cs[a], other.cs[b])))',
             'fresh_loc(result.gs)', 'fresh_loc(result.ps)', 'fresh_loc(result.cs)'],
    modifies=[], returns=POLY,
)

PMONO = {'cls': 'PauliMonomial', 'fields': {'g': 'int1', 'p': 'int', 'c': 'cplx'}}
CONTRACTS[PA + 'Pauli.__matmul__#Monomial'] = dict(
    params=[('self', PAULI), ('other', PMONO)],
    requires=['len(self.g) == len(other.g)', 'bits1(self.g)', 'bits1(other.g)'],
    # a plain Pauli times a monomial is the one-term polynomial carrying the monomial's coefficient (times the unit coefficient)
    ensures=['rows(result.gs) == 1', 'len(result.ps) == 1', 'len(result.cs) == 1',
             'forall(c, 0, len(self.g), result.gs[0][c] == (self.g[c] + other.g[c]) % 2)',
             'result.ps[0] == (self.p + other.p + IpowSum(self.g, other.g, len(self.g) // 2)) % 4',
             'result.cs[0] == cmul(cplx_one(), other.c)'],
    modifies=[], returns=POLY,
)

# ------------------------------------------------------------------ C09 / C10: a gate acting on the whole register
GATE_GEN = {'cls': 'CliffordGate', 'fields': {'n': 'int', 'generator': dict(PAULI, exact=False), 'forward_map': 'none', 'backward_map': 'none', 'qubits': 'none'}}
GATE_MAP = {'cls': 'CliffordGate', 'fields': {'n': 'int', 'generator': 'none', 'forward_map': CMAP, 'backward_map': 'none', 'qubits': 'none'}}
_rot_obj = _rot_row.replace('self.', 'obj.').replace('generator.', 'self.generator.')
_gate_req = ['self.n == cols(obj.gs) // 2', 'cols(obj.gs) % 2 == 0', 'len(self.generator.g) == cols(obj.gs)', 'len(obj.ps) == rows(obj.gs)',
             'bits1(self.generator.g)', 'bits2(obj.gs)', '0 <= self.generator.p <= 3']
CONTRACTS[CI + 'CliffordGate.forward#generator_global'] = dict(
    params=[('self', GATE_GEN), ('obj', PLIST)],
    requires=_gate_req,
    # a generator gate on the full register IS the rotation by its generator (generator first, maps ignored)
    ensures=['forall(j, 0, rows(obj.gs), %s)' % _rot_obj, 'same_loc(result, obj)'],
    modifies=['obj.gs', 'obj.ps'], returns='=obj',
)
CONTRACTS[CI + 'CliffordGate.backward#generator_global'] = dict(
    params=[('self', GATE_GEN), ('obj', PLIST)],
    requires=_gate_req,
    # ... and backward is the rotation by MINUS the generator (same string, phase + 2)
    ensures=['forall(j, 0, rows(obj.gs), %s)' % _rot_obj.replace('self.generator.p + 1', '(self.generator.p + 2) % 4 + 1'), 'same_loc(result, obj)'],
    modifies=['obj.gs', 'obj.ps'], returns='=obj',
)
CONTRACTS[CI + 'CliffordGate.forward#map_global'] = dict(
    params=[('self', GATE_MAP), ('obj', PLIST)],
    requires=['self.n == cols(obj.gs) // 2', 'cols(obj.gs) % 2 == 0', 'cols(obj.gs) == rows(self.forward_map.gs)',
              'len(self.forward_map.ps) == rows(self.forward_map.gs)', 'len(obj.ps) == rows(obj.gs)', 'bits2(self.forward_map.gs)'],
    ensures=['forall(j, 0, rows(old(obj.gs)), forall(c, 0, cols(self.forward_map.gs), '
             'obj.gs[j][c] == OrdG(old(obj.gs)[j], self.forward_map.gs, rows(self.forward_map.gs), c)))',
             'forall(j, 0, rows(old(obj.gs)), obj.ps[j] == (old(obj.ps)[j] + XZSum(old(obj.gs)[j], cols(old(obj.gs)) // 2) % 4 '
             '+ OrdP(old(obj.gs)[j], self.forward_map.gs, self.forward_map.ps, rows(self.forward_map.gs), cols(self.forward_map.gs) // 2)) % 4)',
             'same_loc(result, obj)'],
    modifies=['obj.gs', 'obj.ps'], returns='=obj',
)

# ------------------------------------------------------------------ C03 / C05: transforming a state by a valid map keeps the commutation structure
_M, _os, _N2 = 'clifford_map.gs', 'old(self.gs)', 'cols(clifford_map.gs) // 2'
_R = lambda i: 'OrdGRow(%s[%s], %s, rows(%s))' % (_os, i, _M, _M)
CONTRACTS[PA + 'PauliList.transform_by#state'] = dict(
    params=[('self', STATE), ('clifford_map', CMAP), ('mask', 'none')], defaults={'mask': None},
    requires=['cols(self.gs) % 2 == 0', 'inv_state(self.gs, self.ps, self.r, cols(self.gs) // 2)',
              'rows(clifford_map.gs) == cols(self.gs)', 'cols(clifford_map.gs) == cols(self.gs)', 'len(clifford_map.ps) == rows(clifford_map.gs)',
              'bits2(clifford_map.gs)', 'gram_map(clifford_map.gs, cols(self.gs) // 2)',
              'forall(k, 0, rows(clifford_map.gs), clifford_map.ps[k] == 0 or clifford_map.ps[k] == 2)'],
    # the images of the tableau rows under a valid map (Hermitian images of X_i, Z_i) form a valid tableau again: rows still anticommute
    # exactly with their partners, and the active stabilizers keep Hermitian signs
    ensures=['rows(self.gs) == 2 * (%s)' % _N2, 'cols(self.gs) == 2 * (%s)' % _N2, 'len(self.ps) == 2 * (%s)' % _N2, 'bits2(self.gs)',
             'gram(self.gs, %s)' % _N2, 'same_loc(result, self)', 'self.r == old(self.r)',
             'forall(a, self.r, %s, self.ps[a] == 0 or self.ps[a] == 2)' % _N2],
    modifies=['self.gs', 'self.ps'], returns='=self',
    hints={'return': [
        ('assert_from', 'gram(self.gs, %s)' % _N2,
         ['gram(%s, %s)' % (_os, _N2), 'rows(self.gs) == 2 * (%s)' % _N2, 'rows(%s) == 2 * (%s)' % (_M, _N2), '%s >= 0' % _N2,
          'forall(j, 0, 2 * (%s), forall(c, 0, 2 * (%s), self.gs[j][c] == OrdG(%s[j], %s, rows(%s), c)))' % (_N2, _N2, _os, _M, _M),
          ('forall_lemma', [('i', '0', 'rows(self.gs)'), ('l', '0', 'rows(self.gs)')], 'transform_preserves_acq', ['%s[i]' % _os, '%s[l]' % _os, _M, _N2]),
          ('forall_lemma', [('i', '0', 'rows(self.gs)'), ('l', '0', 'rows(self.gs)')], 'acqsum_ext', ['self.gs[i]', _R('i'), 'self.gs[l]', _N2]),
          ('forall_lemma', [('i', '0', 'rows(self.gs)'), ('l', '0', 'rows(self.gs)')], 'acqsum_ext', ['self.gs[l]', _R('l'), _R('i'), _N2])]),
        ('assert_from', 'forall(a, self.r, %s, self.ps[a] == 0 or self.ps[a] == 2)' % _N2,
         ['forall(j, 0, 2 * (%s), self.ps[j] == (old(self.ps)[j] + XZSum(%s[j], %s) %% 4 + OrdP(%s[j], %s, clifford_map.ps, 2 * (%s), %s)) %% 4)'
          % (_N2, _os, _N2, _os, _M, _N2, _N2),
          'forall(a, self.r, %s, old(self.ps)[a] == 0 or old(self.ps)[a] == 2)' % _N2, '0 <= self.r', 'self.r == old(self.r)',
          ('forall_lemma', [('j', '0', '2 * (%s)' % _N2)], 'ordp_parity', ['%s[j]' % _os, _M, 'clifford_map.ps', '2 * (%s)' % _N2, _N2]),
          ('forall_lemma', [('j', '0', '2 * (%s)' % _N2)], 'xzpartial_full', ['%s[j]' % _os, _N2])]),
    ]},
)

# ------------------------------------------------------------------ C05 / C09: a full-register gate keeps a state valid
_inv_obj = 'inv_state(obj.gs, obj.ps, obj.r, cols(obj.gs) // 2)'
_inv_obj_post = ['rows(obj.gs) == cols(obj.gs)', 'len(obj.ps) == rows(obj.gs)', 'bits2(obj.gs)', 'gram(obj.gs, cols(obj.gs) // 2)',
                 'forall(a, obj.r, cols(obj.gs) // 2, obj.ps[a] == 0 or obj.ps[a] == 2)', 'obj.r == old(obj.r)', 'same_loc(result, obj)']
CONTRACTS[CI + 'CliffordGate.forward#generator_global_state'] = dict(
    params=[('self', GATE_GEN), ('obj', STATE)],
    requires=['self.n == cols(obj.gs) // 2', 'cols(obj.gs) % 2 == 0', _inv_obj, 'len(self.generator.g) == cols(obj.gs)', 'bits1(self.generator.g)',
              'self.generator.p == 0 or self.generator.p == 2'],
    ensures=_inv_obj_post, modifies=['obj.gs', 'obj.ps'], returns='=obj',
)
CONTRACTS[CI + 'CliffordGate.backward#generator_global_state'] = dict(
    params=[('self', GATE_GEN), ('obj', STATE)],
    requires=['self.n == cols(obj.gs) // 2', 'cols(obj.gs) % 2 == 0', _inv_obj, 'len(self.generator.g) == cols(obj.gs)', 'bits1(self.generator.g)',
              'self.generator.p == 0 or self.generator.p == 2'],
    ensures=_inv_obj_post, modifies=['obj.gs', 'obj.ps'], returns='=obj',
)
CONTRACTS[CI + 'CliffordGate.forward#map_global_state'] = dict(
    params=[('self', GATE_MAP), ('obj', STATE)],
    requires=['self.n == cols(obj.gs) // 2', 'cols(obj.gs) % 2 == 0', _inv_obj,
              'rows(self.forward_map.gs) == cols(obj.gs)', 'cols(self.forward_map.gs) == cols(obj.gs)', 'len(self.forward_map.ps) == rows(self.forward_map.gs)',
              'bits2(self.forward_map.gs)', 'gram_map(self.forward_map.gs, cols(obj.gs) // 2)',
              'forall(k, 0, rows(self.forward_map.gs), self.forward_map.ps[k] == 0 or self.forward_map.ps[k] == 2)'],
    ensures=_inv_obj_post, modifies=['obj.gs', 'obj.ps'], returns='=obj',
)

# ------------------------------------------------------------------ C09: local gates -- a gate acts on its declared qubits only
# qubits: the gate's tuple of qubit indices as an integer sequence; the gate is local (n < N).  The postcondition is the masked
# operation of PauliList with mask := QMask(qubits): on the compressed strings the gate is the small rotation / map, every column
# of a qubit that is not listed is untouched.
GATE_GEN_L = {'cls': 'CliffordGate', 'fields': {'n': 'int', 'generator': dict(PAULI, exact=False), 'forward_map': 'none', 'backward_map': 'none', 'qubits': 'int1'}}
GATE_MAP_L = {'cls': 'CliffordGate', 'fields': {'n': 'int', 'generator': 'none', 'forward_map': CMAP, 'backward_map': 'none', 'qubits': 'int1'}}
_QM = 'QMask(self.qubits, len(self.qubits), cols(obj.gs) // 2)'


def _gate_local(text):
    return (text.replace('Repeat2(mask)', 'Repeat2(%s)' % _QM).replace('2 * len(mask)', 'cols(obj.gs)')
            .replace('self.', 'obj.').replace('generator.', 'self.generator.').replace('clifford_map.', 'self.forward_map.')
            .replace('QMask(obj.qubits, len(obj.qubits)', 'QMask(self.qubits, len(self.qubits)'))


_gl_req = ['self.n != cols(obj.gs) // 2', 'cols(obj.gs) % 2 == 0', 'len(self.qubits) >= 1',
           'forall(k, 0, len(self.qubits), 0 <= self.qubits[k] < cols(obj.gs) // 2)', 'len(obj.ps) == rows(obj.gs)']
_cntL = _gate_local(_cnt)
CONTRACTS[CI + 'CliffordGate.forward#generator_local'] = dict(
    params=[('self', GATE_GEN_L), ('obj', PLIST)],
    requires=_gl_req + ['len(self.generator.g) == %s' % _cntL, 'bits1(self.generator.g)', 'bits2(obj.gs)'],
    ensures=['forall(j, 0, rows(obj.gs), %s)' % _gate_local(_mrot_row), _gate_local(_local), 'same_loc(result, obj)'],
    modifies=['obj.gs', 'obj.ps'], returns='=obj',
)
CONTRACTS[CI + 'CliffordGate.backward#generator_local'] = dict(
    params=[('self', GATE_GEN_L), ('obj', PLIST)],
    requires=_gl_req + ['len(self.generator.g) == %s' % _cntL, 'bits1(self.generator.g)', 'bits2(obj.gs)', '0 <= self.generator.p <= 3'],
    ensures=['forall(j, 0, rows(obj.gs), %s)' % _gate_local(_mrot_row).replace('self.generator.p + 1', '(self.generator.p + 2) % 4 + 1'),
             _gate_local(_local), 'same_loc(result, obj)'],
    modifies=['obj.gs', 'obj.ps'], returns='=obj',
)
_tm = CONTRACTS[PA + 'PauliList.transform_by#mask']
CONTRACTS[CI + 'CliffordGate.forward#map_local'] = dict(
    params=[('self', GATE_MAP_L), ('obj', PLIST)],
    requires=_gl_req + ['rows(self.forward_map.gs) == %s' % _cntL, 'cols(self.forward_map.gs) == %s' % _cntL,
                        'len(self.forward_map.ps) == rows(self.forward_map.gs)', 'bits2(self.forward_map.gs)'],
    ensures=[_gate_local(e) for e in _tm['ensures'][3:6]] + ['same_loc(result, obj)'],
    modifies=['obj.gs', 'obj.ps'], returns='=obj',
)

# ------------------------------------------------------------------ C02 / C12: constructors built from maps
# clifford_rotation_map(G): the table of the rotation by G -- row i is the image of the unit string e_i (X_0, Z_0, X_1, ...), i.e.
# i * e_i * G with the exact phase when e_i anticommutes with G, e_i itself otherwise.
_unit = 'b2i(i == c)'
CONTRACTS[ST + 'clifford_rotation_map'] = dict(
    params=[('gen', dict(PAULI, exact=False))],
    requires=['len(gen.g) % 2 == 0', 'bits1(gen.g)'],
    ensures=['rows(result.gs) == len(gen.g)', 'cols(result.gs) == len(gen.g)', 'len(result.ps) == len(gen.g)',
             'forall(i, 0, len(gen.g), implies(gen.g[i + 1 if i % 2 == 0 else i - 1] != 0, '
             'forall(c, 0, len(gen.g), result.gs[i][c] == (b2i(i == c) + gen.g[c]) % 2) and '
             'result.ps[i] == (gen.p + 1 + IpowSum(Unit(i, len(gen.g)), gen.g, len(gen.g) // 2)) % 4))',
             'forall(i, 0, len(gen.g), implies(gen.g[i + 1 if i % 2 == 0 else i - 1] == 0, '
             'forall(c, 0, len(gen.g), result.gs[i][c] == b2i(i == c)) and result.ps[i] == 0))',
             'fresh_loc(result.gs)', 'fresh_loc(result.ps)'],
    modifies=[], returns=CMAP,
    hints={'return': [
        ('forall_lemma', [('i', '0', 'len(gen.g)')], 'acq_unit', ['gen.g', 'i', 'len(gen.g)', 'len(gen.g) // 2']),
        ('forall_lemma', [('i', '0', 'len(gen.g)')], 'acqsum_ext', ["at('call:clifford_rotate#0.pre', gs)[i]", 'Unit(i, len(gen.g))', 'gen.g', 'len(gen.g) // 2']),
        ('forall_lemma', [('i', '0', 'len(gen.g)')], 'ipowsum_ext', ["at('call:clifford_rotate#0.pre', gs)[i]", 'Unit(i, len(gen.g))', 'gen.g', 'len(gen.g) // 2']),
    ]},
)
_zs = ['rows(result.gs) == 2 * N', 'cols(result.gs) == 2 * N', 'len(result.ps) == 2 * N',
       # stabilizers Z_i in rows 0..N-1, destabilizers X_i in rows N..2N-1, all signs +
       'forall(i, 0, N, forall(c, 0, 2 * N, result.gs[i][c] == b2i(c == 2 * i + 1) and result.gs[N + i][c] == b2i(c == 2 * i)))',
       'forall(i, 0, N, result.ps[i] == 0 and result.ps[N + i] == 0)',
       'gram(result.gs, N)', 'bits2(result.gs)']
CONTRACTS[ST + 'zero_state'] = dict(
    params=[('N', 'int')], requires=['N >= 0'], ensures=_zs + ['result.r == 0'], modifies=[], returns=STATE)
CONTRACTS[ST + 'maximally_mixed_state'] = dict(
    params=[('N', 'int')], requires=['N >= 0'], ensures=_zs + ['result.r == N'], modifies=[], returns=STATE)

# ------------------------------------------------------------------ C05 / C09: rotating a SUBSYSTEM of a state keeps the state valid
_sE, _sN, _sog = _EG, 'len(mask)', 'old(self.gs)'
_sR = lambda j: '(Xor(%s[%s], %s) if AcqSum(%s, %s[%s], %s) %% 2 == 1 else %s[%s])' % (_sog, j, _sE, _sE, _sog, j, _sN, _sog, j)
CONTRACTS[PA + 'PauliList.rotate_by#mask_state'] = dict(
    params=[('self', STATE), ('generator', dict(PAULI, exact=False)), ('mask', 'bool1')],
    requires=['cols(self.gs) == 2 * len(mask)', 'inv_state(self.gs, self.ps, self.r, len(mask))', 'len(generator.g) == %s' % _cnt, 'bits1(generator.g)',
              'generator.p == 0 or generator.p == 2'],
    ensures=['rows(self.gs) == 2 * len(mask)', 'cols(self.gs) == 2 * len(mask)', 'len(self.ps) == 2 * len(mask)', 'bits2(self.gs)',
             'gram(self.gs, len(mask))', 'forall(a, self.r, len(mask), self.ps[a] == 0 or self.ps[a] == 2)', 'same_loc(result, self)',
             'self.r == old(self.r)'],
    modifies=['self.gs', 'self.ps'], returns='=self',
    hints={'return': _mrot_hints + [
        ('assert', 'forall(j, 0, rows(self.gs), %s)' % _mrot_glob),
        ('assert', 'bits(%s, 2 * len(mask))' % _sE),
        ('assert_from', 'forall(a, 0, 2 * len(mask), forall(b, 0, 2 * len(mask), AcqSum(self.gs[a], self.gs[b], len(mask)) == AcqSum(%s, %s, len(mask))))' % (_sR('a'), _sR('b')),
         ['rows(self.gs) == 2 * len(mask)', 'cols(self.gs) == 2 * len(mask)',
          'forall(j, 0, 2 * len(mask), forall(c, 0, 2 * len(mask), self.gs[j][c] == %s[c]))' % _sR('j'),
          ('forall_lemma', [('a', '0', '2 * len(mask)'), ('b', '0', '2 * len(mask)')], 'acqsum_ext', ['self.gs[a]', _sR('a'), 'self.gs[b]', _sN]),
          ('forall_lemma', [('a', '0', '2 * len(mask)'), ('b', '0', '2 * len(mask)')], 'acqsum_ext', ['self.gs[b]', _sR('b'), _sR('a'), _sN])]),
        ('assert_from', 'gram(self.gs, len(mask))',
         ['gram(%s, %s)' % (_sog, _sN), 'rows(self.gs) == 2 * len(mask)', 'len(mask) >= 0',
          'forall(a, 0, 2 * len(mask), forall(b, 0, 2 * len(mask), AcqSum(self.gs[a], self.gs[b], len(mask)) == AcqSum(%s, %s, len(mask))))' % (_sR('a'), _sR('b')),
          ('forall_lemma', [('i', '0', '2 * len(mask)'), ('l', '0', '2 * len(mask)')], 'acq_bilinear', ['%s[i]' % _sog, _sE, '%s[l]' % _sog, _sN]),
          ('forall_lemma', [('i', '0', '2 * len(mask)'), ('l', '0', '2 * len(mask)')], 'acq_bilinear', ['%s[i]' % _sog, _sE, 'Xor(%s[l], %s)' % (_sog, _sE), _sN]),
          ('forall_lemma', [('i', '0', '2 * len(mask)')], 'acq_bilinear', ['%s[i]' % _sog, _sE, _sE, _sN]),
          ('forall_lemma', [('i', '0', '2 * len(mask)')], 'acq_antisym', ['%s[i]' % _sog, _sE, _sN]),
          ('lemma', 'acq_antisym', [_sE, _sE, _sN])]),
        ('assert_from', 'forall(a, self.r, len(mask), self.ps[a] == 0 or self.ps[a] == 2)',
         ['forall(j, 0, rows(self.gs), self.ps[j] == (old(self.ps)[j] + generator.p + 1 + IpowSum(%s[j], %s, %s)) %% 4 '
          'if AcqSum(%s, %s[j], %s) %% 2 == 1 else self.ps[j] == old(self.ps)[j])' % (_sog, _sE, _sN, _sE, _sog, _sN),
          'forall(a, self.r, %s, old(self.ps)[a] == 0 or old(self.ps)[a] == 2)' % _sN, 'generator.p == 0 or generator.p == 2',
          '0 <= self.r', 'rows(self.gs) == 2 * (%s)' % _sN,
          ('forall_lemma', [('i', '0', 'rows(self.gs)')], 'ipow_parity', ['%s[i]' % _sog, _sE, _sN]),
          ('forall_lemma', [('i', '0', 'rows(self.gs)')], 'acq_antisym', ['%s[i]' % _sog, _sE, _sN])]),
    ]},
)

# a local generator gate keeps a state valid (tableau invariant of C05), for every register size and every qubit tuple
_gls_req = ['self.n != cols(obj.gs) // 2', 'cols(obj.gs) % 2 == 0', 'len(self.qubits) >= 1',
            'forall(k, 0, len(self.qubits), 0 <= self.qubits[k] < cols(obj.gs) // 2)', _inv_obj,
            'len(self.generator.g) == %s' % _cntL, 'bits1(self.generator.g)', 'self.generator.p == 0 or self.generator.p == 2']
CONTRACTS[CI + 'CliffordGate.forward#generator_local_state'] = dict(
    params=[('self', GATE_GEN_L), ('obj', STATE)], requires=_gls_req,
    ensures=_inv_obj_post, modifies=['obj.gs', 'obj.ps'], returns='=obj',
)
CONTRACTS[CI + 'CliffordGate.backward#generator_local_state'] = dict(
    params=[('self', GATE_GEN_L), ('obj', STATE)], requires=_gls_req,
    ensures=_inv_obj_post, modifies=['obj.gs', 'obj.ps'], returns='=obj',
)

# ------------------------------------------------------------------ C05 / C09: a valid map applied to a SUBSYSTEM of a state keeps the state valid
_tN, _tn = 'len(mask)', '(%s // 2)' % _cnt
_tC = lambda row: 'Compress(%s, %s, %s)' % (row, _M2, _n2)
_tM = 'clifford_map.gs'
_tT = lambda row: 'OrdGRow(%s, %s, %s)' % (_tC(row), _tM, _cnt)
_ab = [('a', '0', '2 * len(mask)'), ('b', '0', '2 * len(mask)')]
_tm_post = CONTRACTS[PA + 'PauliList.transform_by#mask']['ensures']
CONTRACTS[PA + 'PauliList.transform_by#mask_state'] = dict(
    params=[('self', STATE), ('clifford_map', CMAP), ('mask', 'bool1')],
    requires=['cols(self.gs) == 2 * len(mask)', 'inv_state(self.gs, self.ps, self.r, len(mask))',
              'rows(clifford_map.gs) == %s' % _cnt, 'cols(clifford_map.gs) == %s' % _cnt, 'len(clifford_map.ps) == rows(clifford_map.gs)',
              'bits2(clifford_map.gs)', 'gram_map(clifford_map.gs, %s)' % _tn,
              'forall(k, 0, rows(clifford_map.gs), clifford_map.ps[k] == 0 or clifford_map.ps[k] == 2)'],
    ensures=['rows(self.gs) == 2 * len(mask)', 'cols(self.gs) == 2 * len(mask)', 'len(self.ps) == 2 * len(mask)', 'bits2(self.gs)',
             'gram(self.gs, len(mask))', 'forall(a, self.r, len(mask), self.ps[a] == 0 or self.ps[a] == 2)', 'same_loc(result, self)',
             'self.r == old(self.r)'],
    modifies=['self.gs', 'self.ps'], returns='=self',
    hints={'return': [
        ('lemma', 'mask_index', [_M2, _n2]),
        ('lemma', 'split_acq', ['self.gs[0]', 'self.gs[0]', 'mask', _tN, _tN]),          # parity of the number of selected columns
        ('assert', '%s %% 2 == 0 and 2 * %s == %s' % (_cnt, _tn, _cnt)),
        ('assert', _tm_post[3]), ('assert', _tm_post[4]), ('assert', _tm_post[5]),
        ('assert', 'forall(j, 0, 2 * len(mask), bits(%s, %s))' % (_tC('old(self.gs)[j]'), _cnt)),
        ('forall_lemma', [('j', '0', '2 * len(mask)'), ('k', '0', _cnt)], 'ordg_bits', [_tC('old(self.gs)[j]'), _tM, _cnt, 'k']),
        ('assert', 'bits2(self.gs)'),
        ('assert_from', 'forall(k, 0, len(mask), %s[2 * k] == mask[k] and %s[2 * k + 1] == mask[k])' % (_M2, _M2), []),
        ('assert_from', 'forall(j, 0, 2 * len(mask), forall(k, 0, len(mask), implies(mask[k] == 0, self.gs[j][2 * k] == old(self.gs)[j][2 * k] and '
                        'self.gs[j][2 * k + 1] == old(self.gs)[j][2 * k + 1])))',
         [_tm_post[5], 'forall(k, 0, len(mask), %s[2 * k] == mask[k] and %s[2 * k + 1] == mask[k])' % (_M2, _M2),
          'rows(self.gs) == 2 * len(mask)', 'cols(self.gs) == 2 * len(mask)']),
        ('assert_from', 'gram(self.gs, len(mask))',
         ['gram(old(self.gs), len(mask))', 'rows(self.gs) == 2 * len(mask)', 'len(mask) >= 0',
          '%s[2 * len(mask)] == %s' % ('MaskPos(%s, %s)' % (_M2, _n2), _cnt), '%s %% 2 == 0' % _cnt,
          ('forall_lemma', _ab, 'split_acq', ['self.gs[a]', 'self.gs[b]', 'mask', _tN, _tN]),
          ('forall_lemma', _ab, 'split_acq', ['old(self.gs)[a]', 'old(self.gs)[b]', 'mask', _tN, _tN]),
          ('forall_lemma', _ab, 'acqout_ext', ['self.gs[a]', 'old(self.gs)[a]', 'self.gs[b]', 'old(self.gs)[b]', 'mask', _tN]),
          ('forall_lemma', _ab, 'acqsum_ext', [_tC('self.gs[a]'), _tT('old(self.gs)[a]'), _tC('self.gs[b]'), _tn]),
          ('forall_lemma', _ab, 'acqsum_ext', [_tC('self.gs[b]'), _tT('old(self.gs)[b]'), _tT('old(self.gs)[a]'), _tn]),
          ('forall_lemma', _ab, 'transform_preserves_acq', [_tC('old(self.gs)[a]'), _tC('old(self.gs)[b]'), _tM, _tn])]),
        ('assert_from', 'forall(a, self.r, len(mask), self.ps[a] == 0 or self.ps[a] == 2)',
         [_tm_post[4], 'forall(a, self.r, len(mask), old(self.ps)[a] == 0 or old(self.ps)[a] == 2)', '0 <= self.r', 'self.r == old(self.r)',
          'rows(self.gs) == 2 * len(mask)', '2 * %s == %s' % (_tn, _cnt),
          ('forall_lemma', [('j', '0', '2 * len(mask)')], 'ordp_parity', [_tC('old(self.gs)[j]'), _tM, 'clifford_map.ps', _cnt, _tn]),
          ('forall_lemma', [('j', '0', '2 * len(mask)')], 'xzpartial_full', [_tC('old(self.gs)[j]'), _tn])]),
    ]},
)

CONTRACTS[CI + 'CliffordGate.forward#map_local_state'] = dict(
    params=[('self', GATE_MAP_L), ('obj', STATE)],
    requires=['self.n != cols(obj.gs) // 2', 'cols(obj.gs) % 2 == 0', 'len(self.qubits) >= 1',
              'forall(k, 0, len(self.qubits), 0 <= self.qubits[k] < cols(obj.gs) // 2)', _inv_obj,
              'rows(self.forward_map.gs) == %s' % _cntL, 'cols(self.forward_map.gs) == %s' % _cntL,
              'len(self.forward_map.ps) == rows(self.forward_map.gs)', 'bits2(self.forward_map.gs)',
              'gram_map(self.forward_map.gs, %s // 2)' % _cntL,
              'forall(k, 0, rows(self.forward_map.gs), self.forward_map.ps[k] == 0 or self.forward_map.ps[k] == 2)'],
    ensures=_inv_obj_post, modifies=['obj.gs', 'obj.ps'], returns='=obj',
)

# ------------------------------------------------------------------ C08: StabilizerState.entropy(region given as a boolean mask)
_aG = 'RowSlice(self.gs, self.r, cols(self.gs) // 2)'
_uc = CONTRACTS_U = None
from contracts import utils_contracts as _UC
_ent = [e.replace('rows(gs)', '(cols(self.gs) // 2 - self.r)').replace('cols(gs)', 'cols(self.gs)').replace('(gs,', '(%s,' % _aG).replace('subsys', 'subsys')
        for e in _UC.CONTRACTS['pyclifford/utils.py::stabilizer_entropy']['ensures']]
CONTRACTS[ST + 'StabilizerState.entropy#mask'] = dict(
    params=[('self', STATE), ('subsys', 'bool1')],
    requires=['cols(self.gs) % 2 == 0', 'rows(self.gs) == cols(self.gs)', '0 <= self.r <= cols(self.gs) // 2', 'bits2(self.gs)',
              'len(self.ps) == rows(self.gs)', 'len(subsys) == cols(self.gs) // 2', 'len(subsys) >= 1'],
    ensures=[e.replace('mask', 'subsys') for e in _ent],
    modifies=[], returns='int',
)
CONTRACTS[ST + 'StabilizerState.entropy#qubits'] = dict(
    params=[('self', STATE), ('subsys', 'int1')],          # region as a sequence of qubit indices
    requires=['cols(self.gs) % 2 == 0', 'rows(self.gs) == cols(self.gs)', '0 <= self.r <= cols(self.gs) // 2', 'bits2(self.gs)',
              'len(self.ps) == rows(self.gs)', 'len(subsys) >= 1', 'forall(k, 0, len(subsys), 0 <= subsys[k] < cols(self.gs) // 2)'],
    ensures=[e.replace('len(mask)', '(cols(self.gs) // 2)').replace('mask', 'QMask(old(subsys), len(old(subsys)), cols(self.gs) // 2)') for e in _ent],   # the code rebinds `subsys`
    modifies=[], returns='int',
)

# ------------------------------------------------------------------ C02 / C03: the same operations on a single Pauli operator
_p_rot = ('implies(AcqSum(generator.g, old(self.g), len(generator.g) // 2) % 2 == 1, '
          'forall(c, 0, len(generator.g), self.g[c] == (old(self.g)[c] + generator.g[c]) % 2) and '
          'self.p == (old(self.p) + generator.p + 1 + IpowSum(old(self.g), generator.g, len(generator.g) // 2)) % 4) and '
          'implies(AcqSum(generator.g, old(self.g), len(generator.g) // 2) % 2 == 0, '
          'forall(c, 0, len(generator.g), self.g[c] == old(self.g)[c]) and self.p == old(self.p))')
CONTRACTS[PA + 'Pauli.rotate_by#nomask'] = dict(
    params=[('self', PAULI), ('generator', dict(PAULI, exact=False)), ('mask', 'none')], defaults={'mask': None},
    requires=['len(generator.g) == len(self.g)', 'bits1(generator.g)', 'bits1(self.g)'],
    ensures=[_p_rot, 'len(self.g) == len(old(self.g))', 'same_loc(result, self)'],
    modifies=['self.g'], modifies_scalar=['self.p'], returns='=self',
)
CONTRACTS[PA + 'Pauli.transform_by#nomask'] = dict(
    params=[('self', PAULI), ('clifford_map', CMAP), ('mask', 'none')], defaults={'mask': None},
    requires=['len(self.g) == rows(clifford_map.gs)', 'len(clifford_map.ps) == rows(clifford_map.gs)', 'bits2(clifford_map.gs)'],
    ensures=['len(self.g) == cols(clifford_map.gs)',
             'forall(c, 0, cols(clifford_map.gs), self.g[c] == OrdG(old(self.g), clifford_map.gs, rows(clifford_map.gs), c))',
             'self.p == (old(self.p) + XZSum(old(self.g), len(old(self.g)) // 2) % 4 '
             '+ OrdP(old(self.g), clifford_map.gs, clifford_map.ps, rows(clifford_map.gs), cols(clifford_map.gs) // 2)) % 4',
             'same_loc(result, self)'],
    modifies=['self.g'], modifies_scalar=['self.p'], returns='=self',
)

# ------------------------------------------------------------------ C16: a random Pauli map is a valid map with Hermitian signs, whatever is drawn
CONTRACTS[ST + 'random_pauli_map'] = dict(
    params=[('N', 'int')], requires=['N >= 0'],
    ensures=['rows(result.gs) == 2 * N', 'cols(result.gs) == 2 * N', 'len(result.ps) == 2 * N', 'bits2(result.gs)', 'gram_map(result.gs, N)',
             'forall(k, 0, 2 * N, result.ps[k] == 0 or result.ps[k] == 2)',
             'forall(a, 0, 2 * N, forall(c, 0, 2 * N, implies(c != 2 * (a // 2) and c != 2 * (a // 2) + 1, result.gs[a][c] == 0)))'],
    modifies=[], returns=CMAP,
)

# ------------------------------------------------------------------ C10: backward of a map gate = (masked) transformation by the inverse table
# (the gate caches the inverse in self.backward_map; "if False and self.n == obj.N" in the source makes backward always take the masked path)
_inv_post = [e.replace('result.', 'self.backward_map.').replace('self.gs', 'self.forward_map.gs').replace('self.ps', 'self.forward_map.ps')
             for e in CONTRACTS[ST + 'CliffordMap.inverse']['ensures'][:7]]
CONTRACTS[CI + 'CliffordGate.backward#map_local'] = dict(
    params=[('self', GATE_MAP_L), ('obj', PLIST)],
    requires=['cols(obj.gs) % 2 == 0', 'len(self.qubits) >= 1',
              'forall(k, 0, len(self.qubits), 0 <= self.qubits[k] < cols(obj.gs) // 2)', 'len(obj.ps) == rows(obj.gs)',
              'rows(self.forward_map.gs) == %s' % _cntL, 'cols(self.forward_map.gs) == %s' % _cntL, 'rows(self.forward_map.gs) >= 1',
              'len(self.forward_map.ps) == rows(self.forward_map.gs)', 'bits2(self.forward_map.gs)'],
    ensures=[_gate_local(e).replace('self.forward_map.', 'self.backward_map.') for e in _tm['ensures'][3:6]] + _inv_post + ['same_loc(result, obj)'],
    may_raise=['ValueError'],
    modifies=['obj.gs', 'obj.ps'], modifies_scalar=['self.backward_map'], returns='=obj',
)

# ------------------------------------------------------------------ C18 / C02: clifford_rotation_gate(G) is the local gate of G restricted to its support
_rgN = '(len(generator.g) // 2)'
_rgSM = 'SuppMask(generator.g, %s)' % _rgN
_rgQM = 'QMask(result.qubits, len(result.qubits), %s)' % _rgN
CONTRACTS[CI + 'clifford_rotation_gate#noqubits'] = dict(
    params=[('generator', dict(PAULI, exact=False)), ('qubits', 'none')], defaults={'qubits': None},
    requires=['len(generator.g) % 2 == 0', 'bits1(generator.g)'],
    ensures=['result.n == MaskCnt(%s, %s)' % (_rgSM, _rgN), 'len(result.qubits) == result.n',
             'forall(k, 0, result.n, result.qubits[k] == MaskIdx(%s, %s)[k])' % (_rgSM, _rgN),
             'forall(k, 0, result.n, 0 <= result.qubits[k] < %s)' % _rgN,
             'len(result.generator.g) == MaskCnt(Repeat2(%s), len(generator.g))' % _rgSM,
             'forall(k, 0, len(result.generator.g), result.generator.g[k] == Compress(generator.g, Repeat2(%s), len(generator.g))[k])' % _rgSM,
             'result.generator.p == generator.p', 'bits1(result.generator.g)',
             # the gate's mask is the support, and the condensed generator padded back onto the register IS the generator:
             'forall(c, 0, %s, %s[c] == %s[c])' % (_rgN, _rgQM, _rgSM),
             'forall(c, 0, len(generator.g), Expand(result.generator.g, Repeat2(%s), len(generator.g))[c] == generator.g[c])' % _rgQM],
    modifies=[], returns=GATE_GEN_L,
    hints={'return': [
        ('lemma', 'mask_index', [_rgSM, _rgN]),
        ('lemma', 'mask_index', ['Repeat2(%s)' % _rgSM, 'len(generator.g)']),
        ('forall_lemma', [('c', '0', _rgN)], 'inq_exists', ['result.qubits', 'len(result.qubits)', 'c']),
        ('forall_lemma', [('k', '0', 'len(result.qubits)')], 'inq_member', ['result.qubits', 'len(result.qubits)', 'k'], {'trigger': 'result.qubits[k]'}),
        ('assert', 'forall(c, 0, %s, %s[c] == %s[c])' % (_rgN, _rgQM, _rgSM)),
        ('assert_from', 'forall(c, 0, len(generator.g), Repeat2(%s)[c] == Repeat2(%s)[c])' % (_rgQM, _rgSM),
         ['forall(c, 0, %s, %s[c] == %s[c])' % (_rgN, _rgQM, _rgSM), 'len(generator.g) % 2 == 0']),
        ('lemma', 'mask_ext', ['Repeat2(%s)' % _rgQM, 'Repeat2(%s)' % _rgSM, 'len(generator.g)']),
        ('lemma', 'mask_index', ['Repeat2(%s)' % _rgQM, 'len(generator.g)']),
        ('assert_from', 'forall(c, 0, len(generator.g), implies(Repeat2(%s)[c] == 0, generator.g[c] == 0))' % _rgSM, ['len(generator.g) % 2 == 0']),
        ('assert_from', 'forall(c, 0, len(generator.g), Expand(result.generator.g, Repeat2(%s), len(generator.g))[c] == generator.g[c])' % _rgQM,
         ['forall(c, 0, len(generator.g), Repeat2(%s)[c] == Repeat2(%s)[c])' % (_rgQM, _rgSM),
          'forall(c, 0, len(generator.g) + 1, MaskPos(Repeat2(%s), len(generator.g))[c] == MaskPos(Repeat2(%s), len(generator.g))[c])' % (_rgQM, _rgSM),
          'forall(k, 0, len(result.generator.g), result.generator.g[k] == generator.g[MaskIdx(Repeat2(%s), len(generator.g))[k]])' % _rgSM,
          'forall(c, 0, len(generator.g), implies(Repeat2(%(m)s)[c] != 0, 0 <= MaskPos(Repeat2(%(m)s), len(generator.g))[c] and '
          'MaskPos(Repeat2(%(m)s), len(generator.g))[c] < MaskCnt(Repeat2(%(m)s), len(generator.g)) and '
          'MaskIdx(Repeat2(%(m)s), len(generator.g))[MaskPos(Repeat2(%(m)s), len(generator.g))[c]] == c))' % dict(m=_rgSM),
          'forall(c, 0, len(generator.g), implies(Repeat2(%s)[c] == 0, generator.g[c] == 0))' % _rgSM,
          'len(result.generator.g) == MaskCnt(Repeat2(%s), len(generator.g))' % _rgSM]),
    ]},
)

# ------------------------------------------------------------------ C09 / C10: compiling a generator gate = tables of the rotation and of its inverse
_crm = CONTRACTS[ST + 'clifford_rotation_map']['ensures']
GATE_GEN_ANY = {'cls': 'CliffordGate', 'fields': {'n': 'int', 'generator': dict(PAULI, exact=False), 'forward_map': 'none', 'backward_map': 'none'}}
CONTRACTS[CI + 'CliffordGate.compile#generator'] = dict(
    params=[('self', GATE_GEN_ANY)],
    requires=['len(self.generator.g) % 2 == 0', 'bits1(self.generator.g)', '0 <= self.generator.p <= 3'],
    ensures=[e.replace('result.', 'self.forward_map.').replace('gen.', 'self.generator.') for e in _crm[:5]] +
            [e.replace('result.', 'self.backward_map.').replace('gen.p', '((self.generator.p + 2) % 4)').replace('gen.', 'self.generator.') for e in _crm[:5]] +
            ['same_loc(result, self)'],
    modifies=[], modifies_scalar=['self.forward_map', 'self.backward_map'], returns='=self',
)

# ------------------------------------------------------------------ C20: selection from a list by integer and by slice
CONTRACTS[PA + 'PauliList.__getitem__#int'] = dict(
    params=[('self', dict(PLIST, exact=True)), ('item', 'int')],
    requires=['0 <= item < rows(self.gs)', 'len(self.ps) == rows(self.gs)'],
    ensures=['len(result.g) == cols(self.gs)', 'forall(c, 0, cols(self.gs), result.g[c] == self.gs[item][c])', 'result.p == self.ps[item]'],
    modifies=[], returns=dict(PAULI, exact=False),
)

# measuring the stabilizers of another state (obs: StabilizerState -> its active stabilizers are the observables)
CONTRACTS[ST + 'StabilizerState.measure#state'] = dict(
    params=[('self', STATE), ('obs', STATE)],
    requires=['cols(obs.gs) % 2 == 0', 'cols(obs.gs) == cols(self.gs)', _inv_self, 'inv_state(obs.gs, obs.ps, obs.r, cols(obs.gs) // 2)'],
    ensures=[_inv_self, 'self.r <= old(self.r)', 'same_loc(self.gs, old(self.gs))', 'same_loc(self.ps, old(self.ps))',
             'len(result[0]) == cols(self.gs) // 2 - old(obs.r)', 'forall(k, 0, len(result[0]), result[0][k] == 0 or result[0][k] == 1)'],
    modifies=['self.gs', 'self.ps'], modifies_scalar=['self.r'], returns=('int1 fresh', 'real'),      # the code rebinds `obs`
)

# ------------------------------------------------------------------ C17: the bit-string probability is a query (receiver and argument unchanged)
CONTRACTS[ST + 'StabilizerState.get_prob'] = dict(
    params=[('self', STATE), ('readout', 'int1')],
    requires=['cols(self.gs) % 2 == 0', 'cols(self.gs) >= 2', 'inv_state(self.gs, self.ps, 0, cols(self.gs) // 2)', 'self.r == 0',
              'len(readout) == cols(self.gs) // 2', 'bits1(readout)'],
    ensures=[], modifies=[], returns='real',
)

# ------------------------------------------------------------------ C15 / C17: coefficient-level operations of a polynomial
_same_terms = ['rows(result.gs) == rows(self.gs)', 'cols(result.gs) == cols(self.gs)', 'len(result.ps) == len(self.ps)', 'len(result.cs) == len(self.cs)',
               'forall(j, 0, rows(self.gs), forall(c, 0, cols(self.gs), result.gs[j][c] == self.gs[j][c]))',
               'forall(j, 0, len(self.ps), result.ps[j] == self.ps[j])']
CONTRACTS[PA + 'PauliPolynomial.__neg__'] = dict(
    params=[('self', POLY)], requires=['len(self.ps) == rows(self.gs)', 'len(self.cs) == rows(self.gs)'],
    # the negative of a polynomial: same terms, every coefficient negated
    ensures=_same_terms + ['forall(j, 0, len(self.cs), result.cs[j] == cneg(self.cs[j]))'],
    modifies=[], returns=POLY,
)
CONTRACTS[PA + 'PauliPolynomial.__rmul__'] = dict(
    params=[('self', POLY), ('c', 'cplx')], requires=['len(self.ps) == rows(self.gs)', 'len(self.cs) == rows(self.gs)'],
    # a number times a polynomial: same terms, every coefficient multiplied by the number
    ensures=_same_terms + ['forall(j, 0, len(self.cs), result.cs[j] == cmul(c, self.cs[j]))'],
    modifies=[], returns=POLY,
)
CONTRACTS[PA + 'PauliPolynomial.copy'] = dict(
    params=[('self', POLY)], requires=['len(self.ps) == rows(self.gs)', 'len(self.cs) == rows(self.gs)'],
    ensures=_same_terms + ['forall(j, 0, len(self.cs), result.cs[j] == self.cs[j])', 'fresh_loc(result.gs)', 'fresh_loc(result.ps)', 'fresh_loc(result.cs)'],
    modifies=[], returns=POLY,
)

# ------------------------------------------------------------------ C09: two gates are independent exactly when they share no qubit
GATE_Q = {'cls': 'CliffordGate', 'fields': {'qubits': 'int1'}}
CONTRACTS[CI + 'CliffordGate.independent_from'] = dict(
    params=[('self', GATE_Q), ('other_gate', GATE_Q)],
    requires=[],
    ensures=['iff(result, forall(i, 0, len(self.qubits), forall(j, 0, len(other_gate.qubits), self.qubits[i] != other_gate.qubits[j])))'],
    modifies=[], returns='bool',
)

# ------------------------------------------------------------------ C14: the observables of a measurement layer are Z on its qubits, sign +
MLAYER_Q = {'cls': 'MeasureLayer', 'fields': {'qubits': 'int1', 'N': 'int'}}
CONTRACTS[CI + 'MeasureLayer.obs_gs_ps'] = dict(
    params=[('self', MLAYER_Q)],
    requires=['self.N >= 0', 'forall(k, 0, len(self.qubits), 0 <= self.qubits[k] < self.N)'],
    ensures=['rows(result[0]) == len(self.qubits)', 'cols(result[0]) == 2 * self.N', 'len(result[1]) == len(self.qubits)',
             'forall(i, 0, len(self.qubits), forall(c, 0, 2 * self.N, result[0][i][c] == b2i(c == 2 * self.qubits[i] + 1)))',
             'forall(i, 0, len(self.qubits), result[1][i] == 0)'],
    modifies=[], returns=('int2 fresh', 'int1 fresh'),
    loops={0: dict(var='i', invariant=['rows(gs) == len(self.qubits)', 'cols(gs) == 2 * self.N', 'len(ps) == len(self.qubits)',
                                       'forall(k, 0, len(self.qubits), ps[k] == 0)',
                                       'forall(k, 0, i, forall(c, 0, 2 * self.N, gs[k][c] == b2i(c == 2 * self.qubits[k] + 1)))',
                                       'forall(k, i, len(self.qubits), forall(c, 0, 2 * self.N, gs[k][c] == 0))'])},
)

CONTRACTS[ST + 'one_state'] = dict(
    params=[('N', 'int')], requires=['N >= 0'],
    # |1...1>: stabilizers -Z_i (all phase indicators 2), same strings as the zero state
    ensures=_zs[:4] + ['forall(i, 0, 2 * N, result.ps[i] == 2)', 'result.r == 0', 'gram(result.gs, N)', 'bits2(result.gs)'],
    modifies=[], returns=STATE,
)

# ------------------------------------------------------------------ C09: embedding a small map on a subsystem (used by layer compilation)
_eM = 'Repeat2(mask)'
_eP = 'MaskPos(%s, 2 * len(mask))' % _eM
CONTRACTS[ST + 'CliffordMap.embed'] = dict(
    params=[('self', CMAP), ('small_map', CMAP), ('mask', 'bool1')],
    requires=['rows(self.gs) == 2 * len(mask)', 'cols(self.gs) == 2 * len(mask)', 'len(self.ps) == 2 * len(mask)',
              'rows(small_map.gs) == MaskCnt(%s, 2 * len(mask))' % _eM, 'cols(small_map.gs) == rows(small_map.gs)', 'len(small_map.ps) == rows(small_map.gs)'],
    # rows and columns of the selected qubits carry the small table, everything else is untouched
    ensures=['forall(r_, 0, 2 * len(mask), forall(c, 0, 2 * len(mask), self.gs[r_][c] == '
             '(small_map.gs[%s[r_]][%s[c]] if (%s[r_] != 0 and %s[c] != 0) else old(self.gs)[r_][c])))' % (_eP, _eP, _eM, _eM),
             'forall(c, 0, 2 * len(mask), self.ps[c] == (small_map.ps[%s[c]] if %s[c] != 0 else old(self.ps)[c]))' % (_eP, _eM),
             'same_loc(result, self)', 'same_loc(self.gs, old(self.gs))', 'same_loc(self.ps, old(self.ps))'],
    modifies=['self.gs', 'self.ps'], returns='=self',
)

# ------------------------------------------------------------------ C09: a layer is independent from a gate exactly when none of its gates shares a qubit with it
LAYER_Q = {'cls': 'CliffordLayer', 'fields': {'gates': {'seq': GATE_Q}}}
CONTRACTS[CI + 'CliffordLayer.independent_from'] = dict(
    params=[('self', LAYER_Q), ('other_gate', GATE_Q)],
    requires=[],
    ensures=['iff(result, forall(k, 0, len(self.gates), forall(i, 0, len(self.gates[k].qubits), forall(j, 0, len(other_gate.qubits), '
             'self.gates[k].qubits[i] != other_gate.qubits[j]))))'],
    modifies=[], returns='bool',
)

# ------------------------------------------------------------------ C15: monomials (a Pauli operator with a coefficient)
_same_mono = ['len(result.g) == len(self.g)', 'forall(c_, 0, len(self.g), result.g[c_] == self.g[c_])', 'result.p == self.p']
CONTRACTS[PA + 'PauliMonomial.__neg__'] = dict(
    params=[('self', PMONO)], requires=[], ensures=_same_mono + ['result.c == cneg(self.c)'], modifies=[], returns=PMONO)
CONTRACTS[PA + 'PauliMonomial.__rmul__'] = dict(
    params=[('self', PMONO), ('c', 'cplx')], requires=[], ensures=_same_mono + ['result.c == cmul(c, self.c)'], modifies=[], returns=PMONO)
CONTRACTS[PA + 'PauliMonomial.copy'] = dict(
    params=[('self', PMONO)], requires=[], ensures=_same_mono + ['result.c == self.c', 'fresh_loc(result.g)'], modifies=[], returns=PMONO)
CONTRACTS[PA + 'PauliMonomial.as_polynomial'] = dict(
    params=[('self', PMONO)], requires=[],
    ensures=['rows(result.gs) == 1', 'cols(result.gs) == len(self.g)', 'len(result.ps) == 1', 'len(result.cs) == 1',
             'forall(c_, 0, len(self.g), result.gs[0][c_] == self.g[c_])', 'same(result.gs[0], self.g)', 'result.ps[0] == self.p', 'result.cs[0] == self.c'],
    modifies=[], returns=POLY)

# ------------------------------------------------------------------ C11: the named gates are the textbook Cliffords
# table rows = images of X, Z of the gate's qubit (string (x, z), sign 0 = +, 2 = -), written down from the property statement:
#   H swaps X and Z;  S sends X to Y and keeps Z;  a Pauli gate flips the sign of the Paulis it anticommutes with
GATE_NAMED = {'cls': 'CliffordGate', 'fields': {'n': 'int', 'generator': 'none', 'forward_map': CMAP, 'backward_map': 'none'}}
_named = {'H': ([[0, 1], [1, 0]], [0, 0]), 'S': ([[1, 1], [0, 1]], [0, 0]),
          'X': ([[1, 0], [0, 1]], [0, 2]), 'Y': ([[1, 0], [0, 1]], [2, 2]), 'Z': ([[1, 0], [0, 1]], [2, 0])}


def _table_post(gs, ps):
    n = len(gs)
    out = ['rows(result.forward_map.gs) == %d' % n, 'cols(result.forward_map.gs) == %d' % n, 'len(result.forward_map.ps) == %d' % n]
    out += ['result.forward_map.gs[%d][%d] == %d' % (i, j, gs[i][j]) for i in range(n) for j in range(n)]
    out += ['result.forward_map.ps[%d] == %d' % (i, ps[i]) for i in range(n)]
    return out


for _nm, (_gs, _ps) in _named.items():
    CONTRACTS[CI + _nm + '#1'] = dict(
        params=[('qubits', ('varargs', ['int']))], requires=[],
        ensures=['result.n == 1', 'result.qubits[0] == qubits[0]'] + _table_post(_gs, _ps),
        modifies=[], returns=GATE_NAMED)
# CNOT with control c and target t sends X_c to X_c X_t and Z_t to Z_c Z_t (X_t, Z_c unchanged); the table is written in the order of
# ASCENDING qubit index (that is how the gate is applied through mask()), so the two orientations have different tables
_cnot_ct = ([[1, 0, 1, 0], [0, 1, 0, 0], [0, 0, 1, 0], [0, 1, 0, 1]], [0, 0, 0, 0])      # rows X_c Z_c X_t Z_t, columns (c, t)
_cnot_tc = ([[1, 0, 0, 0], [0, 1, 0, 1], [1, 0, 1, 0], [0, 0, 0, 1]], [0, 0, 0, 0])      # rows X_t Z_t X_c Z_c, columns (t, c)
CONTRACTS[CI + 'CNOT#2'] = dict(
    params=[('qubits', ('varargs', ['int', 'int']))], requires=['qubits[0] != qubits[1]'],
    ensures=['result.n == 2', 'result.qubits[0] == qubits[0]', 'result.qubits[1] == qubits[1]'] +
            ['implies(qubits[0] < qubits[1], %s)' % e for e in _table_post(*_cnot_ct)] +
            ['implies(qubits[0] > qubits[1], %s)' % e for e in _table_post(*_cnot_tc)],
    modifies=[], returns=GATE_NAMED)


# ------------------------------------------------------------------ C20: the parser pauli() on symbol sequences
# One statement for both symbol alphabets (integer codes / letters): operator symbols fill the qubits in order, prefix symbols
# describe no qubit, the phase is the one the prefix symbols describe (spec functions Toks / CodePhase / ToksC / CharPhase).
def _parser_contract(ty, isop, opx, opz, toks, phase):
    n = 'len(obj)'
    pos = '(j - %s(obj, j))' % toks
    inv = ['len(g) == 2 * len(obj)', 'N == len(obj)', 'h == %s(obj, i)' % toks, '0 <= h <= i', 'p == %s(obj, i)' % phase,
           'forall(j, 0, i, implies(%s(obj[j]) == 1, g[2 * %s] == %s(obj[j]) and g[2 * %s + 1] == %s(obj[j])))' % (isop, pos, opx, pos, opz),
           'forall(c, 2 * (i - h), len(g), g[c] == 0)', 'bits1(g)']
    return dict(
        params=[('obj', ty), ('N', 'none')], defaults={'N': None}, requires=[],
        ensures=['len(result.g) == 2 * (%s - %s(obj, %s))' % (n, toks, n),
                 'forall(j, 0, %s, implies(%s(obj[j]) == 1, result.g[2 * %s] == %s(obj[j]) and result.g[2 * %s + 1] == %s(obj[j])))'
                 % (n, isop, pos, opx, pos, opz),
                 'result.p == %s(obj, %s)' % (phase, n), 'bits1(result.g)'],
        modifies=[], returns=dict(PAULI, exact=False),
        loops={0: dict(var='i', invariant=inv,
                       hints_head=[('forall_lemma', [('j', '0', 'i')], 'toks_mono' + ('' if toks == 'Toks' else '_c'), ['obj', 'j', 'i'])])},
    )


CONTRACTS[PA + 'pauli#codes'] = _parser_contract('int1', 'IsOp', 'OpX', 'OpZ', 'Toks', 'CodePhase')
CONTRACTS[PA + 'pauli#chars'] = _parser_contract('char1', 'IsOpC', 'OpXC', 'OpZC', 'ToksC', 'CharPhase')
CONTRACTS[PA + 'pauli#str'] = dict(_parser_contract('str', 'IsOpC', 'OpXC', 'OpZC', 'ToksC', 'CharPhase'), loops={})
LEMMAS['toks_range'] = dict(
    doc='the number of prefix symbols among the first k symbols lies between 0 and k',
    params=[('a', 'int1'), ('k', 'int')],
    requires=['0 <= k'],
    ensures=['0 <= Toks(a, k)', 'Toks(a, k) <= k'],
    induction='k',
)
LEMMAS['toks_mono'] = dict(
    doc='an operator symbol at j is placed strictly before the place of every later symbol: the places j - Toks(a, j) do not collide',
    params=[('a', 'int1'), ('j', 'int'), ('k', 'int')],
    requires=['0 <= j < k'],
    ensures=['implies(IsOp(a[j]) == 1, j - Toks(a, j) < k - Toks(a, k))', 'Toks(a, j) <= Toks(a, k)', 'k - Toks(a, k) >= j - Toks(a, j)', 'Toks(a, k) >= 0', 'Toks(a, k) <= k'],
    induction='k', uses=[('lemma', 'toks_range', ['a', 'k']), ('lemma', 'toks_range', ['a', 'j'])],
)
LEMMAS['toks_range_c'] = dict(
    doc='the number of prefix symbols among the first k symbols lies between 0 and k',
    params=[('a', 'int1'), ('k', 'int')],
    requires=['0 <= k'],
    ensures=['0 <= ToksC(a, k)', 'ToksC(a, k) <= k'],
    induction='k',
)
LEMMAS['toks_mono_c'] = dict(
    doc='an operator symbol at j is placed strictly before the place of every later symbol: the places j - ToksC(a, j) do not collide',
    params=[('a', 'int1'), ('j', 'int'), ('k', 'int')],
    requires=['0 <= j < k'],
    ensures=['implies(IsOpC(a[j]) == 1, j - ToksC(a, j) < k - ToksC(a, k))', 'ToksC(a, j) <= ToksC(a, k)', 'k - ToksC(a, k) >= j - ToksC(a, j)', 'ToksC(a, k) >= 0', 'ToksC(a, k) <= k'],
    induction='k', uses=[('lemma', 'toks_range_c', ['a', 'k']), ('lemma', 'toks_range_c', ['a', 'j'])],
)
# "tokenizing then parsing returns the original operator including its phase": a row of pauli_tokenize (its postcondition) read by
# pauli#codes (its postcondition) gives back the string and the phase -- two lemmas over the spec functions of the two contracts
_tokrow = ['len(t) == N + 1', 'len(g) == 2 * N', 'N >= 0', 'bits1(g)', '0 <= p < 4',
           'forall(i, 0, N, t[i] == TOKEN(g[2 * i], g[2 * i + 1]))', 't[N] == PHASE_TOKEN(p)']
LEMMAS['tokens_no_prefix'] = dict(
    doc='the first N entries of a token row are operator codes',
    params=[('t', 'int1'), ('g', 'int1'), ('p', 'int'), ('N', 'int'), ('k', 'int')],
    requires=_tokrow + ['0 <= k <= N'],
    ensures=['Toks(t, k) == 0'],
    induction='k',
)
LEMMAS['tokens_roundtrip'] = dict(
    doc='parsing a token row: N qubits, the original string, the original phase',
    params=[('t', 'int1'), ('g', 'int1'), ('p', 'int'), ('N', 'int')],
    requires=_tokrow,
    ensures=['2 * (len(t) - Toks(t, len(t))) == len(g)', 'CodePhase(t, len(t)) == p',
             'forall(i, 0, N, IsOp(t[i]) == 1 and i - Toks(t, i) == i and OpX(t[i]) == g[2 * i] and OpZ(t[i]) == g[2 * i + 1])'],
    uses=[('forall_lemma', [('k', '0', 'N + 1')], 'tokens_no_prefix', ['t', 'g', 'p', 'N', 'k'])],
)
# "strings and index arrays describing the same operator construct equal Pauli objects": symbol-wise corresponding descriptions
# (I X Y Z + -  <->  0 1 2 3 4 5) have the same prefix count, the same operator bits and the same phase
_corr = 'forall(i, 0, len(s), (s[i] == 73 and c[i] == 0) or (s[i] == 88 and c[i] == 1) or (s[i] == 89 and c[i] == 2) or (s[i] == 90 and c[i] == 3) ' \
        'or (s[i] == 43 and c[i] == 4) or (s[i] == 45 and c[i] == 5))'
LEMMAS['chars_codes_agree'] = dict(
    doc='a string and the code array that spells the same symbols describe the same operator',
    params=[('s', 'int1'), ('c', 'int1'), ('k', 'int')],
    requires=['len(s) == len(c)', _corr, '0 <= k <= len(s)'],
    ensures=['ToksC(s, k) == Toks(c, k)', 'CharPhase(s, k) == CodePhase(c, k)',
             'forall(i, 0, len(s), IsOpC(s[i]) == IsOp(c[i]) and OpXC(s[i]) == OpX(c[i]) and OpZC(s[i]) == OpZ(c[i]))'],
    induction='k',
)

# selection from a list by a boolean mask: the selected rows and phases, in order (MaskIdx / MaskCnt: the abstract mask functions)
_giM = 'MaskCnt(item, len(item))'
CONTRACTS[PA + 'PauliList.__getitem__#mask'] = dict(
    params=[('self', dict(PLIST, exact=True)), ('item', 'bool1')],
    requires=['len(item) == rows(self.gs)', 'len(self.ps) == rows(self.gs)'],
    ensures=['rows(result.gs) == %s' % _giM, 'cols(result.gs) == cols(self.gs)', 'len(result.ps) == %s' % _giM,
             'forall(k, 0, %s, forall(c, 0, cols(self.gs), result.gs[k][c] == self.gs[MaskIdx(item, len(item))[k]][c]))' % _giM,
             'forall(k, 0, %s, result.ps[k] == self.ps[MaskIdx(item, len(item))[k]])' % _giM],
    modifies=[], returns=dict(PLIST, exact=False),
)
# ... by a slice lo:hi within bounds (what the library itself uses for `stabilizers` / `destabilizers`)
CONTRACTS[PA + 'PauliList.__getitem__#slice'] = dict(
    params=[('self', dict(PLIST, exact=True)), ('item', 'slice')],
    requires=['0 <= item.start <= item.stop <= rows(self.gs)', 'len(self.ps) == rows(self.gs)'],
    ensures=['rows(result.gs) == item.stop - item.start', 'cols(result.gs) == cols(self.gs)', 'len(result.ps) == item.stop - item.start',
             'forall(k, 0, item.stop - item.start, forall(c, 0, cols(self.gs), result.gs[k][c] == self.gs[k + item.start][c]))',
             'forall(k, 0, item.stop - item.start, result.ps[k] == self.ps[k + item.start])'],
    modifies=[], returns=dict(PLIST, exact=False),
)
# ... by an array of row indices (rows may repeat, any order)
CONTRACTS[PA + 'PauliList.__getitem__#index'] = dict(
    params=[('self', dict(PLIST, exact=True)), ('item', 'int1')],
    requires=['forall(k, 0, len(item), 0 <= item[k] < rows(self.gs))', 'len(self.ps) == rows(self.gs)'],
    ensures=['rows(result.gs) == len(item)', 'cols(result.gs) == cols(self.gs)', 'len(result.ps) == len(item)',
             'forall(k, 0, len(item), forall(c, 0, cols(self.gs), result.gs[k][c] == self.gs[item[k]][c]))',
             'forall(k, 0, len(item), result.ps[k] == self.ps[item[k]])'],
    modifies=[], returns=dict(PLIST, exact=False),
)

# ------------------------------------------------------------------ C16 / C05 / C12: the random Clifford map and the states made from it
# whatever the generator draws: a table with the canonical commutation relations (utils.random_clifford, proved over its recursion)
# and signs +-1, hence - by the duality contract of to_state - a valid stabilizer state of the requested rank
CONTRACTS[ST + 'random_clifford_map'] = dict(
    params=[('N', 'int')], requires=['N >= 1'],
    ensures=['rows(result.gs) == 2 * N', 'cols(result.gs) == 2 * N', 'len(result.ps) == 2 * N', 'bits2(result.gs)', 'gram_map(result.gs, N)',
             'forall(k, 0, 2 * N, result.ps[k] == 0 or result.ps[k] == 2)'],
    modifies=[], returns=CMAP,
)
_rs_post = ['rows(result.gs) == 2 * N', 'cols(result.gs) == 2 * N', 'len(result.ps) == 2 * N', 'bits2(result.gs)', 'gram(result.gs, N)',
            # every sign is + or - (stabilizer rows k, destabilizer rows N + k)
            'forall(k, 0, N, (result.ps[k] == 0 or result.ps[k] == 2) and (result.ps[N + k] == 0 or result.ps[N + k] == 2))',
            'inv_state(result.gs, result.ps, result.r, N)']
CONTRACTS[ST + 'random_clifford_state#none'] = dict(
    params=[('N', 'int'), ('r', 'none')], defaults={'r': None}, requires=['N >= 1'],
    ensures=_rs_post + ['result.r == 0'], modifies=[], returns=STATE)
CONTRACTS[ST + 'random_clifford_state#r'] = dict(
    params=[('N', 'int'), ('r', 'int')], requires=['N >= 1', '0 <= r <= N'],
    ensures=_rs_post + ['result.r == r'], modifies=[], returns=STATE)
CONTRACTS[ST + 'random_pauli_state#none'] = dict(
    params=[('N', 'int'), ('r', 'none')], defaults={'r': None}, requires=['N >= 0'],
    ensures=_rs_post + ['result.r == 0'], modifies=[], returns=STATE)
CONTRACTS[ST + 'random_pauli_state#r'] = dict(
    params=[('N', 'int'), ('r', 'int')], requires=['N >= 0', '0 <= r <= N'],
    ensures=_rs_post + ['result.r == r'], modifies=[], returns=STATE)

# a gate with neither generator nor maps is resampled at every call (random_clifford_map(n)): whatever is drawn, a valid state stays valid
GATE_RND = {'cls': 'CliffordGate', 'fields': {'n': 'int', 'generator': 'none', 'forward_map': 'none', 'backward_map': 'none', 'qubits': 'none'}}
GATE_RND_L = {'cls': 'CliffordGate', 'fields': {'n': 'int', 'generator': 'none', 'forward_map': 'none', 'backward_map': 'none', 'qubits': 'int1'}}
_rnd_local_req = ['self.n >= 1', 'cols(obj.gs) % 2 == 0', 'len(self.qubits) >= 1', '2 * self.n == %s' % _cntL,
                  'forall(k, 0, len(self.qubits), 0 <= self.qubits[k] < cols(obj.gs) // 2)', _inv_obj]
CONTRACTS[CI + 'CliffordGate.forward#random_global_state'] = dict(
    params=[('self', GATE_RND), ('obj', STATE)],
    requires=['self.n == cols(obj.gs) // 2', 'self.n >= 1', 'cols(obj.gs) % 2 == 0', _inv_obj],
    ensures=_inv_obj_post, modifies=['obj.gs', 'obj.ps'], returns='=obj',
)
CONTRACTS[CI + 'CliffordGate.forward#random_local_state'] = dict(
    params=[('self', GATE_RND_L), ('obj', STATE)],
    requires=['self.n != cols(obj.gs) // 2'] + _rnd_local_req,
    ensures=_inv_obj_post, modifies=['obj.gs', 'obj.ps'], returns='=obj',
)
# backward always goes through mask(qubits) ("if False and ..." in the source), on the full register too
CONTRACTS[CI + 'CliffordGate.backward#random_state'] = dict(
    params=[('self', GATE_RND_L), ('obj', STATE)],
    requires=_rnd_local_req,
    ensures=_inv_obj_post, modifies=['obj.gs', 'obj.ps'], returns='=obj',
)

# ------------------------------------------------------------------ C15 / C20: the casts between the operator classes keep string, phase (and coefficient 1)
_one_row = ['rows(result.gs) == 1', 'cols(result.gs) == len(self.g)', 'len(result.ps) == 1',
            'forall(c_, 0, len(self.g), result.gs[0][c_] == self.g[c_])', 'same(result.gs[0], self.g)', 'result.ps[0] == self.p']
CONTRACTS[PA + 'Pauli.as_list'] = dict(
    params=[('self', PAULI)], requires=[], ensures=_one_row, modifies=[], returns=dict(PLIST, exact=False))
CONTRACTS[PA + 'Pauli.as_monomial'] = dict(
    params=[('self', PAULI)], requires=[],
    ensures=['same(result.g, self.g)', 'len(result.g) == len(self.g)', 'result.p == self.p', 'result.c == cplx_one()'], modifies=[], returns=PMONO)
CONTRACTS[PA + 'Pauli.as_polynomial'] = dict(
    params=[('self', PAULI)], requires=[],
    ensures=_one_row + ['len(result.cs) == 1', 'result.cs[0] == cplx_one()'], modifies=[], returns=POLY)
CONTRACTS[PA + 'PauliList.as_polynomial'] = dict(
    params=[('self', dict(PLIST, exact=True))], requires=['len(self.ps) == rows(self.gs)'],
    ensures=['same_loc(result.gs, self.gs)', 'same_loc(result.ps, self.ps)', 'len(result.cs) == len(self.ps)',
             'forall(k, 0, len(self.ps), result.cs[k] == cplx_one())'], modifies=[], returns=POLY)
# the token row of a single operator (C20): what pauli_tokenize says about the one-row list
CONTRACTS[PA + 'Pauli.tokenize'] = dict(
    params=[('self', PAULI)], requires=['len(self.g) % 2 == 0', 'bits1(self.g)', '0 <= self.p <= 3'],
    ensures=['rows(result) == 1', 'cols(result) == len(self.g) // 2 + 1',
             'forall(i, 0, len(self.g) // 2, result[0][i] == TOKEN(self.g[2 * i], self.g[2 * i + 1]))',
             'result[0][len(self.g) // 2] == PHASE_TOKEN(self.p)'],
    modifies=[], returns='int2 fresh')

# ------------------------------------------------------------------ C14 / C05: running a measurement layer backward = post-selecting the record, last qubit first
# Partial correctness (ValueError: wrong record length, or an impossible record): when it returns, every recorded outcome has been
# post-selected on a pure valid state and the state is again a pure valid state.
LEMMAS['toks_zero'] = dict(
    doc='a code array without prefix symbols: no prefix count, phase 0',
    params=[('a', 'int1'), ('k', 'int')],
    requires=['0 <= k <= len(a)', 'forall(j, 0, len(a), 0 <= a[j] <= 3)'],
    ensures=['Toks(a, k) == 0', 'CodePhase(a, k) == 0'],
    induction='k',
)
MLAYER_B = {'cls': 'MeasureLayer', 'fields': {'qubits': 'int1', 'N': 'int', 'result': 'none', 'log2prob': 'none'}}
_mb_req = ['self.N == cols(obj.gs) // 2', 'cols(obj.gs) % 2 == 0', 'inv_state(obj.gs, obj.ps, 0, cols(obj.gs) // 2)', 'obj.r == 0',
           'forall(k, 0, len(self.qubits), 0 <= self.qubits[k] < self.N)']
_mb_inv = ['inv_state(obj.gs, obj.ps, 0, cols(obj.gs) // 2)', 'obj.r == 0', 'ii >= 1', 'self.N == cols(obj.gs) // 2']
_mb_hints = [('assert', 'forall(j, 0, len(tmp), 0 <= tmp[j] <= 3)'),
             ('forall_lemma', [('k', '0', 'len(tmp) + 1')], 'toks_zero', ['tmp', 'k']),
             ('assert', 'len(arg_paulistring.g) == 2 * len(tmp)'),
             ('assert', 'arg_paulistring.p == 0'),
             ('assert', 'bits1(arg_paulistring.g)')]
CONTRACTS[CI + 'MeasureLayer.backward#record'] = dict(
    params=[('self', MLAYER_B), ('obj', STATE), ('measure_result', 'int1')],
    requires=_mb_req + ['forall(k, 0, len(measure_result), measure_result[k] == 1 or measure_result[k] == 0 - 1)'],
    may_raise=['ValueError'],
    ensures=['inv_state(obj.gs, obj.ps, 0, cols(obj.gs) // 2)', 'obj.r == 0', 'same_loc(result, obj)'],
    modifies=['obj.gs', 'obj.ps'], returns='=obj',
    loops={0: dict(var='ii', invariant=_mb_inv)},
    hints={'call:obj.postselect#0.before': _mb_hints},
)
MLAYER_B2 = {'cls': 'MeasureLayer', 'fields': {'qubits': 'int1', 'N': 'int', 'result': 'int1', 'log2prob': 'none'}}
CONTRACTS[CI + 'MeasureLayer.backward#own'] = dict(
    params=[('self', MLAYER_B2), ('obj', STATE), ('measure_result', 'none')], defaults={'measure_result': None},
    requires=_mb_req + ['forall(k, 0, len(self.result), self.result[k] == 1 or self.result[k] == 0 - 1)', 'len(self.result) <= len(self.qubits)'],
    may_raise=['ValueError'],
    ensures=['inv_state(obj.gs, obj.ps, 0, cols(obj.gs) // 2)', 'obj.r == 0', 'same_loc(result, obj)'],
    modifies=['obj.gs', 'obj.ps'], returns='=obj',
    loops={1: dict(var='ii', invariant=_mb_inv)},
    hints={'call:obj.postselect#1.before': _mb_hints},
)

# ------------------------------------------------------------------ C17: a copy of a gate shares nothing with the original
GATE_GEN_C = {'cls': 'CliffordGate', 'fields': {'n': 'int', 'generator': dict(PAULI, exact=False), 'forward_map': 'none', 'backward_map': 'none', 'qubits': 'int1'}}
GATE_MAP_C = {'cls': 'CliffordGate', 'fields': {'n': 'int', 'generator': 'none', 'forward_map': CMAP, 'backward_map': CMAP, 'qubits': 'int1'}}
CONTRACTS[CI + 'CliffordGate.copy#generator'] = dict(
    params=[('self', GATE_GEN_C)], requires=['self.n == len(self.qubits)'],
    ensures=['result.n == self.n', 'len(result.qubits) == len(self.qubits)', 'forall(k, 0, len(self.qubits), result.qubits[k] == self.qubits[k])',
             'eq1(result.generator.g, self.generator.g)', 'result.generator.p == self.generator.p', 'fresh_loc(result.generator.g)'],
    modifies=[], returns=GATE_GEN_C)
CONTRACTS[CI + 'CliffordGate.copy#maps'] = dict(
    params=[('self', GATE_MAP_C)], requires=['self.n == len(self.qubits)'],
    ensures=['result.n == self.n', 'len(result.qubits) == len(self.qubits)', 'forall(k, 0, len(self.qubits), result.qubits[k] == self.qubits[k])',
             'rows(result.forward_map.gs) == rows(self.forward_map.gs)', 'cols(result.forward_map.gs) == cols(self.forward_map.gs)',
             'forall(j, 0, rows(self.forward_map.gs), forall(c, 0, cols(self.forward_map.gs), result.forward_map.gs[j][c] == self.forward_map.gs[j][c]))',
             'eq1(result.forward_map.ps, self.forward_map.ps)',
             'forall(j, 0, rows(self.backward_map.gs), forall(c, 0, cols(self.backward_map.gs), result.backward_map.gs[j][c] == self.backward_map.gs[j][c]))',
             'eq1(result.backward_map.ps, self.backward_map.ps)',
             'fresh_loc(result.forward_map.gs)', 'fresh_loc(result.forward_map.ps)', 'fresh_loc(result.backward_map.gs)', 'fresh_loc(result.backward_map.ps)'],
    modifies=[], returns=GATE_MAP_C)

# ------------------------------------------------------------------ C19: sampled operators are signed elements of the stabilizer group
# Every sampled row is the ORDERED PRODUCT of the active stabilizers selected by a bit row of the drawn matrix C (a local of the
# function, named as a ghost: the clauses about C are discharged here and are invisible to callers and to the native monitor), with the
# phase that product has.  What the rows are products OF is stated with the canonical slice terms RowSlice / Slice1 of the tableau.
_saG = 'RowSlice(self.gs, self.r, cols(self.gs) // 2)'
_saP = 'Slice1(self.ps, self.r, cols(self.gs) // 2)'
CONTRACTS[ST + 'StabilizerState.sample'] = dict(
    params=[('self', STATE), ('L', 'int')],
    requires=['L >= 0', 'cols(self.gs) % 2 == 0', 'inv_state(self.gs, self.ps, self.r, cols(self.gs) // 2)'],
    ensures=['rows(result.gs) == L', 'cols(result.gs) == cols(self.gs)', 'len(result.ps) == L', 'bits2(result.gs)',
             'rows(C) == L', 'cols(C) == cols(self.gs) // 2 - self.r', 'bits2(C)',
             'forall(j, 0, L, forall(c, 0, cols(self.gs), result.gs[j][c] == OrdG(C[j], %s, cols(self.gs) // 2 - self.r, c)))' % _saG,
             'forall(j, 0, L, result.ps[j] == OrdP(C[j], %s, %s, cols(self.gs) // 2 - self.r, cols(self.gs) // 2))' % (_saG, _saP)],
    modifies=[], returns=dict(PLIST, exact=False), ghost=['C'], canonical_slices=True,
)

# ------------------------------------------------------------------ C05: ANY well-formed gate keeps a valid state valid (one contract for all kinds)
# generator / forward_map / backward_map are each None or present (('opt', T): the function is verified once per combination; the
# requires exclude only "backward map without forward map", where forward() would cache an inverse into the gate).  What a
# well-formed gate is: a Hermitian generator on its n qubits, or a valid forward table on its n qubits, or nothing (resampled).
GATE_ANY = {'cls': 'CliffordGate', 'fields': {'n': 'int', 'generator': ('opt', dict(PAULI, exact=False)), 'forward_map': ('opt', CMAP),
                                             'backward_map': ('opt', CMAP), 'qubits': 'int1'}}
_fm = 'self.forward_map'
_wf_gate = ['self.n >= 1', 'len(self.qubits) >= 1',
            'implies(self.generator is not None, len(self.generator.g) == 2 * self.n and bits1(self.generator.g) and '
            '(self.generator.p == 0 or self.generator.p == 2))',
            'implies(self.generator is None and %s is not None, rows(%s.gs) == 2 * self.n and cols(%s.gs) == 2 * self.n and len(%s.ps) == 2 * self.n '
            'and bits2(%s.gs) and gram_map(%s.gs, self.n) and forall(k, 0, 2 * self.n, %s.ps[k] == 0 or %s.ps[k] == 2))' % ((_fm,) * 8),
            'implies(self.generator is None and %s is None, self.backward_map is None)' % _fm]
CONTRACTS[CI + 'CliffordGate.forward#any_state'] = dict(
    params=[('self', GATE_ANY), ('obj', STATE)],
    requires=_wf_gate + ['cols(obj.gs) % 2 == 0', _inv_obj,
                         'implies(self.n != cols(obj.gs) // 2, 2 * self.n == %s and forall(k, 0, len(self.qubits), 0 <= self.qubits[k] < cols(obj.gs) // 2))' % _cntL],
    ensures=_inv_obj_post, modifies=['obj.gs', 'obj.ps'], returns='=obj',
)
_bm = 'self.backward_map'
_wf_gate_b = ['self.n >= 1', 'len(self.qubits) >= 1',
              'implies(self.generator is not None, len(self.generator.g) == 2 * self.n and bits1(self.generator.g) and '
              '(self.generator.p == 0 or self.generator.p == 2))',
              'implies(self.generator is None and %s is not None, rows(%s.gs) == 2 * self.n and cols(%s.gs) == 2 * self.n and len(%s.ps) == 2 * self.n '
              'and bits2(%s.gs) and gram_map(%s.gs, self.n) and forall(k, 0, 2 * self.n, %s.ps[k] == 0 or %s.ps[k] == 2))' % ((_bm,) * 8),
              'implies(self.generator is None and %s is None, self.forward_map is None)' % _bm]
CONTRACTS[CI + 'CliffordGate.backward#any_state'] = dict(
    params=[('self', GATE_ANY), ('obj', STATE)],
    # backward goes through mask(qubits) for maps on the full register too ("if False and ..." in the source)
    requires=_wf_gate_b + ['cols(obj.gs) % 2 == 0', _inv_obj,
                           'implies(self.n != cols(obj.gs) // 2 or self.generator is None, 2 * self.n == %s and forall(k, 0, len(self.qubits), 0 <= self.qubits[k] < cols(obj.gs) // 2))' % _cntL],
    ensures=_inv_obj_post, modifies=['obj.gs', 'obj.ps'], returns='=obj',
)

# ------------------------------------------------------------------ C05: a LAYER of any number of well-formed gates (or its compiled map) keeps a valid state valid
GATE_ELEM = {'cls': 'CliffordGate', 'fields': GATE_ANY['fields']}
LAYER_ANY = {'cls': 'CliffordLayer', 'fields': {'gates': {'seq': GATE_ELEM}, 'forward_map': ('opt', CMAP), 'backward_map': ('opt', CMAP)}}


def _per_gate(clauses):
    return ['forall(gi, 0, len(self.gates), %s)' % c.replace('self.', 'self.gates[gi].') for c in clauses]


_loc_f = 'implies(self.n != cols(obj.gs) // 2, 2 * self.n == %s and forall(k, 0, len(self.qubits), 0 <= self.qubits[k] < cols(obj.gs) // 2))' % _cntL
_loc_b = ('implies(self.n != cols(obj.gs) // 2 or self.generator is None, 2 * self.n == %s and '
          'forall(k, 0, len(self.qubits), 0 <= self.qubits[k] < cols(obj.gs) // 2))' % _cntL)


def _layer_map_ok(m):
    return ('implies(%s is not None, rows(%s.gs) == cols(obj.gs) and cols(%s.gs) == cols(obj.gs) and len(%s.ps) == cols(obj.gs) and bits2(%s.gs) '
            'and gram_map(%s.gs, cols(obj.gs) // 2) and forall(k, 0, cols(obj.gs), %s.ps[k] == 0 or %s.ps[k] == 2))' % ((m,) * 8))


CONTRACTS[CI + 'CliffordLayer.forward#state'] = dict(
    params=[('self', LAYER_ANY), ('obj', STATE)],
    requires=['cols(obj.gs) % 2 == 0', _inv_obj, _layer_map_ok('self.forward_map')] + _per_gate(_wf_gate + [_loc_f]),
    ensures=_inv_obj_post, modifies=['obj.gs', 'obj.ps'], returns='=obj', calls={'gate.forward': 'CliffordGate.forward#any_state'},
    loops={0: dict(var='gi', invariant=[_inv_obj, 'cols(obj.gs) % 2 == 0', 'obj.r == old(obj.r)', 'rows(obj.gs) == cols(obj.gs)', 'len(obj.ps) == rows(obj.gs)'])},
)
CONTRACTS[CI + 'CliffordLayer.backward#state'] = dict(
    params=[('self', LAYER_ANY), ('obj', STATE)],
    requires=['cols(obj.gs) % 2 == 0', _inv_obj, _layer_map_ok('self.backward_map')] + _per_gate(_wf_gate_b + [_loc_b]),
    ensures=_inv_obj_post, modifies=['obj.gs', 'obj.ps'], returns='=obj', calls={'gate.backward': 'CliffordGate.backward#any_state'},
    loops={0: dict(var='gi', invariant=[_inv_obj, 'cols(obj.gs) % 2 == 0', 'obj.r == old(obj.r)', 'rows(obj.gs) == cols(obj.gs)', 'len(obj.ps) == rows(obj.gs)'])},
)

# ------------------------------------------------------------------ C20 / C15: selection from a polynomial keeps strings, PHASES and coefficients of the selected terms
CONTRACTS[PA + 'PauliPolynomial.__getitem__#int'] = dict(
    params=[('self', POLY), ('item', 'int')],
    requires=['0 <= item < rows(self.gs)', 'len(self.ps) == rows(self.gs)', 'len(self.cs) == rows(self.gs)'],
    ensures=['len(result.g) == cols(self.gs)', 'forall(c, 0, cols(self.gs), result.g[c] == self.gs[item][c])', 'result.p == self.ps[item]', 'result.c == self.cs[item]'],
    modifies=[], returns=PMONO,
)
CONTRACTS[PA + 'PauliPolynomial.__getitem__#slice'] = dict(
    params=[('self', POLY), ('item', 'slice')],
    requires=['0 <= item.start <= item.stop <= rows(self.gs)', 'len(self.ps) == rows(self.gs)', 'len(self.cs) == rows(self.gs)'],
    ensures=['rows(result.gs) == item.stop - item.start', 'cols(result.gs) == cols(self.gs)', 'len(result.ps) == item.stop - item.start',
             'len(result.cs) == item.stop - item.start',
             'forall(k, 0, item.stop - item.start, forall(c, 0, cols(self.gs), result.gs[k][c] == self.gs[k + item.start][c]))',
             'forall(k, 0, item.stop - item.start, result.ps[k] == self.ps[k + item.start])',
             'forall(k, 0, item.stop - item.start, result.cs[k] == self.cs[k + item.start])'],
    modifies=[], returns=POLY,
)
CONTRACTS[PA + 'PauliPolynomial.__getitem__#index'] = dict(
    params=[('self', POLY), ('item', 'int1')],
    requires=['forall(k, 0, len(item), 0 <= item[k] < rows(self.gs))', 'len(self.ps) == rows(self.gs)', 'len(self.cs) == rows(self.gs)'],
    ensures=['rows(result.gs) == len(item)', 'cols(result.gs) == cols(self.gs)', 'len(result.ps) == len(item)', 'len(result.cs) == len(item)',
             'forall(k, 0, len(item), forall(c, 0, cols(self.gs), result.gs[k][c] == self.gs[item[k]][c]))',
             'forall(k, 0, len(item), result.ps[k] == self.ps[item[k]])',
             'forall(k, 0, len(item), result.cs[k] == self.cs[item[k]])'],
    modifies=[], returns=POLY,
)
CONTRACTS[PA + 'PauliPolynomial.__getitem__#mask'] = dict(
    params=[('self', POLY), ('item', 'bool1')],
    requires=['len(item) == rows(self.gs)', 'len(self.ps) == rows(self.gs)', 'len(self.cs) == rows(self.gs)'],
    ensures=['rows(result.gs) == %s' % _giM, 'cols(result.gs) == cols(self.gs)', 'len(result.ps) == %s' % _giM, 'len(result.cs) == %s' % _giM,
             'forall(k, 0, %s, forall(c, 0, cols(self.gs), result.gs[k][c] == self.gs[MaskIdx(item, len(item))[k]][c]))' % _giM,
             'forall(k, 0, %s, result.ps[k] == self.ps[MaskIdx(item, len(item))[k]])' % _giM,
             'forall(k, 0, %s, result.cs[k] == self.cs[MaskIdx(item, len(item))[k]])' % _giM],
    modifies=[], returns=POLY,
)

# ------------------------------------------------------------------ C05 / C12: stabilizer_state(list) returns a valid state whenever it returns
# Partial correctness (ValueError: anticommuting input - or a list whose projection does not give one new stabilizer per element, in
# which case the sign assignment cannot be made).  On return: every pair of the given stabilizers commutes, the tableau is valid, the
# rank is N - L (or the list has one element), the signs of the active rows are Hermitian.
_ssg = 'stabilizers[0]'
_sso = 'old(stabilizers)[0]'
CONTRACTS[ST + 'stabilizer_state#list'] = dict(
    params=[('stabilizers', ('varargs', [dict(PLIST, exact=True)]))],
    requires=['cols(%s.gs) %% 2 == 0' % _ssg, 'rows(%s.gs) >= 1' % _ssg, 'len(%s.ps) == rows(%s.gs)' % (_ssg, _ssg), 'bits2(%s.gs)' % _ssg,
              'forall(k, 0, rows(%s.gs), %s.ps[k] == 0 or %s.ps[k] == 2)' % (_ssg, _ssg, _ssg)],
    may_raise=['ValueError'],
    ensures=['inv_state(result.gs, result.ps, result.r, cols(%s.gs) // 2)' % _sso,
             'rows(%s.gs) == 1 or result.r == cols(%s.gs) // 2 - rows(%s.gs)' % (_sso, _sso, _sso),
             # the given signs are the signs of the ACTIVE rows, in order
             'implies(result.r == cols(%s.gs) // 2 - rows(%s.gs), forall(k, 0, rows(%s.gs), result.ps[result.r + k] == %s.ps[k]))' % (_sso, _sso, _sso, _sso),
             'forall(a, 0, rows(%s.gs), forall(b, 0, rows(%s.gs), AcqSum(%s.gs[a], %s.gs[b], cols(%s.gs) // 2) %% 2 == 0))' % ((_sso,) * 5)],
    modifies=[], returns=STATE,
)

# ------------------------------------------------------------------ C12 / C05: the random computational-basis state
_rbI = '(2 * a + 1 if a < N else 2 * (a - N))'
_rb_tab = 'forall(a, 0, 2 * N, forall(c, 0, 2 * N, result[0][a][c] == b2i(c == %s)))' % _rbI
CONTRACTS[ST + 'random_bit_state_gs_ps'] = dict(
    params=[('N', 'int')], requires=['N >= 0'],
    ensures=['rows(result[0]) == 2 * N', 'cols(result[0]) == 2 * N', 'len(result[1]) == 2 * N',
             # row a is the unit string at position 2a+1 (Z_a) for a < N and at 2(a-N) (X_{a-N}) for a >= N
             _rb_tab,
             'forall(i, 0, N, forall(c, 0, 2 * N, result[0][i][c] == b2i(c == 2 * i + 1) and result[0][N + i][c] == b2i(c == 2 * i)))',
             'forall(k, 0, 2 * N, result[1][k] == 0 or result[1][k] == 2)',
             # ... which is a valid tableau (the argument of identity_map, with the rows in tableau order)
             'bits2(result[0])', 'gram(result[0], N)'],
    modifies=[], returns=('int2 fresh', 'int1 fresh'),
    hints={'return': [
        ('assert_from', 'gram(result[0], N)',
         ['N >= 0', _rb_tab,
          ('forall_lemma', [('a', '0', '2 * N'), ('b', '0', '2 * N')], 'acqsum_ext', ['result[0][b]', 'Unit(2 * b + 1 if b < N else 2 * (b - N), 2 * N)', 'result[0][a]', 'N']),
          ('forall_lemma', [('a', '0', '2 * N'), ('b', '0', '2 * N')], 'acq_unit', ['result[0][a]', '2 * b + 1 if b < N else 2 * (b - N)', '2 * N', 'N'])]),
    ]},
    loops={0: dict(var='i', invariant=['rows(gs) == 2 * N', 'cols(gs) == 2 * N',
                                       'forall(a, 0, 2 * N, forall(c, 0, 2 * N, gs[a][c] == (b2i(c == %s) if (a < i or (N <= a and a < N + i)) else 0)))' % _rbI])},
)
CONTRACTS[ST + 'random_bit_state'] = dict(
    params=[('N', 'int')], requires=['N >= 0'],
    # a computational-basis state: stabilizers +-Z_i, destabilizers X_i, pure
    ensures=['rows(result.gs) == 2 * N', 'cols(result.gs) == 2 * N', 'len(result.ps) == 2 * N', 'result.r == 0',
             'forall(i, 0, N, forall(c, 0, 2 * N, result.gs[i][c] == b2i(c == 2 * i + 1) and result.gs[N + i][c] == b2i(c == 2 * i)))',
             'forall(k, 0, 2 * N, result.ps[k] == 0 or result.ps[k] == 2)',
             'inv_state(result.gs, result.ps, result.r, N)'],
    modifies=[], returns=STATE,
)

# ------------------------------------------------------------------ C10: compiling a MAP gate fills in the missing direction with the inverse table
_inv_e = CONTRACTS[ST + 'CliffordMap.inverse']['ensures'][:7]
GATE_FWD_ONLY = {'cls': 'CliffordGate', 'fields': {'n': 'int', 'generator': 'none', 'forward_map': CMAP, 'backward_map': 'none'}}
GATE_BWD_ONLY = {'cls': 'CliffordGate', 'fields': {'n': 'int', 'generator': 'none', 'forward_map': 'none', 'backward_map': CMAP}}
CONTRACTS[CI + 'CliffordGate.compile#forward_only'] = dict(
    params=[('self', GATE_FWD_ONLY)],
    requires=[r.replace('self.', 'self.forward_map.') for r in CONTRACTS[ST + 'CliffordMap.inverse']['requires']],
    # backward_map is the inverse table OF forward_map (inverse o forward = identity, strings and phases); forward_map is kept
    ensures=[e.replace('result.', 'self.backward_map.').replace('self.gs', 'self.forward_map.gs').replace('self.ps', 'self.forward_map.ps') for e in _inv_e] +
            ['same_loc(result, self)'],
    may_raise=['ValueError'],
    modifies=[], modifies_scalar=['self.backward_map'], returns='=self',
)
CONTRACTS[CI + 'CliffordGate.compile#backward_only'] = dict(
    params=[('self', GATE_BWD_ONLY)],
    requires=[r.replace('self.', 'self.backward_map.') for r in CONTRACTS[ST + 'CliffordMap.inverse']['requires']],
    ensures=[e.replace('result.', 'self.forward_map.').replace('self.gs', 'self.backward_map.gs').replace('self.ps', 'self.backward_map.ps') for e in _inv_e] +
            ['same_loc(result, self)'],
    may_raise=['ValueError'],
    modifies=[], modifies_scalar=['self.forward_map'], returns='=self',
)

# ------------------------------------------------------------------ C10: compile of ANY gate - which directions exist afterwards, and when it refuses
GATE_ANY_C = {'cls': 'CliffordGate', 'fields': {'n': 'int', 'generator': ('opt', dict(PAULI, exact=False)), 'forward_map': ('opt', CMAP), 'backward_map': ('opt', CMAP)}}
_invreq = lambda m: ('implies(self.generator is None and %s is not None, rows(%s.gs) == cols(%s.gs) and rows(%s.gs) >= 1 and len(%s.ps) == rows(%s.gs) and bits2(%s.gs))' % ((m,) * 7))
CONTRACTS[CI + 'CliffordGate.compile#any'] = dict(
    params=[('self', GATE_ANY_C)],
    requires=['implies(self.generator is not None, len(self.generator.g) % 2 == 0 and bits1(self.generator.g) and 0 <= self.generator.p <= 3)',
              _invreq('self.forward_map'), _invreq('self.backward_map')],
    # a gate without generator and without maps (resampled at every call) cannot be compiled: exactly then an Exception
    raises={'Exception': 'self.generator is None and self.forward_map is None and self.backward_map is None'},
    may_raise=['ValueError'],
    ensures=['self.forward_map is not None', 'self.backward_map is not None', 'same_loc(result, self)'],
    modifies=[], modifies_scalar=['self.forward_map', 'self.backward_map'], returns='=self',
)

# ------------------------------------------------------------------ C17: copy of ANY gate - the same parts are present, equal, and nothing is shared
def _copy_map(m):
    return ('implies(self.%s is not None, result.%s is not None and rows(result.%s.gs) == rows(self.%s.gs) and cols(result.%s.gs) == cols(self.%s.gs) and '
            'forall(j, 0, rows(self.%s.gs), forall(c, 0, cols(self.%s.gs), result.%s.gs[j][c] == self.%s.gs[j][c])) and eq1(result.%s.ps, self.%s.ps) and '
            'fresh_loc(result.%s.gs) and fresh_loc(result.%s.ps))' % ((m,) * 14))


CONTRACTS[CI + 'CliffordGate.copy#any'] = dict(
    params=[('self', GATE_ANY)], requires=['self.n == len(self.qubits)'],
    ensures=['result.n == self.n', 'len(result.qubits) == len(self.qubits)', 'forall(k, 0, len(self.qubits), result.qubits[k] == self.qubits[k])',
             'implies(self.generator is None, result.generator is None)', 'implies(self.forward_map is None, result.forward_map is None)',
             'implies(self.backward_map is None, result.backward_map is None)',
             'implies(self.generator is not None, result.generator is not None and eq1(result.generator.g, self.generator.g) and '
             'result.generator.p == self.generator.p and fresh_loc(result.generator.g))',
             _copy_map('forward_map'), _copy_map('backward_map')],
    modifies=[], returns=GATE_ANY,
)
