"""Record, for every function under contract, its locals in order of first binding (contracts/LOCALS.json).  Run on the unchanged
tree whenever contracts are (re)written; used by pyvc.driver.rename_contract to follow a pure renaming of locals."""
import json
import os
import sys

sys.path.insert(0, os.path.dirname(os.path.dirname(os.path.abspath(__file__))))
from pyvc import driver      # noqa: E402

lib = driver.load_library()
out = {}
for key in lib.contracts:
    base = key.split('#')[0]
    filekey, qual = base.split('::')
    fdef, _ = driver.find_function(filekey, qual)
    if fdef is not None:
        out[base] = driver.ordered_locals(fdef)
json.dump(out, open(driver.LOCALS_FILE, 'w'), indent=0, sort_keys=True)
print('%s: %d functions' % (driver.LOCALS_FILE, len(out)))
