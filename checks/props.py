"""Per-property check definitions: which functions / lemmas are under deductive contract, which bounded
stand-ins run, and the level claimed.  Each function takes a core.Run and returns (level, explanation)."""
U = 'pyclifford/utils.py::'


def C01(run):
    run.deductive(keys=[U + 'acq', U + 'ipow', U + 'p0', U + 'ps0', U + 'acq_mat'],
                  lemmas=['acq_is_anticount'])
    from . import bounded
    run.bounded_check('c01_products', bounded.c01_products, Nmax=2 if run.tier == 'quick' else 3)
    return 'proof', 'kernel contracts of the Pauli product discharged for all N'


PROPS = {'C01': C01}
