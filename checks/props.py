"""Per-property check definitions: which functions / lemmas are under deductive contract (engine A), which bounded
stand-ins run, the level claimed.  Each entry is a function taking a core.Run and returning (level, explanation)."""
U = 'pyclifford/utils.py::'
PA = 'pyclifford/paulialg.py::'
ST = 'pyclifford/stabilizer.py::'
GATES = ['pyclifford/circuit.py::CliffordGate.forward#generator_global', 'pyclifford/circuit.py::CliffordGate.backward#generator_global',
         'pyclifford/circuit.py::CliffordGate.forward#map_global', 'pyclifford/circuit.py::CliffordGate.forward#generator_global_state',
         'pyclifford/circuit.py::CliffordGate.backward#generator_global_state', 'pyclifford/circuit.py::CliffordGate.forward#map_global_state']
LOCAL_GATES = ['pyclifford/circuit.py::CliffordGate.forward#generator_local', 'pyclifford/circuit.py::CliffordGate.backward#generator_local',
               'pyclifford/circuit.py::CliffordGate.forward#map_local', 'pyclifford/circuit.py::CliffordGate.backward#map_local']
LOCAL_STATE = ['pyclifford/paulialg.py::PauliList.rotate_by#mask_state', 'pyclifford/circuit.py::CliffordGate.forward#generator_local_state',
               'pyclifford/circuit.py::CliffordGate.backward#generator_local_state', 'pyclifford/paulialg.py::PauliList.transform_by#mask_state',
               'pyclifford/circuit.py::CliffordGate.forward#map_local_state']
POLY_SEL = [PA + 'PauliPolynomial.__getitem__#int', PA + 'PauliPolynomial.__getitem__#slice', PA + 'PauliPolynomial.__getitem__#mask', PA + 'PauliPolynomial.__getitem__#index']
CASTS = [PA + 'Pauli.as_list', PA + 'Pauli.as_monomial', PA + 'Pauli.as_polynomial', PA + 'PauliList.as_polynomial', PA + 'Pauli.tokenize']
ANY_GATE = ['pyclifford/circuit.py::CliffordGate.forward#any_state', 'pyclifford/circuit.py::CliffordGate.backward#any_state',
            'pyclifford/circuit.py::CliffordLayer.forward#state', 'pyclifford/circuit.py::CliffordLayer.backward#state']
MBACK = ['pyclifford/circuit.py::MeasureLayer.backward#record', 'pyclifford/circuit.py::MeasureLayer.backward#own']
RANDOM_STATE = [ST + 'random_clifford_map', ST + 'random_clifford_state#none', ST + 'random_clifford_state#r', ST + 'random_pauli_state#none', ST + 'random_pauli_state#r',
                'pyclifford/circuit.py::CliffordGate.forward#random_global_state', 'pyclifford/circuit.py::CliffordGate.forward#random_local_state',
                'pyclifford/circuit.py::CliffordGate.backward#random_state']
RANDOM_CLIFFORD = [U + 'random_clifford.random_clifford_', U + 'random_clifford', U + 'clifford_rotate_signless']
MASK_LEMMAS = ['mask_index', 'inq_exists', 'inq_member', 'expand_sums', 'split_acq', 'acqout_ext']
CLASS_LAYER = [PA + 'Pauli.__matmul__#Pauli', PA + 'Pauli.__neg__', PA + 'Pauli.copy', PA + 'PauliList.copy',
               PA + 'PauliList.rotate_by#nomask', PA + 'PauliList.transform_by#nomask', PA + 'PauliList.rotate_by#mask', PA + 'PauliList.transform_by#mask', ST + 'CliffordMap.copy', ST + 'CliffordMap.compose',
               ST + 'CliffordMap.to_state#r', ST + 'CliffordMap.to_state#none', ST + 'StabilizerState.copy', ST + 'StabilizerState.to_map',
               ST + 'StabilizerState.expect#list', ST + 'identity_map', ST + 'StabilizerState.measure#list', ST + 'StabilizerState.measure#state', ST + 'StabilizerState.postselect',
               ST + 'StabilizerState.expect#state', ST + 'CliffordMap.inverse', ST + 'clifford_rotation_map', ST + 'zero_state', ST + 'one_state', ST + 'maximally_mixed_state', ST + 'StabilizerState.entropy#mask', ST + 'StabilizerState.entropy#qubits', ST + 'StabilizerState.get_prob', ST + 'CliffordMap.embed', PA + 'PauliMonomial.__neg__', PA + 'PauliMonomial.__rmul__', PA + 'PauliMonomial.copy', PA + 'PauliMonomial.as_polynomial', PA + 'PauliPolynomial.__neg__', PA + 'PauliPolynomial.__rmul__', PA + 'PauliPolynomial.copy', ST + 'random_pauli_map', 'pyclifford/circuit.py::clifford_rotation_gate#noqubits', 'pyclifford/circuit.py::CliffordGate.compile#generator', 'pyclifford/circuit.py::CliffordGate.independent_from', 'pyclifford/circuit.py::CliffordLayer.independent_from', 'pyclifford/circuit.py::MeasureLayer.obs_gs_ps', 'pyclifford/circuit.py::H#1', 'pyclifford/circuit.py::S#1', 'pyclifford/circuit.py::X#1', 'pyclifford/circuit.py::Y#1', 'pyclifford/circuit.py::Z#1', 'pyclifford/circuit.py::CNOT#2', PA + 'PauliList.__getitem__#int', PA + 'Pauli.rotate_by#nomask', PA + 'Pauli.transform_by#nomask', 'pyclifford/circuit.py::MeasureLayer.forward', PA + 'PauliList.__neg__', PA + 'PauliList.rotate_by#state', PA + 'PauliList.transform_by#state', PA + 'PauliPolynomial.__matmul__#poly', PA + 'Pauli.__matmul__#Monomial',
               'pyclifford/circuit.py::CliffordGate.forward#generator_global', 'pyclifford/circuit.py::CliffordGate.backward#generator_global',
               'pyclifford/circuit.py::CliffordGate.forward#map_global'] + GATES[3:] + LOCAL_GATES + LOCAL_STATE + \
              [PA + '%s.__rmul__#%s' % (c, t) for c in ('Pauli', 'PauliList') for t in ('1', 'i', 'm1', 'mi')] + \
              [PA + 'pauli#codes', PA + 'pauli#chars', PA + 'pauli#str', PA + 'PauliList.__getitem__#mask', PA + 'PauliList.__getitem__#slice', PA + 'PauliList.__getitem__#index'] + \
              RANDOM_STATE + RANDOM_CLIFFORD[:2] + CASTS + POLY_SEL + MBACK + ['pyclifford/circuit.py::CliffordGate.copy#generator', 'pyclifford/circuit.py::CliffordGate.copy#maps', ST + 'StabilizerState.sample', ST + 'stabilizer_state#list', ST + 'random_bit_state', ST + 'random_bit_state_gs_ps'] + ANY_GATE + ['pyclifford/circuit.py::CliffordGate.compile#forward_only', 'pyclifford/circuit.py::CliffordGate.compile#backward_only', 'pyclifford/circuit.py::CliffordGate.compile#any', 'pyclifford/circuit.py::CliffordGate.copy#any']

# every kernel that currently has a discharged contract (their frame.* obligations are the C17 frame conditions)
MEASURE_LEMMAS = ['ordp_parity', 'xzpartial_full', 'selacq_map', 'selacq_image', 'partnersum_acq', 'transform_preserves_acq', 'acq_diff2', 'onsite_flat', 'acq_bilinear', 'acq_antisym', 'ipow_parity', 'ordg_bits', 'acq_zero', 'ordg_acq', 'selacq_gram', 'acqsum_ext',
                  'ipowsum_ext', 'symplectic_complete']
KERNELS = [U + f for f in ('batch_dot', 'random_pair', 'pauli_diagonalize1', 'stabilizer_measure', 'stabilizer_project', 'stabilizer_postselection', 'stabilizer_projection_trace', 'acq', 'ipow', 'p0', 'ps0', 'acq_mat', 'pauli_tokenize', 'pauli_combine', 'pauli_transform',
                           'clifford_rotate', 'clifford_rotate_signless', 'map_to_state', 'state_to_map', 'front',
                           'pauli_is_onsite', 'stabilizer_expect', 'z2inv', 'z2rank', 'mask', 'stabilizer_entropy', 'random_pauli', 'condense', 'pauli_diagonalize2')]


def _b():
    from . import bounded
    return bounded


def q(run, quick, thorough):
    return quick if run.tier == 'quick' else thorough


def C01(run):
    run.deductive(keys=[U + 'acq', U + 'ipow', U + 'p0', U + 'ps0', U + 'acq_mat', U + 'batch_dot', PA + 'Pauli.__matmul__#Pauli', PA + 'Pauli.__neg__',
                        PA + 'PauliPolynomial.__matmul__#poly', PA + 'Pauli.__matmul__#Monomial'],
                  lemmas=['acq_is_anticount', 'mul_assoc', 'mul_square'])
    run.bounded_check('c01_products', _b().c01_products, Nmax=q(run, 2, 3))
    return 'proof', ('deductive (all N): acq/ipow/p0/ps0/acq_mat equal the oracle spec functions built from the 2x2 matrices '
                     '(AntiCount parity, IpowSum mod 4); bounded: Pauli.__matmul__, chains, polynomial products against dense matrices')


def C02(run):
    run.deductive(keys=[U + 'clifford_rotate', U + 'clifford_rotate_signless', U + 'acq', U + 'ipow', PA + 'PauliList.rotate_by#nomask', PA + 'PauliList.rotate_by#state',
                        PA + 'PauliList.rotate_by#mask', ST + 'clifford_rotation_map', PA + 'Pauli.rotate_by#nomask'],
                  lemmas=['acq_bilinear', 'acq_antisym', 'ipow_parity', 'rotate_twice', 'mask_index', 'acq_unit', 'acqsum_ext', 'ipowsum_ext'])
    run.bounded_check('c02_rotation', _b().c02_rotation, Nmax=q(run, 2, 3))
    return 'other', ('deductive (all N, all L): clifford_rotate leaves commuting rows unchanged and replaces anticommuting rows by '
                     'i*P*G with the exact phase, modifies only gs/ps; bounded: rotate_by on every receiver kind, all masks, '
                     'undo / four-fold identities, clifford_rotation_map against U^dagger P U')


def C03(run):
    run.deductive(keys=[U + 'pauli_combine', U + 'pauli_transform', U + 'ps0', U + 'ipow', PA + 'PauliList.transform_by#nomask', PA + 'PauliList.transform_by#state',
                        PA + 'PauliList.transform_by#mask', PA + 'Pauli.transform_by#nomask'],
                  lemmas=['mask_index', 'ipowsum_ext', 'ordg_bits', 'acq_zero', 'acq_bilinear', 'acq_antisym', 'acqsum_ext', 'ordg_acq', 'selacq_map', 'selacq_image',
                          'partnersum_acq', 'transform_preserves_acq', 'ordp_parity', 'xzpartial_full', 'ipow_parity'])
    run.bounded_check('c03_transform', _b().c03_transform, Nmax=q(run, 2, 3), count=q(run, 25, 400))
    return 'other', ('deductive (all N): pauli_combine = ordered product (OrdG/OrdP), pauli_transform = homomorphic extension with the x.z '
                     'correction; bounded: homomorphism / unitarity, masks = embeddings, rotation map = rotation, against dense matrices')


def C04(run):
    run.deductive(keys=[U + 'pauli_transform', U + 'pauli_combine', U + 'ps0', U + 'z2inv', ST + 'CliffordMap.compose', ST + 'CliffordMap.inverse', ST + 'CliffordMap.copy', ST + 'identity_map'],
                  lemmas=['dot_shift', 'dot_add', 'dot_unit', 'ordg_is_dot', 'mul_assoc'])
    run.bounded_check('c04_group', _b().c04_group, Nmax=q(run, 2, 3), count=q(run, 20, 250), big=q(run, 60, 3000))
    return 'other', ('deductive (all N): z2inv returns a GF(2) inverse (Gauss-Jordan augmented-matrix invariant  left == right . mat), '
                     'CliffordMap.inverse() composed with the map is the identity map (strings and phases, in the vocabulary of '
                     "compose's postcondition), compose = pauli_transform with its functional contract; bounded: two-sidedness, "
                     'associativity on maps, closure, rejection of singular input (N=1 exhaustive over all 24 maps, sampled beyond)')


def C05(run):
    run.deductive(keys=[U + 'stabilizer_measure', U + 'stabilizer_project', U + 'map_to_state', U + 'clifford_rotate', ST + 'CliffordMap.to_state#r',
                        ST + 'CliffordMap.to_state#none', ST + 'StabilizerState.copy', ST + 'StabilizerState.measure#list', ST + 'StabilizerState.measure#state',
                        ST + 'StabilizerState.postselect', 'pyclifford/circuit.py::MeasureLayer.forward', U + 'stabilizer_postselection', PA + 'PauliList.rotate_by#state', PA + 'PauliList.transform_by#state', GATES[3], GATES[4], GATES[5],
                        U + 'stabilizer_projection_trace', U + 'mask', PA + 'PauliList.rotate_by#mask', PA + 'PauliList.transform_by#mask'] + LOCAL_STATE + RANDOM_STATE + RANDOM_CLIFFORD + MBACK + ANY_GATE + [ST + 'stabilizer_state#list', ST + 'random_bit_state'],
                  lemmas=MEASURE_LEMMAS + MASK_LEMMAS + ['acq_drop2', 'rot_preserve', 'acq_local'])
    run.bounded_check('c05_histories', _b().c05_histories, Nmax=3, walks=q(run, 45, 2500), steps=q(run, 10, 30))
    run.bounded_check('c06_measure', _b().c06_measure, Nmax=2, count=q(run, 25, 400), reps=q(run, 2, 5))
    return 'other', ('deductive (all N): the tableau invariant is preserved by the measurement / projection / post-selection kernels, by rotation and map transformation (global and on any '
                     'qubit subset), by every kind of gate - generator, map, and the RANDOM gate that resamples random_clifford_map at every call (every draw: the recursive sampler '
                     'random_clifford is proved to return a table with the canonical commutation relations) -; ONE contract for ANY well-formed gate (generator / maps each absent or present: verified per combination) '
                     'and, over it, a LAYER of any number of such gates in any mix, or its compiled map, forward and backward (loop over a list of objects of unknown length); it holds for zero / maximally mixed / random_pauli_state / '
                     'random_clifford_state of every rank; bounded: random histories from every constructor with the invariant and dense validity checked after every '
                     'public call; per-operation check for all N=1 tableaux')


def C06(run):
    run.deductive(keys=[U + 'stabilizer_measure', U + 'stabilizer_expect', ST + 'StabilizerState.measure#list', ST + 'StabilizerState.measure#state'], lemmas=MEASURE_LEMMAS)
    run.bounded_check('c06_measure', _b().c06_measure, Nmax=q(run, 2, 3), count=q(run, 40, 500), reps=q(run, 3, 6))
    return 'other', ('bounded: Born rule, joint log2-probability, projection postulate and repeatability against dense matrices: all '
                     'tableaux/ranks/signed observables for N=1, random tableaux x all ranks x commuting lists beyond')


def C07(run):
    run.deductive(keys=[U + 'stabilizer_expect', U + 'acq', U + 'ipow', ST + 'StabilizerState.expect#list', ST + 'StabilizerState.expect#state',
                        U + 'stabilizer_projection_trace'], lemmas=MEASURE_LEMMAS)
    run.bounded_check('c07_expect', _b().c07_expect, Nmax=q(run, 2, 3), count=q(run, 40, 400))
    return 'other', ('deductive (all N): stabilizer_expect returns 0 iff a row of index < N+r anticommutes, otherwise the sign of the ordered '
                     'product of the destabilizer-selected active stabilizers, no side effects; bounded: identification with Tr(rho P), '
                     'polynomials with phases, overlaps, bit-string probabilities')


def C08(run):
    run.deductive(keys=[U + 'z2rank', U + 'acq_mat', U + 'acq', U + 'stabilizer_entropy', U + 'mask', ST + 'StabilizerState.entropy#mask', ST + 'StabilizerState.entropy#qubits'],
                  lemmas=['lead_range', 'lead_char', 'lead_zero', 'rank_swap', 'rank_rowadd', 'rank_echelon', 'mask_index', 'inq_exists', 'inq_member'])
    run.bounded_check('c08_entropy', _b().c08_entropy, Nmax=q(run, 3, 4), count=q(run, 25, 200))
    return 'other', ('deductive (all N, all regions, all ranks): StabilizerState.entropy (region as boolean mask or as qubit list) and the kernel '
                     'stabilizer_entropy return the textbook rank formulas - mixed: |A| - (L - rank of the generators restricted to the complement), '
                     'pure: half the rank of the anticommutation matrix of the generators acting on both sides, restricted to A - over the active '
                     'stabilizers, where z2rank is proved to return the GF(2) rank (row swaps / row additions preserve the abstract Z2Rank - three '
                     'classical facts assumed and evaluated natively every run - and the loop ends in an echelon form with `result` non-zero rows). '
                     'bounded (the mathematical bridge): the rank formulas against the dense von Neumann entropy of the reduced density matrix '
                     'for all regions, ranks, both argument forms, N <= 3/4')


def C09(run):
    run.deductive(keys=[GATES[0], GATES[2], GATES[3], GATES[5], U + 'clifford_rotate', U + 'pauli_transform', PA + 'PauliList.rotate_by#state',
                        PA + 'PauliList.transform_by#state', U + 'mask', PA + 'PauliList.rotate_by#mask', PA + 'PauliList.transform_by#mask', 'pyclifford/circuit.py::CliffordGate.independent_from', 'pyclifford/circuit.py::CliffordLayer.independent_from', ST + 'CliffordMap.embed'] + LOCAL_GATES + LOCAL_STATE,
                  lemmas=MEASURE_LEMMAS + MASK_LEMMAS)
    run.bounded_check('c09_circuits', _b().c09_circuits, Nmax=3, programs=q(run, 40, 1500), maxlen=q(run, 5, 9), pack_len=q(run, 4, 5), pack_sample=q(run, 1500, 40000))
    return 'other', ('deductive (all N, all qubit tuples): a local generator / map gate acts on the compressed strings of its declared qubits exactly as '
                     'the small rotation / map and leaves every column of an undeclared qubit untouched (mask() = characteristic vector of the '
                     'qubit tuple, masked rotate_by / transform_by through the assumed numpy boolean-index semantics); full-register gates are '
                     'the rotation / map; two gates are independent exactly when they share no qubit, a layer is independent from a gate exactly when none of its gates shares a qubit with it (the predicates layer packing rests on); bounded: layer packing (ALL support programs of <= 4 gates on N=3), copy / compose / compile '
                     'configurations and histories against gate-by-gate application')


def C10(run):
    run.deductive(keys=[GATES[0], GATES[1], GATES[4], U + 'clifford_rotate', PA + 'Pauli.__neg__', ST + 'CliffordMap.inverse', U + 'z2inv', 'pyclifford/circuit.py::CliffordGate.compile#generator', 'pyclifford/circuit.py::CliffordGate.compile#forward_only',
                        'pyclifford/circuit.py::CliffordGate.compile#backward_only', 'pyclifford/circuit.py::CliffordGate.compile#any', 'pyclifford/circuit.py::CliffordGate.backward#any_state', ST + 'clifford_rotation_map'] + LOCAL_GATES, lemmas=['rotate_twice', 'dot_shift', 'dot_add', 'dot_unit', 'ordg_is_dot'] + MASK_LEMMAS)
    run.bounded_check('c10_inverse', _b().c10_inverse, Nmax=3, programs=q(run, 40, 1500), maxlen=q(run, 5, 9))
    return 'other', ('deductive (all N, all qubit tuples): backward of a generator gate is the rotation by minus the generator - which undoes the '
                     'rotation (lemma rotate_twice: the two product phases cancel) - and backward of a map gate is the (masked) transformation by '
                     'the GF(2)-inverse table with the phases that make inverse-then-map the identity (CliffordMap.inverse over z2inv); compiling a gate fills in the missing direction with exactly that table (generator gate: the tables of the rotation and of its inverse); '
                     'bounded: that the inverse is two-sided, and backward/forward round trips of gates, layers and circuits (compiled or not, '
                     'extended after compilation) on Pauli lists and states with rank')


def C11(run):
    named = ['pyclifford/circuit.py::%s#1' % g for g in ('H', 'S', 'X', 'Y', 'Z')] + ['pyclifford/circuit.py::CNOT#2']
    run.deductive(keys=named + [LOCAL_GATES[2], GATES[2], U + 'mask', PA + 'PauliList.transform_by#mask', PA + 'PauliList.transform_by#nomask', U + 'pauli_transform', U + 'pauli_combine'],
                  lemmas=MASK_LEMMAS)
    run.bounded_check('c11_named', _b().c11_named, Nmax=q(run, 3, 5))
    return 'other', ('deductive: H, S, X, Y, Z and CNOT (both orientations) construct exactly the tables written down from the property statement '
                     '(X / Z images with signs, for every qubit argument); '
                     'the gate tables are finite: all named gates, both CNOT orientations and C(0..23) are checked completely (exhaustive) '
                     'against the textbook images, closure under compose/inverse, rejection of bad indices, construction after in-place '
                     'modification of earlier gates; "wherever they are placed in a register": deductive for all N and all qubit tuples - a '
                     'map gate acts on the compressed strings of its qubits as its table and leaves all other columns untouched '
                     '(CliffordGate.forward#map_local / #map_global) - plus placements N <= 3/5 natively')


def C12(run):
    run.deductive(keys=[U + 'map_to_state', U + 'state_to_map', ST + 'CliffordMap.to_state#r', ST + 'CliffordMap.to_state#none', ST + 'StabilizerState.to_map', ST + 'identity_map', U + 'stabilizer_project',
                        ST + 'zero_state', ST + 'one_state', ST + 'maximally_mixed_state', ST + 'random_pauli_state#none', ST + 'random_pauli_state#r', ST + 'stabilizer_state#list', ST + 'random_bit_state', ST + 'random_bit_state_gs_ps'],
                  lemmas=['acq_bilinear', 'acq_antisym', 'acq_unit', 'acqsum_ext', 'map_state_roundtrip'])
    run.bounded_check('c12_states', _b().c12_states, Nmax=q(run, 3, 3), count=q(run, 20, 300))
    return 'other', ('deductive (all N): map_to_state / state_to_map are the exact row and phase permutations (Z-images -> stabilizers, '
                     'X-images -> destabilizers) and their composition is the identity on tables and signs (lemma map_state_roundtrip over the two contracts); CliffordMap.to_state turns the canonical commutation relations of a map into the tableau '
                     'structure of the state; identity_map satisfies them, so zero_state / maximally_mixed_state are the valid Z-basis tableaux; stabilizer_state(list), whenever it returns (ValueError allowed: partial correctness), '
                     'returns a valid state of rank N - L whose active rows carry the given signs in order, and the given stabilizers commute pairwise; random_bit_state is the Z-basis tableau with signs +- for every draw '
                     'with all signs + and rank 0 / N, one_state the same tableau with all signs -; bounded: constructors, to_state/to_map round trip, to_qutip, stabilizer_state against dense matrices')


def C13(run):
    from . import torchconf
    run.bounded_check('c13_torch', torchconf.c13_torch, Nmax=q(run, 2, 2), count=q(run, 8, 120), circuits=q(run, 30, 1500))
    return 'other', 'bounded conformance only (no VC generation for TorchScript / float tensors): every shared function on the same inputs, N <= 2'


def C14(run):
    run.deductive(keys=[U + 'stabilizer_measure', U + 'stabilizer_postselection', ST + 'StabilizerState.postselect', ST + 'StabilizerState.measure#list',
                        'pyclifford/circuit.py::MeasureLayer.forward', 'pyclifford/circuit.py::MeasureLayer.obs_gs_ps'] + MBACK, lemmas=MEASURE_LEMMAS)
    run.bounded_check('c14_trajectory', _b().c14_trajectory, Nmax=3, programs=q(run, 40, 1200))
    return 'other', ('deductive (all N): a measurement layer measures exactly the Z strings of its qubits (obs_gs_ps) through the measurement kernel (Born rule / projection per '
                     'observable, record of +-1 in order, rank update), post-selection returns the Born probability of the requested sign and the projected (or unchanged) state; '
                     'MeasureLayer.backward (supplied record, or the layer own record) post-selects Z on the recorded qubits last-first through the parser and postselect and returns a '
                     'pure valid state whenever it returns (partial correctness: ValueError allowed); '
                     'bounded: measurement layers and circuits with mid-circuit measurements against the dense trajectory in program order, '
                     'backward = adjoint of the recorded trajectory, impossible records rejected, post-selection of all signed strings')


def C15(run):
    run.deductive(keys=[U + 'batch_dot', U + 'ipow', PA + 'PauliPolynomial.__matmul__#poly', PA + 'Pauli.__matmul__#Monomial',
                        PA + 'PauliPolynomial.__neg__', PA + 'PauliPolynomial.__rmul__', PA + 'PauliPolynomial.copy',
                        PA + 'PauliMonomial.__neg__', PA + 'PauliMonomial.__rmul__', PA + 'PauliMonomial.copy', PA + 'PauliMonomial.as_polynomial',
                        PA + 'Pauli.as_monomial', PA + 'Pauli.as_polynomial', PA + 'PauliList.as_polynomial', PA + 'Pauli.as_list'] + POLY_SEL, lemmas=['mul_assoc'])
    run.bounded_check('c15_algebra', _b().c15_algebra, Nmax=q(run, 2, 3), trees=q(run, 200, 8000))
    return 'other', ('deductive (all N, all term counts; complex numbers abstract with cmul / cneg): the product of two polynomials is the list of all '
                     'pairwise term products (string sum, exact phase, product of coefficients), Pauli @ monomial keeps the coefficient, negation / '
                     'multiplication by a number act on the coefficients only, copy is faithful and fresh, the casts Pauli -> list / monomial / polynomial and list -> polynomial keep string and phase with coefficient 1; bounded: sums, reduce (numpy.unique), '
                     'trace, mixed-type promotions, random expression trees over all operand kinds against dense matrices, to_qutip exports, linearity')


def C16(run):
    run.deductive(keys=[U + 'random_pair', U + 'front', U + 'acq', U + 'random_pauli', ST + 'random_pauli_map', U + 'pauli_diagonalize2', U + 'pauli_is_onsite'] + RANDOM_CLIFFORD + RANDOM_STATE,
                  lemmas=['acq_diff2', 'onsite_flat', 'acq_antisym', 'acq_local', 'rot_preserve', 'acq_bilinear', 'acqsum_ext', 'acq_zero', 'acq_drop2'])
    run.bounded_check('c16_random', _b().c16_random, Nmax=3, samples=q(run, 25, 400), n1=q(run, 4800, 96000), n2=q(run, 36000, 576000))
    return 'other', ('deductive (all N, every RNG draw an unconstrained value): random_pair returns a non-identity string and a string anticommuting with it; '
                     'random_pauli / random_pauli_map return a valid block-diagonal Clifford map (canonical commutation relations, Hermitian signs); '
                     'pauli_diagonalize2 returns generators whose signless rotations, applied in order to BOTH '
                     'strings, turn any anticommuting pair into (Z, X or Y) on the target qubit; random_clifford (the recursive sampler, a function nested in a function, '
                     'recursion on a sub-block view of the table) returns a table with the canonical commutation relations for every draw and every N - induction over '
                     'the recursion with the measure cols(gs): block-diagonal valid table, then rotated by the diagonalising generators (rot_preserve) -; '
                     'random_clifford_map / random_clifford_state / random_pauli_state and the resampling gate inherit validity through the to_state duality and the gate contracts; '
                     'bounded: validity of the brick-wall / on-site / global circuit constructors; uniformity by chi-square with an 8-sigma threshold on N=1 (24 elements) and N=2 '
                     '(720 symplectic classes); resampling of map-less gates; fairness of sign bits and coins statistically (not a contract)')


def C17(run):
    run.deductive(keys=KERNELS + CLASS_LAYER, lemmas=['acq_is_anticount'] + MEASURE_LEMMAS)
    if run.tier == 'thorough':
        run.generator_selftest()
    run.bounded_check('c17_copies', _b().c17_copies, Nmax=3, rounds=q(run, 20, 500))
    return 'other', ('deductive (all N): the frame condition (modifies clause) of every kernel under contract: arguments not listed are '
                     'unchanged, results are fresh or exactly the in-place arguments; copies of Paulis, lists, polynomials, maps, states and GATES (generator / both maps) share no array with the original; bounded: copy of layers and circuits, query methods with '
                     'before/after snapshots')


def C18(run):
    run.deductive(keys=[U + 'front', U + 'pauli_is_onsite', U + 'pauli_diagonalize1', U + 'pauli_diagonalize2', U + 'condense', 'pyclifford/circuit.py::clifford_rotation_gate#noqubits',
                        U + 'mask', PA + 'PauliList.rotate_by#mask'] + LOCAL_GATES[:2],
                  lemmas=['acq_diff2', 'onsite_flat', 'acq_antisym', 'mask_ext', 'acq_local', 'rot_preserve', 'acq_bilinear', 'acqsum_ext', 'acq_zero'] + MASK_LEMMAS)
    run.bounded_check('c18_diagonalize', _b().c18_diagonalize, Nmax=q(run, 3, 4), hams=q(run, 30, 800), big=q(run, 150, 4000))
    return 'other', ('deductive (all N): pauli_diagonalize1 returns generators that rotate the string to Z on the target qubit (each anticommutes with '
                     'the current string); clifford_rotation_gate(G) is the local gate on the support of G whose condensed generator, padded '
                     'back onto the register, is G itself - so that, by the local-gate contract, its forward IS the rotation by G; '
                     'bounded: the circuits built from these by diagonalize for all strings, signs, targets, causal on/off (N <= 3/4), '
                     'states, SBRG on commuting (exact) and arbitrary (diagonal form) Hamiltonians')


def C19(run):
    run.deductive(keys=[U + 'pauli_combine', ST + 'StabilizerState.sample', ST + 'StabilizerState.copy', ST + 'zero_state', U + 'stabilizer_expect', ST + 'StabilizerState.expect#list'],
                  lemmas=['ipowsum_ext', 'sample_expect_one'])
    run.bounded_check('c19_sampling', _b().c19_sampling, Nmax=3, count=q(run, 15, 300))
    return 'other', ('deductive (all N, every draw): every row returned by StabilizerState.sample is the ordered product of the ACTIVE stabilizers selected by a bit row of the drawn '
                     'matrix, with the phase of that product (ghost witness: the local C; through the contract of pauli_combine), the state is not modified; copy / zero_state as used '
                     'by the snapshot code are faithful / valid; lemma sample_expect_one (with member_expect, ordg_slice, ordp_slice: inductions over the product): what sample returns - by its contract - has expectation +1 '
                     'by the contract of stabilizer_expect (it commutes with every stabilizer and standby row, the anticommuting active destabilizers are exactly the partners of the selected rows, so the '
                     'reconstructed sign is its own phase) for every N and r < N; bounded: the same by running both, r = N, uniformity, density-matrix '
                     'expansion, classical-shadow snapshots')


def C20(run):
    run.deductive(keys=[U + 'pauli_tokenize', PA + 'pauli#codes', PA + 'pauli#chars', PA + 'pauli#str',
                        PA + 'Pauli.__neg__', PA + 'PauliList.__neg__', PA + 'PauliList.__getitem__#int', PA + 'PauliList.__getitem__#mask',
                        PA + 'PauliList.__getitem__#slice', PA + 'PauliList.__getitem__#index', PA + 'Pauli.tokenize', PA + 'Pauli.as_list',
                        PA + 'PauliMonomial.__neg__', PA + 'PauliPolynomial.__neg__'] + POLY_SEL +
                  [PA + '%s.__rmul__#%s' % (c, t) for c in ('Pauli', 'PauliList') for t in ('1', 'i', 'm1', 'mi')],
                  lemmas=['toks_range', 'toks_mono', 'toks_range_c', 'toks_mono_c', 'tokens_no_prefix', 'tokens_roundtrip', 'chars_codes_agree'])
    run.bounded_check('c20_formats', _b().c20_formats, Nmax=q(run, 3, 5))
    return 'other', ('deductive (all N, L): pauli_tokenize produces exactly the documented token codes; the parser pauli() on code arrays, lists of letters and strings of ANY length puts the operator symbols on the qubits in order, '
                     'skips prefix symbols and returns the phase they describe (loop invariant over the prefix counter h); lemmas: parsing a token row returns the tokenized string and phase, a string and the code array spelling the same symbols '
                     'describe the same operator; selection by integer, slice, boolean mask and index array, negation and the four unit multiples are the documented list / phase arithmetic; bounded and exhaustive per N: dictionaries, printing, all '
                     'strings x phases x accepted formats, print/parse and tokenize/parse round trips, indexing, negation, unit multiples')


PROPS = {k: v for k, v in globals().items() if len(k) == 3 and k[0] == 'C' and k[1:].isdigit()}

TECHNIQUE = {
    'C01': 'contract-based deductive verification (own ast->VC generator over the real source, z3): acq / ipow / p0 / ps0 / acq_mat / batch_dot and the class-layer products against oracle spec functions built from the 2x2 matrices, associativity / square lemmas by induction; bounded dense-matrix stand-in as cross-check',
    'C02': 'deductive contracts (z3): clifford_rotate, rotate_by (unmasked, masked, on states with the tableau invariant, on single Paulis), clifford_rotation_map, double-rotation lemma; bounded dense-matrix stand-in for U^dagger P U, all masks and receivers',
    'C03': 'deductive contracts (z3): pauli_combine / pauli_transform as ordered products, transform_by (unmasked, masked, on states), homomorphism lemma chain (valid maps preserve commutation and Hermiticity); bounded dense-matrix stand-in',
    'C04': 'deductive contracts (z3): z2inv by the Gauss-Jordan augmented-matrix invariant, CliffordMap.inverse (inverse o map = identity, strings and phases), compose as functional contract, identity_map; bounded: two-sidedness, associativity on maps, N=1 exhaustive, sparse maps up to N=12',
    'C05': 'deductive (z3, all N): tableau invariant preserved by the measure / project / projection_trace / postselection kernels, by state rotation and map transformation (global and on any qubit subset), by every kind of gate incl. the resampling random gate, by whole layers of arbitrary gates (forward / backward, compiled or not), by to_state / copy / measure / postselect glue, for the zero / mixed / random state constructors; bounded random histories for circuit traversal (linked layers), take / compile',
    'C06': 'deductive per-observable step contract of stabilizer_measure (Born rule / projection postulate in algebraic form, both coins) and measure glue (z3); bounded dense-matrix oracle for the identification with matrices',
    'C07': 'deductive contracts on stabilizer_expect, stabilizer_projection_trace, expect(list / state), get_prob as side-effect-free query (z3); bounded dense trace oracle',
    'C08': 'deductive contracts (z3): z2rank = GF(2) rank (abstract rank + three assumed classical lemmas, echelon invariant), stabilizer_entropy / StabilizerState.entropy = the textbook rank formulas; bounded dense von Neumann entropy oracle for the bridge',
    'C09': 'deductive contracts (z3): every deterministic gate (generator / map, full register / any qubit tuple) is exactly the rotation / map transformation on its qubits and leaves all other columns untouched, mask(), independent_from; bounded exhaustive layer-packing scan and program enumeration against gate-by-gate application',
    'C10': 'deductive contracts (z3): backward of a generator gate = rotation by minus the generator (+ double-rotation lemma), backward of a map gate = transformation by the GF(2)-inverse table, compile of a generator gate; bounded forward/backward round trips incl. histories',
    'C11': 'deductive contracts (z3): H, S, X, Y, Z, CNOT construct the textbook tables; a map gate acts as its table on its qubits for every register size; exhaustive native check of all finite gate tables incl. C(0..23), closure, construction histories',
    'C12': 'deductive contracts (z3): map_to_state / state_to_map / to_state / to_map / stabilizer_project, duality (to_state turns the canonical commutation relations into the tableau structure), identity_map, zero / maximally mixed state; bounded dense oracle for the other constructors',
    'C13': 'bounded conformance testing torch vs numpy port (tensor code is outside the fragment of the VC generator)',
    'C14': 'deductive contracts on stabilizer_measure, stabilizer_postselection, postselect, MeasureLayer.forward / backward / obs_gs_ps (z3); bounded dense trajectory oracle for circuits',
    'C15': 'deductive contracts (z3, complex numbers abstract): products of polynomials / Pauli @ monomial, negation, number multiples, copy; bounded dense-matrix oracle over random expression trees for sums, reduce, trace',
    'C16': 'deductive validity for every RNG draw (z3): random_pair, random_pauli / random_pauli_map, pauli_diagonalize2, the recursive sampler random_clifford (induction over its recursion), random_clifford_map, the random states and the resampling gate; bounded validity of the circuit constructors and chi-square counting on finite groups',
    'C17': 'deductive frame conditions (modifies clauses, freshness of results) of every function under contract (z3); bounded snapshot checks for copies and queries of the class layer',
    'C18': 'deductive contracts (z3): front / pauli_is_onsite / pauli_diagonalize1 / pauli_diagonalize2 / condense / clifford_rotation_gate (gate of G = rotation by G); bounded exhaustive diagonalisation check, SBRG',
    'C19': 'deductive contracts (z3): StabilizerState.sample returns signed ordered products of the active stabilizers for every draw (ghost witness), pauli_combine, stabilizer_expect; lemma chain: such a product has expectation +1; bounded uniformity / expansion / shadow checks',
    'C20': 'deductive contracts (z3): pauli_tokenize, the parser pauli() on code arrays / letter lists / strings (loop invariant, all lengths), tokenize-then-parse and string-vs-codes lemmas, unit multiplication, negation, selection by integer / slice / boolean mask / index array; exhaustive parse / print round trips per N for dictionaries and printing',
}
