"""Bounded stand-ins (engine B of DESIGN.md, concrete form): the real pyclifford API is executed natively on an
enumerated / sampled input space with a stated bound, and compared with the dense-matrix oracle or with the
contract.  Everything here is labelled *bounded* in the evidence and is never counted as a discharged obligation."""
import itertools
import os
import sys

import numpy as np

from . import oracle as O

import pyclifford as pc                      # noqa: E402  (core.py has put $PYCLIFFORD_REPO first on sys.path)
from pyclifford import utils as pu           # noqa: E402
from pyclifford import paulialg as pa       # noqa: E402
from pyclifford import stabilizer as ps_    # noqa: E402
from pyclifford import circuit as pcirc     # noqa: E402
from contracts import gens                   # noqa: E402


class B(object):
    def __init__(self, bound, exhaustive=False):
        self.bound = bound
        self.exhaustive = exhaustive
        self.cases = 0
        self.nontrivial = 0
        self.failures = []
        self.samples = []
        self._ids = {}

    def case(self, nontrivial=True, sample=None):
        self.cases += 1
        if nontrivial:
            self.nontrivial += 1
        if sample is not None and len(self.samples) < 3:
            self.samples.append(sample)

    def fail(self, ident, what, inp=None):
        n = self._ids.get(ident, 0)
        self._ids[ident] = n + 1
        if n < 2:
            self.failures.append({'id': ident, 'what': what, 'input': inp})

    def result(self):
        return {'cases': self.cases, 'nontrivial': self.nontrivial, 'failures': self.failures, 'bound': self.bound,
                'exhaustive': self.exhaustive, 'samples': self.samples,
                'failure_counts': dict(self._ids)}


def guard(b, ident, f, inp=None):
    """run f(); an exception is a failure of the case (the API raised where the property says it works)"""
    try:
        return True, f()
    except Exception as e:          # noqa
        b.fail(ident + '.raises', '%s: %r' % (type(e).__name__, str(e)[:200]), inp)
        return False, None


def P(g, p=0):
    return pa.Pauli(np.array(g, dtype=np.int64), int(p))


def PL(gs, ps):
    return pa.PauliList(np.array(gs, dtype=np.int64), np.array(ps, dtype=np.int64))


def lst(a):
    return np.asarray(a).tolist()


# ------------------------------------------------------------------------------------------ C01
def c01_products(run, Nmax=2):
    b = B('all ordered pairs of strings with N <= %d, all 16 phase pairs' % Nmax, exhaustive=True)
    for N in range(1, Nmax + 1):
        S = O.all_strings(N)
        D = {tuple(s): O.dense(s) for s in S}
        for g1 in S:
            for g2 in S:
                A, Bm = D[tuple(g1)], D[tuple(g2)]
                AB = A @ Bm
                anti = not O.eq(AB, Bm @ A)
                if int(pu.acq(g1, g2)) != int(anti):
                    b.fail('acq', 'acq(%s,%s)=%s, matrices %s' % (lst(g1), lst(g2), pu.acq(g1, g2), 'anticommute' if anti else 'commute'),
                           {'g1': lst(g1), 'g2': lst(g2)})
                for p1 in range(4):
                    for p2 in range(4):
                        b.case(nontrivial=bool(g1.any() and g2.any()), sample={'g1': lst(g1), 'p1': p1, 'g2': lst(g2), 'p2': p2})
                        ok, q = guard(b, 'matmul', lambda: P(g1, p1) @ P(g2, p2))
                        if not ok:
                            continue
                        if not O.eq(O.dense(q.g, q.p), (1j ** p1) * (1j ** p2) * AB) or not (0 <= int(q.p) < 4):
                            b.fail('matmul', 'Pauli(%s,%d)@Pauli(%s,%d) -> (%s,%s) is not the matrix product' % (
                                lst(g1), p1, lst(g2), p2, lst(q.g), q.p), {'g1': lst(g1), 'p1': p1, 'g2': lst(g2), 'p2': p2})
    # chains: associativity and no phase drift
    rng = np.random.default_rng(run.seed)
    for _ in range(200):
        N = int(rng.integers(1, Nmax + 1))
        ops = [P(gens.bits(rng, 2 * N), rng.integers(0, 4)) for _ in range(6)]
        b.case()
        M = np.eye(2 ** N, dtype=complex)
        acc = ops[0]
        M = O.dense(acc.g, acc.p)
        for o in ops[1:]:
            acc = acc @ o
            M = M @ O.dense(o.g, o.p)
        right = ops[-1]
        for o in reversed(ops[:-1]):
            right = o @ right
        if not (O.eq(O.dense(acc.g, acc.p), M) and O.eq(O.dense(right.g, right.p), M)):
            b.fail('chain', 'chain product differs from the matrix product', {'ops': [(lst(o.g), int(o.p)) for o in ops]})
        sq = ops[0] @ ops[0]
        if sq.g.any() or int(sq.p) not in (0, 2):
            b.fail('square', 'P@P is not +-identity', {'g': lst(ops[0].g), 'p': int(ops[0].p)})
    # polynomial products through batch_dot
    for _ in range(60):
        N = int(rng.integers(1, Nmax + 1))
        L1, L2 = int(rng.integers(1, 4)), int(rng.integers(1, 4))
        A = pa.PauliPolynomial(gens.bits(rng, L1, 2 * N), rng.integers(0, 4, L1)).set_cs(rng.normal(size=L1) + 1j * rng.normal(size=L1))
        Bp = pa.PauliPolynomial(gens.bits(rng, L2, 2 * N), rng.integers(0, 4, L2)).set_cs(rng.normal(size=L2) + 1j * rng.normal(size=L2))
        b.case()
        ok, Cp = guard(b, 'poly_matmul', lambda: A @ Bp)
        if ok and not O.eq(poly_dense(Cp), poly_dense(A) @ poly_dense(Bp)):
            b.fail('poly_matmul', 'polynomial product differs from the matrix product', {'A': poly_json(A), 'B': poly_json(Bp)})
    return b.result()


def poly_dense(p):
    N = p.gs.shape[1] // 2
    M = np.zeros((2 ** N, 2 ** N), dtype=complex)
    for g, ph, c in zip(p.gs, p.ps, p.cs):
        M = M + c * O.dense(g, ph)
    return M


def poly_json(p):
    return {'gs': lst(p.gs), 'ps': lst(p.ps), 'cs': [[complex(c).real, complex(c).imag] for c in p.cs]}


REGISTRY = {'c01_products': c01_products}


def replay(d):
    """re-run the bounded check that produced the failure and report whether the same failure id re-appears"""
    from . import core
    name = d['check']
    ident = d['failure']['id']
    run = core.Run(d.get('property', '?'), 'quick', 0)
    fn = REGISTRY.get(name)
    if fn is None:
        print('unknown bounded check', name)
        return 3
    res = fn(run)
    hit = [f for f in res['failures'] if f['id'] == ident]
    print('bounded check %s: %d cases, failure %s %s' % (name, res['cases'], ident, 'REPRODUCED' if hit else 'not reproduced'))
    for f in hit[:2]:
        print('  ', f['what'])
        print('   input:', f['input'])
    return 1 if hit else 0


# ------------------------------------------------------------------------------------------ C02
def masks(N, n):
    for qs in itertools.combinations(range(N), n):
        m = np.zeros(N, dtype=bool)
        m[list(qs)] = True
        yield m


def pad(g_small, mask):
    N = len(mask)
    g = np.zeros(2 * N, dtype=np.int64)
    g[np.repeat(mask, 2)] = g_small
    return g


def c02_rotation(run, Nmax=2):
    b = B('all generators (both signs) x all operators (4 phases), N <= %d; all masks N <= %d' % (Nmax, Nmax + 1), exhaustive=True)
    for N in range(1, Nmax + 1):
        S = O.all_strings(N)
        gsall = np.array(S)
        for g in S:
            for pg in (0, 2):
                U = O.rot_U(g, pg)
                for pp in range(4):
                    lst_ = PL(gsall.copy(), np.full(len(S), pp))
                    ok, _ = guard(b, 'rotate_by', lambda: lst_.rotate_by(P(g, pg)))
                    if not ok:
                        continue
                    for j, s in enumerate(S):
                        b.case(nontrivial=bool(g.any() and s.any()), sample={'G': lst(g), 'pG': pg, 'P': lst(s), 'p': pp})
                        want = O.conj(U, O.dense(s, pp))
                        if not O.eq(O.dense(lst_.gs[j], lst_.ps[j]), want):
                            b.fail('rotate_by', 'rotate_by != U^dagger P U', {'G': lst(g), 'pG': pg, 'P': lst(s), 'p': pp})
                # single Pauli, -G undoes G, four rotations
                for s in S[:: max(1, len(S) // 8)]:
                    q = P(s.copy(), 1)
                    q.rotate_by(P(g, pg)).rotate_by(-P(g, pg))
                    b.case()
                    if not ((q.g == s).all() and q.p == 1):
                        b.fail('rotate_undo', 'rotate(-G) after rotate(G) is not the identity', {'G': lst(g), 'pG': pg, 'P': lst(s)})
                    q = P(s.copy(), 3)
                    for _ in range(4):
                        q.rotate_by(P(g, pg))
                    if not ((q.g == s).all() and q.p == 3):
                        b.fail('rotate_four', 'four rotations do not restore the operator', {'G': lst(g), 'pG': pg, 'P': lst(s)})
    # masks: generator on n qubits applied inside N qubits
    rng = np.random.default_rng(run.seed)
    for N in range(2, Nmax + 2):
        S = O.all_strings(N)
        for n in range(1, N):
            for m in masks(N, n):
                for gsm in O.all_strings(n):
                    pg = int(2 * rng.integers(0, 2))
                    U = O.rot_U(pad(gsm, m), pg)
                    sel = [S[i] for i in rng.choice(len(S), size=min(len(S), 12), replace=False)]
                    lst_ = PL(np.array(sel), rng.integers(0, 4, len(sel)))
                    before = PL(lst_.gs.copy(), lst_.ps.copy())
                    ok, _ = guard(b, 'rotate_mask', lambda: lst_.rotate_by(P(gsm, pg), m))
                    if not ok:
                        continue
                    for j in range(len(sel)):
                        b.case(sample={'mask': lst(m), 'G': lst(gsm), 'P': lst(before.gs[j])})
                        if not O.eq(O.dense(lst_.gs[j], lst_.ps[j]), O.conj(U, O.dense(before.gs[j], before.ps[j]))):
                            b.fail('rotate_mask', 'masked rotate_by != rotation by the padded generator',
                                   {'mask': lst(m), 'G': lst(gsm), 'pG': pg, 'P': lst(before.gs[j]), 'p': int(before.ps[j])})
    # polynomial, map and state receivers
    for _ in range(40):
        N = int(rng.integers(1, Nmax + 1))
        g, pg = gens.bits(rng, 2 * N), int(2 * rng.integers(0, 2))
        U = O.rot_U(g, pg)
        L = int(rng.integers(1, 4))
        poly = pa.PauliPolynomial(gens.bits(rng, L, 2 * N), rng.integers(0, 4, L)).set_cs(rng.normal(size=L) + 0j)
        M0 = poly_dense(poly)
        poly.rotate_by(P(g, pg))
        b.case()
        if not O.eq(poly_dense(poly), O.conj(U, M0)):
            b.fail('rotate_poly', 'polynomial rotate_by is not linear conjugation', {'G': lst(g)})
        gs, ps = gens.rand_tableau(rng, N)
        r = int(rng.integers(0, N + 1))
        st = ps_.StabilizerState(gs.copy(), ps=ps.copy())
        st.r = r
        R0 = O.rho_from_rows(gs, ps, r)
        st.rotate_by(P(g, pg))
        b.case()
        if not O.eq(O.rho(st), O.conj(U, R0)) or st.r != r:
            b.fail('rotate_state', 'state rotate_by is not rho -> U^dagger rho U', {'G': lst(g), 'gs': lst(gs), 'ps': lst(ps), 'r': r})
        ok, cm = guard(b, 'rotation_map', lambda: ps_.clifford_rotation_map(P(g, pg)))
        if ok:
            for k in range(2 * N):
                e = np.zeros(2 * N, dtype=np.int64)
                e[k] = 1
                if not O.eq(O.dense(cm.gs[k], cm.ps[k]), O.conj(U, O.dense(e))):
                    b.fail('rotation_map', 'clifford_rotation_map row is not U^dagger (X_k|Z_k) U', {'G': lst(g), 'pG': pg, 'k': k})
    return b.result()


REGISTRY['c02_rotation'] = c02_rotation


# ------------------------------------------------------------------------------------------ C03 / C04
def all_maps(N, rng, count):
    """(gs, ps) valid maps: N=1 all 24; else `count` random ones with random Hermitian signs"""
    out = []
    if N == 1:
        for gm in O.symplectic_maps(1):
            for s in itertools.product([0, 2], repeat=2):
                out.append((gm.copy(), np.array(s, dtype=np.int64)))
        return out
    for gm in O.symplectic_maps(N, rng, count):
        out.append((gm, 2 * gens.bits(rng, 2 * N)))
    return out


def CM(gm, pm):
    return ps_.CliffordMap(gm.copy(), pm.copy())


def c03_transform(run, Nmax=2, count=40):
    rng = np.random.default_rng(run.seed)
    b = B('N=1: all 24 maps x all operators; N<=%d: %d random valid maps x all/sampled operators; embeddings n<N<=%d' % (Nmax, count, Nmax + 1))
    for N in range(1, Nmax + 1):
        S = O.all_strings(N)
        for gm, pm in all_maps(N, rng, count):
            m = CM(gm, pm)
            img = {}
            for pp in range(4):
                lst_ = PL(np.array(S), np.full(len(S), pp))
                ok, _ = guard(b, 'transform_by', lambda: lst_.transform_by(m))
                if not ok:
                    break
                for j, s in enumerate(S):
                    b.case(nontrivial=bool(s.any()), sample={'map': lst(gm), 'signs': lst(pm), 'P': lst(s), 'p': pp})
                    want = O.apply_map_dense(gm, pm, s, pp)
                    got = O.dense(lst_.gs[j], lst_.ps[j])
                    if not O.eq(got, want):
                        b.fail('transform_by', 'image differs from the homomorphic extension of the listed images',
                               {'map': lst(gm), 'signs': lst(pm), 'P': lst(s), 'p': pp})
                    if pp == 0:
                        img[tuple(s)] = got
            # homomorphism: image(PQ) = image(P) image(Q)  (this is what makes it a conjugation by one unitary)
            for s1 in S:
                for s2 in S[:: max(1, len(S) // 6)]:
                    q = P(s1) @ P(s2)
                    qi = P(q.g.copy(), q.p).transform_by(m)
                    b.case()
                    if not O.eq(O.dense(qi.g, qi.p), img[tuple(s1)] @ img[tuple(s2)]):
                        b.fail('homomorphism', 'image(PQ) != image(P) image(Q)', {'map': lst(gm), 'signs': lst(pm), 'P': lst(s1), 'Q': lst(s2)})
            # coefficients untouched
            poly = pa.PauliPolynomial(np.array(S[:3]), np.array([0, 1, 2][:len(S[:3])])).set_cs(np.array([0.5, 2j, -1][:len(S[:3])], dtype=complex))
            cs0 = poly.cs.copy()
            poly.transform_by(m)
            if not (poly.cs == cs0).all():
                b.fail('poly_cs', 'transform_by changed polynomial coefficients', {'map': lst(gm)})
    # mask = embedding
    for N in range(2, Nmax + 2):
        S = O.all_strings(N)
        for n in range(1, N):
            for msk in masks(N, n):
                for gm, pm in all_maps(n, rng, 6)[:: 5 if n == 1 else 1]:
                    small = CM(gm, pm)
                    big = ps_.identity_map(N).embed(small, msk)
                    sel = [S[i] for i in rng.choice(len(S), size=min(len(S), 10), replace=False)]
                    l1 = PL(np.array(sel), rng.integers(0, 4, len(sel)))
                    l2 = PL(l1.gs.copy(), l1.ps.copy())
                    ok, _ = guard(b, 'transform_mask', lambda: l1.transform_by(small, msk))
                    l2.transform_by(big)
                    b.case(sample={'mask': lst(msk), 'map': lst(gm)})
                    if ok and not ((l1.gs == l2.gs).all() and (l1.ps == l2.ps).all()):
                        b.fail('transform_mask', 'masked transform_by differs from the embedded map', {'mask': lst(msk), 'map': lst(gm), 'signs': lst(pm)})
                    # embedded map acts as identity outside the mask
                    for k in range(N):
                        if not msk[k]:
                            e = np.zeros(2 * N, dtype=np.int64)
                            e[2 * k] = 1
                            if not ((big.gs[2 * k] == e).all() and big.ps[2 * k] == 0):
                                b.fail('embed', 'embed touched a wire outside the mask', {'mask': lst(msk)})
    # rotation map acts as the rotation
    for _ in range(40):
        N = int(rng.integers(1, Nmax + 1))
        g, pg = gens.bits(rng, 2 * N), int(2 * rng.integers(0, 2))
        L = 5
        l1 = PL(gens.bits(rng, L, 2 * N), rng.integers(0, 4, L))
        l2 = PL(l1.gs.copy(), l1.ps.copy())
        l1.transform_by(ps_.clifford_rotation_map(P(g, pg)))
        l2.rotate_by(P(g, pg))
        b.case()
        if not ((l1.gs == l2.gs).all() and (l1.ps == l2.ps).all()):
            b.fail('rotation_map_vs_rotate', 'transform_by(clifford_rotation_map(G)) != rotate_by(G)', {'G': lst(g), 'pG': pg})
    return b.result()


REGISTRY['c03_transform'] = c03_transform


def map_eq(a, b_):
    return (a.gs == b_.gs).all() and (a.ps % 4 == b_.ps % 4).all()


def c04_group(run, Nmax=2, count=25):
    rng = np.random.default_rng(run.seed)
    b = B('N=1: all 24^2 pairs, all inverses, sampled triples; N<=%d: %d random valid maps, pairs and triples' % (Nmax, count))
    for N in range(1, Nmax + 1):
        maps = [CM(g, p) for g, p in all_maps(N, rng, count)]
        ident = ps_.identity_map(N)
        S = O.all_strings(N)
        probe = PL(np.array(S), np.arange(len(S)) % 4)
        for a in maps:
            a0 = (a.gs.copy(), a.ps.copy())
            ok, inv = guard(b, 'inverse', lambda: a.inverse())
            b.case()
            if ok:
                if not (map_eq(a.compose(inv), ident) and map_eq(inv.compose(a), ident)):
                    b.fail('inverse', 'a.compose(a.inverse()) or a.inverse().compose(a) is not the identity', {'gs': lst(a.gs), 'ps': lst(a.ps)})
                if inv.gs is a.gs or np.shares_memory(inv.gs, a.gs):
                    b.fail('inverse_fresh', 'inverse shares memory with its operand', {})
            if not (map_eq(a.compose(ident), a) and map_eq(ident.compose(a), a)):
                b.fail('identity', 'identity map is not neutral', {'gs': lst(a.gs), 'ps': lst(a.ps)})
            if not ((a.gs == a0[0]).all() and (a.ps == a0[1]).all()):
                b.fail('operand_changed', 'compose/inverse changed their operand', {})
        pairs = [(x, y) for x in maps for y in maps] if N == 1 else [(maps[i], maps[j]) for i, j in rng.integers(0, len(maps), (60, 2))]
        for a, c in pairs:
            b.case(sample={'a': lst(a.gs), 'c': lst(c.gs)})
            ac = a.compose(c)
            # acts as "first a then c"
            l1 = PL(probe.gs.copy(), probe.ps.copy()).transform_by(a).transform_by(c)
            l2 = PL(probe.gs.copy(), probe.ps.copy()).transform_by(ac)
            if not ((l1.gs == l2.gs).all() and (l1.ps == l2.ps).all()):
                b.fail('compose_action', 'compose does not act as first-self-then-other', {'a': [lst(a.gs), lst(a.ps)], 'c': [lst(c.gs), lst(c.ps)]})
            try:
                if not map_eq(ac.inverse(), c.inverse().compose(a.inverse())):
                    b.fail('inverse_of_compose', '(ac)^-1 != c^-1 a^-1', {'a': [lst(a.gs), lst(a.ps)], 'c': [lst(c.gs), lst(c.ps)]})
            except Exception as e:
                b.fail('inverse.raises', repr(e), {})
        for i, j, k in rng.integers(0, len(maps), (80, 3)):
            a, c, d = maps[i], maps[j], maps[k]
            b.case()
            if not map_eq(a.compose(c).compose(d), a.compose(c.compose(d))):
                b.fail('associativity', 'compose is not associative', {})
    # z2inv raises on singular input, inverts otherwise (all 2x2, 3x3 matrices; sampled 4x4)
    for n in (1, 2, 3):
        for bitsm in itertools.product([0, 1], repeat=n * n):
            m = np.array(bitsm, dtype=np.int64).reshape(n, n)
            b.case()
            det_ok = int(round(np.linalg.det(m))) % 2 == 1
            try:
                inv = pu.z2inv(m.copy())
                if not det_ok or not ((inv @ m) % 2 == np.eye(n, dtype=int)).all():
                    b.fail('z2inv', 'z2inv wrong or accepted a singular matrix', {'m': lst(m)})
            except ValueError:
                if det_ok:
                    b.fail('z2inv', 'z2inv rejected an invertible matrix', {'m': lst(m)})
    return b.result()


REGISTRY['c04_group'] = c04_group


# ------------------------------------------------------------------------------------------ C05 / C06 / C07
def mk_state(gs, ps, r):
    st = ps_.StabilizerState(np.array(gs, dtype=np.int64).copy(), ps=np.array(ps, dtype=np.int64).copy())
    st.r = int(r)
    return st


def tableaux(N, rng, count):
    """N=1: all tableaux (6 symplectic x 4 sign patterns); else `count` random ones"""
    if N == 1:
        out = []
        for gm in O.symplectic_maps(1):
            for s in itertools.product([0, 2], repeat=2):
                out.append((np.stack([gm[1], gm[0]]), np.array([s[1], s[0]], dtype=np.int64)))
        return out
    return [gens.rand_tableau(rng, N) for _ in range(count)]


def state_json(st):
    return {'gs': lst(st.gs), 'ps': lst(st.ps), 'r': int(st.r)}


def commuting_obs(rng, N, L):
    """L mutually commuting signed Hermitian Pauli strings"""
    out = []
    tries = 0
    while len(out) < L and tries < 200:
        tries += 1
        g = gens.bits(rng, 2 * N)
        if all(O.eq(O.dense(g) @ O.dense(h), O.dense(h) @ O.dense(g)) for h, _ in out):
            out.append((g, int(2 * rng.integers(0, 2))))
    return out


def c06_measure(run, Nmax=2, count=60, reps=3):
    rng = np.random.default_rng(run.seed)
    b = B('N=1: all tableaux x all ranks x all signed observables; N<=%d: %d random tableaux x all ranks x lists of 1..2 commuting observables, %d RNG draws each' % (Nmax, count, reps))
    for N in range(1, Nmax + 1):
        for gs, ps in tableaux(N, rng, count):
            for r in range(N + 1):
                obs_sets = []
                if N == 1:
                    obs_sets = [[(g, p)] for g in O.all_strings(1) for p in (0, 2)]
                else:
                    obs_sets = [commuting_obs(rng, N, int(rng.integers(1, 3))) for _ in range(4)]
                    obs_sets += [[(g, 0)] for g in (gs[rng.integers(0, 2 * N)], )]
                for obs in obs_sets:
                    for rep in range(reps):
                        st = mk_state(gs, ps, r)
                        R0 = O.rho(st)
                        ol = PL(np.array([g for g, _ in obs]), np.array([p for _, p in obs]))
                        ok, res = guard(b, 'measure', lambda: st.measure(ol), {'state': state_json(mk_state(gs, ps, r)), 'obs': [(lst(g), p) for g, p in obs]})
                        b.case(nontrivial=True, sample={'state': state_json(mk_state(gs, ps, r)), 'obs': [(lst(g), p) for g, p in obs]})
                        if not ok:
                            continue
                        out, log2prob = res
                        inp = {'state': state_json(mk_state(gs, ps, r)), 'obs': [(lst(g), p) for g, p in obs], 'out': lst(out)}
                        okT, why = O.tableau_ok(st.gs, st.ps, st.r)
                        if not okT:
                            b.fail('measure_invariant', 'tableau invariant broken after measure: ' + why, inp)
                            continue
                        R = R0
                        prob = 1.0
                        for (g, p), o in zip(obs, out):
                            Pi = (np.eye(2 ** N) + (-1) ** int(o) * O.dense(g, p)) / 2
                            Rn = Pi @ R @ Pi
                            pk = np.trace(Rn).real
                            if pk < 1e-12:
                                prob = 0.0
                                break
                            prob *= pk
                            R = Rn / pk
                        if prob == 0.0:
                            b.fail('measure_impossible', 'measure returned an outcome of probability zero', inp)
                            continue
                        if abs(2.0 ** log2prob - prob) > 1e-9:
                            b.fail('measure_log2prob', 'log2prob %r but the joint Born probability is %r' % (log2prob, prob), inp)
                        if not O.eq(O.rho(st), R):
                            b.fail('measure_projection', 'post-measurement state is not the normalised projection', inp)
                            continue
                        out2, lp2 = st.measure(ol)
                        if not ((out2 == out).all() and lp2 == 0):
                            b.fail('measure_repeat', 'repeating the measurement changed the outcome or log2prob != 0', inp)
    return b.result()


REGISTRY['c06_measure'] = c06_measure


def c07_expect(run, Nmax=2, count=60):
    rng = np.random.default_rng(run.seed)
    b = B('N=1: all tableaux, ranks, signed strings; N<=%d: %d random tableaux x all ranks x all signed strings; polynomials, state overlaps, all 2^N bit strings' % (Nmax, count))
    for N in range(1, Nmax + 1):
        S = O.all_strings(N)
        for gs, ps in tableaux(N, rng, count):
            for r in range(N + 1):
                st = mk_state(gs, ps, r)
                snap = (st.gs.copy(), st.ps.copy(), st.r)
                R = O.rho(st)
                for pp in (0, 2):
                    ol = PL(np.array(S), np.full(len(S), pp))
                    ok, xs = guard(b, 'expect_list', lambda: st.expect(ol), state_json(st))
                    if not ok:
                        continue
                    for j, s in enumerate(S):
                        b.case(sample={'state': state_json(st), 'P': lst(s), 'p': pp})
                        want = np.trace(R @ O.dense(s, pp))
                        if abs(xs[j] - want) > 1e-9:
                            b.fail('expect_list', 'expect gives %r, Tr(rho P) = %r' % (xs[j], want), {'state': state_json(st), 'P': lst(s), 'p': pp})
                # polynomial with phases and complex coefficients
                L = 3
                poly = pa.PauliPolynomial(gens.bits(rng, L, 2 * N), rng.integers(0, 4, L)).set_cs(rng.normal(size=L) + 1j * rng.normal(size=L))
                ok, val = guard(b, 'expect_poly', lambda: st.expect(poly), state_json(st))
                b.case()
                if ok and abs(val - np.trace(R @ poly_dense(poly))) > 1e-9:
                    b.fail('expect_poly', 'expect(polynomial) = %r, Tr(rho O) = %r' % (val, np.trace(R @ poly_dense(poly))),
                           {'state': state_json(st), 'poly': poly_json(poly)})
                for pp in range(4):
                    q = P(S[int(rng.integers(0, len(S)))], pp)
                    ok, val = guard(b, 'expect_pauli', lambda: st.expect(q), state_json(st))
                    b.case()
                    if ok and abs(val - np.trace(R @ O.dense(q.g, q.p))) > 1e-9:
                        b.fail('expect_pauli', 'expect(Pauli with phase %d) = %r, Tr = %r' % (pp, val, np.trace(R @ O.dense(q.g, q.p))),
                               {'state': state_json(st), 'P': lst(q.g), 'p': pp})
                if not ((st.gs == snap[0]).all() and (st.ps == snap[1]).all() and st.r == snap[2]):
                    b.fail('expect_side_effect', 'expect changed the state', state_json(st))
                # overlaps and bit strings (pure receiver)
                if r == 0:
                    for _ in range(2):
                        g2, p2 = tableaux(N, rng, 1)[0] if N > 1 else tableaux(1, rng, 0)[int(rng.integers(0, 24))]
                        r2 = int(rng.integers(0, N + 1))
                        other = mk_state(g2, p2, r2)
                        ok, val = guard(b, 'expect_state', lambda: st.expect(other), state_json(st))
                        b.case()
                        want = np.trace(R @ O.rho(other)).real
                        if ok and abs(val - want) > 1e-9:
                            b.fail('expect_state', 'overlap %r, Tr(rho sigma) = %r' % (val, want), {'rho': state_json(st), 'sigma': state_json(other)})
                    tot = 0.0
                    good = True
                    for bits_ in itertools.product([0, 1], repeat=N):
                        ok, pr = guard(b, 'get_prob', lambda: st.get_prob(np.array(bits_)), state_json(st))
                        b.case()
                        if not ok:
                            good = False
                            break
                        idx = int(''.join(map(str, bits_)), 2)
                        if abs(pr - R[idx, idx].real) > 1e-9:
                            b.fail('get_prob', 'get_prob(%s) = %r, <b|rho|b> = %r' % (bits_, pr, R[idx, idx].real), {'state': state_json(st), 'b': list(bits_)})
                        tot += pr
                    if good and abs(tot - 1) > 1e-9:
                        b.fail('get_prob_sum', 'bit-string probabilities sum to %r' % tot, state_json(st))
                    if not ((st.gs == snap[0]).all() and (st.ps == snap[1]).all() and st.r == snap[2]):
                        b.fail('expect_side_effect', 'expect(state)/get_prob changed the state', state_json(st))
    return b.result()


REGISTRY['c07_expect'] = c07_expect


# ------------------------------------------------------------------------------------------ C08
def c08_entropy(run, Nmax=3, count=40):
    rng = np.random.default_rng(run.seed)
    b = B('N<=%d: all tableaux (N=1) / %d random tableaux x all ranks x all 2^N regions (index list and boolean mask)' % (Nmax, count))
    for N in range(1, Nmax + 1):
        for gs, ps in tableaux(N, rng, count):
            for r in range(N + 1):
                st = mk_state(gs, ps, r)
                R = O.rho(st)
                for region in itertools.chain.from_iterable(itertools.combinations(range(N), n) for n in range(N + 1)):
                    want = O.vn_entropy(O.ptrace(R, list(region), N)) if region else 0.0
                    forms = [('list', list(region))]
                    if region:
                        m = np.zeros(N, dtype=bool)
                        m[list(region)] = True
                        forms.append(('mask', m))
                    for fname, arg in forms:
                        b.case(nontrivial=0 < len(region) < N, sample={'state': state_json(st), 'region': list(region), 'form': fname})
                        ok, val = guard(b, 'entropy_' + fname, lambda: st.entropy(arg), {'state': state_json(st), 'region': list(region)})
                        if ok and abs(float(val) - want) > 1e-6:
                            b.fail('entropy_' + ('pure' if r == 0 else 'mixed'), 'entropy(%s) = %r, von Neumann entropy = %r' % (list(region), val, want),
                                   {'state': state_json(st), 'region': list(region), 'form': fname})
                # independence of the generating set: multiply one active stabilizer into another
                if N - r >= 2:
                    st2 = mk_state(gs, ps, r)
                    a, c = r, r + 1
                    st2.ps[a] = (st2.ps[a] + st2.ps[c] + pu.ipow(st2.gs[a], st2.gs[c])) % 4
                    st2.gs[a] = (st2.gs[a] + st2.gs[c]) % 2
                    for region in itertools.combinations(range(N), max(1, N // 2)):
                        b.case()
                        try:
                            if st2.entropy(list(region)) != st.entropy(list(region)):
                                b.fail('entropy_generators', 'entropy depends on the choice of generators', {'state': state_json(st), 'region': list(region)})
                        except Exception as e:
                            b.fail('entropy_generators.raises', repr(e), {})
    return b.result()


REGISTRY['c08_entropy'] = c08_entropy


# ------------------------------------------------------------------------------------------ C05: histories
def c05_histories(run, Nmax=3, walks=60, steps=12):
    rng = np.random.default_rng(run.seed)
    b = B('%d random histories of %d public state-changing operations from every constructor, N<=%d, invariant and dense validity checked after every call' % (walks, steps, Nmax))
    ctors = ['zero', 'one', 'mixed', 'ghz', 'rbit', 'rpauli', 'rclifford', 'stab', 'map']
    for w in range(walks):
        N = int(rng.integers(1, Nmax + 1))
        c = ctors[w % len(ctors)]
        hist = [c]
        try:
            if c == 'zero':
                st = pc.zero_state(N)
            elif c == 'one':
                st = ps_.one_state(N)
            elif c == 'mixed':
                st = pc.maximally_mixed_state(N)
            elif c == 'ghz':
                st = pc.ghz_state(max(N, 2)); N = st.N
            elif c == 'rbit':
                st = ps_.random_bit_state(N)
            elif c == 'rpauli':
                st = pc.random_pauli_state(N, int(rng.integers(0, N + 1)))
            elif c == 'rclifford':
                st = pc.random_clifford_state(N, int(rng.integers(0, N + 1)))
            elif c == 'stab':
                k = int(rng.integers(1, N + 1))
                obs = commuting_obs(rng, N, k)
                gsx = np.array([g for g, _ in obs]); psx = np.array([p for _, p in obs])
                if np.linalg.matrix_rank(gsx) < len(obs) or any(not g.any() for g in gsx):
                    continue
                st = pc.stabilizer_state(PL(gsx, psx))
            else:
                st = pc.random_clifford_map(N).to_state(int(rng.integers(0, N + 1)))
        except Exception as e:
            b.fail('ctor_%s.raises' % c, repr(e)[:200], {'N': N})
            continue
        for s in range(steps + 1):
            b.case(sample={'history': list(hist)})
            okT, why = O.tableau_ok(st.gs, st.ps, st.r)
            if okT:
                okD, whyD = O.is_density_matrix(O.rho(st), st.r)
                if not okD:
                    okT, why = False, whyD
            if not okT:
                b.fail('invariant_after_' + hist[-1].split('(')[0], 'state invalid: ' + why, {'history': hist, 'state': state_json(st)})
                break
            if s == steps:
                break
            op = int(rng.integers(0, 7))
            try:
                if op == 0:
                    g = gens.bits(rng, 2 * N); st.rotate_by(P(g, int(2 * rng.integers(0, 2)))); hist.append('rotate_by')
                elif op == 1:
                    st.transform_by(pc.random_clifford_map(N)); hist.append('transform_by')
                elif op == 2:
                    obs = commuting_obs(rng, N, int(rng.integers(1, 3)))
                    st.measure(PL(np.array([g for g, _ in obs]), np.array([p for _, p in obs]))); hist.append('measure(%s)' % [(lst(g), p) for g, p in obs])
                elif op == 3:
                    st = st.copy(); hist.append('copy')
                elif op == 4:
                    if st.r == 0:
                        g = gens.bits(rng, 2 * N)
                        st.postselect(P(g, 0), int(rng.integers(0, 2))); hist.append('postselect(%s)' % lst(g))
                elif op == 5:
                    q = tuple(sorted(rng.choice(N, size=int(rng.integers(1, N + 1)), replace=False).tolist()))
                    gate = pcirc.CliffordGate(*q); gate.set_forward_map(pc.random_clifford_map(len(q)))
                    gate.forward(st); hist.append('gate%s' % (q,))
                else:
                    q = tuple(sorted(rng.choice(N, size=int(rng.integers(1, N + 1)), replace=False).tolist()))
                    pcirc.MeasureLayer(*q, N=N).forward(st); hist.append('MeasureLayer%s' % (q,))
            except Exception as e:
                b.fail('history_op.raises', '%s after %s' % (repr(e)[:200], hist), {'history': hist})
                break
    return b.result()


REGISTRY['c05_histories'] = c05_histories
