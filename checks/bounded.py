"""Bounded stand-ins (engine B of DESIGN.md, concrete form): the real pyclifford API is executed natively on an
enumerated / sampled input space with a stated bound, and compared with the dense-matrix oracle or with the
contract.  Everything here is labelled *bounded* in the evidence and is never counted as a discharged obligation."""
import itertools
import os
import sys

import numpy as np

from . import oracle as O

import pyclifford as pc                      # noqa: E402  (core.py has put $PYCLIFFORD_REPO first on sys.path)
from pyclifford import utils as pu           # noqa: E402
from pyclifford import paulialg as pa       # noqa: E402
from pyclifford import stabilizer as ps_    # noqa: E402
from pyclifford import circuit as pcirc     # noqa: E402
from contracts import gens                   # noqa: E402


class B(object):
    def __init__(self, bound, exhaustive=False):
        self.bound = bound
        self.exhaustive = exhaustive
        self.cases = 0
        self.nontrivial = 0
        self.failures = []
        self.samples = []
        self._ids = {}

    def case(self, nontrivial=True, sample=None):
        self.cases += 1
        if nontrivial:
            self.nontrivial += 1
        if sample is not None and len(self.samples) < 3:
            self.samples.append(sample)

    def fail(self, ident, what, inp=None):
        n = self._ids.get(ident, 0)
        self._ids[ident] = n + 1
        if n < 2:
            self.failures.append({'id': ident, 'what': what, 'input': inp})

    def result(self):
        return {'cases': self.cases, 'nontrivial': self.nontrivial, 'failures': self.failures, 'bound': self.bound,
                'exhaustive': self.exhaustive, 'samples': self.samples,
                'failure_counts': dict(self._ids)}


def guard(b, ident, f, inp=None):
    """run f(); an exception is a failure of the case (the API raised where the property says it works)"""
    try:
        return True, f()
    except Exception as e:          # noqa
        b.fail(ident + '.raises', '%s: %r' % (type(e).__name__, str(e)[:200]), inp)
        return False, None


def P(g, p=0):
    return pa.Pauli(np.array(g, dtype=np.int64), int(p))


def PL(gs, ps):
    return pa.PauliList(np.array(gs, dtype=np.int64), np.array(ps, dtype=np.int64))


def lst(a):
    return np.asarray(a).tolist()


# ------------------------------------------------------------------------------------------ C01
def c01_products(run, Nmax=2):
    b = B('all ordered pairs of strings with N <= %d, all 16 phase pairs' % Nmax, exhaustive=True)
    for N in range(1, Nmax + 1):
        S = O.all_strings(N)
        D = {tuple(s): O.dense(s) for s in S}
        for g1 in S:
            for g2 in S:
                A, Bm = D[tuple(g1)], D[tuple(g2)]
                AB = A @ Bm
                anti = not O.eq(AB, Bm @ A)
                if int(pu.acq(g1, g2)) != int(anti):
                    b.fail('acq', 'acq(%s,%s)=%s, matrices %s' % (lst(g1), lst(g2), pu.acq(g1, g2), 'anticommute' if anti else 'commute'),
                           {'g1': lst(g1), 'g2': lst(g2)})
                for p1 in range(4):
                    for p2 in range(4):
                        b.case(nontrivial=bool(g1.any() and g2.any()), sample={'g1': lst(g1), 'p1': p1, 'g2': lst(g2), 'p2': p2})
                        ok, q = guard(b, 'matmul', lambda: P(g1, p1) @ P(g2, p2))
                        if not ok:
                            continue
                        if not O.eq(O.dense(q.g, q.p), (1j ** p1) * (1j ** p2) * AB) or not (0 <= int(q.p) < 4):
                            b.fail('matmul', 'Pauli(%s,%d)@Pauli(%s,%d) -> (%s,%s) is not the matrix product' % (
                                lst(g1), p1, lst(g2), p2, lst(q.g), q.p), {'g1': lst(g1), 'p1': p1, 'g2': lst(g2), 'p2': p2})
    # chains: associativity and no phase drift
    rng = np.random.default_rng(run.seed)
    for _ in range(200):
        N = int(rng.integers(1, Nmax + 1))
        ops = [P(gens.bits(rng, 2 * N), rng.integers(0, 4)) for _ in range(6)]
        b.case()
        M = np.eye(2 ** N, dtype=complex)
        acc = ops[0]
        M = O.dense(acc.g, acc.p)
        for o in ops[1:]:
            acc = acc @ o
            M = M @ O.dense(o.g, o.p)
        right = ops[-1]
        for o in reversed(ops[:-1]):
            right = o @ right
        if not (O.eq(O.dense(acc.g, acc.p), M) and O.eq(O.dense(right.g, right.p), M)):
            b.fail('chain', 'chain product differs from the matrix product', {'ops': [(lst(o.g), int(o.p)) for o in ops]})
        sq = ops[0] @ ops[0]
        if sq.g.any() or int(sq.p) not in (0, 2):
            b.fail('square', 'P@P is not +-identity', {'g': lst(ops[0].g), 'p': int(ops[0].p)})
    # polynomial products through batch_dot
    for _ in range(60):
        N = int(rng.integers(1, Nmax + 1))
        L1, L2 = int(rng.integers(1, 4)), int(rng.integers(1, 4))
        A = pa.PauliPolynomial(gens.bits(rng, L1, 2 * N), rng.integers(0, 4, L1)).set_cs(rng.normal(size=L1) + 1j * rng.normal(size=L1))
        Bp = pa.PauliPolynomial(gens.bits(rng, L2, 2 * N), rng.integers(0, 4, L2)).set_cs(rng.normal(size=L2) + 1j * rng.normal(size=L2))
        b.case()
        ok, Cp = guard(b, 'poly_matmul', lambda: A @ Bp)
        if ok and not O.eq(poly_dense(Cp), poly_dense(A) @ poly_dense(Bp)):
            b.fail('poly_matmul', 'polynomial product differs from the matrix product', {'A': poly_json(A), 'B': poly_json(Bp)})
    return b.result()


def poly_dense(p):
    N = p.gs.shape[1] // 2
    M = np.zeros((2 ** N, 2 ** N), dtype=complex)
    for g, ph, c in zip(p.gs, p.ps, p.cs):
        M = M + c * O.dense(g, ph)
    return M


def poly_json(p):
    return {'gs': lst(p.gs), 'ps': lst(p.ps), 'cs': [[complex(c).real, complex(c).imag] for c in p.cs]}


REGISTRY = {'c01_products': c01_products}


def replay(d):
    """re-run the bounded check that produced the failure and report whether the same failure id re-appears"""
    from . import core
    name = d['check']
    ident = d['failure']['id']
    run = core.Run(d.get('property', '?'), 'quick', 0)
    fn = REGISTRY.get(name)
    if fn is None:
        print('unknown bounded check', name)
        return 3
    res = fn(run)
    hit = [f for f in res['failures'] if f['id'] == ident]
    print('bounded check %s: %d cases, failure %s %s' % (name, res['cases'], ident, 'REPRODUCED' if hit else 'not reproduced'))
    for f in hit[:2]:
        print('  ', f['what'])
        print('   input:', f['input'])
    return 1 if hit else 0


# ------------------------------------------------------------------------------------------ C02
def masks(N, n):
    for qs in itertools.combinations(range(N), n):
        m = np.zeros(N, dtype=bool)
        m[list(qs)] = True
        yield m


def pad(g_small, mask):
    N = len(mask)
    g = np.zeros(2 * N, dtype=np.int64)
    g[np.repeat(mask, 2)] = g_small
    return g


def c02_rotation(run, Nmax=2):
    b = B('all generators (both signs) x all operators (4 phases), N <= %d; all masks N <= %d' % (Nmax, Nmax + 1), exhaustive=True)
    for N in range(1, Nmax + 1):
        S = O.all_strings(N)
        gsall = np.array(S)
        for g in S:
            for pg in (0, 2):
                U = O.rot_U(g, pg)
                for pp in range(4):
                    lst_ = PL(gsall.copy(), np.full(len(S), pp))
                    ok, _ = guard(b, 'rotate_by', lambda: lst_.rotate_by(P(g, pg)))
                    if not ok:
                        continue
                    for j, s in enumerate(S):
                        b.case(nontrivial=bool(g.any() and s.any()), sample={'G': lst(g), 'pG': pg, 'P': lst(s), 'p': pp})
                        want = O.conj(U, O.dense(s, pp))
                        if not O.eq(O.dense(lst_.gs[j], lst_.ps[j]), want):
                            b.fail('rotate_by', 'rotate_by != U^dagger P U', {'G': lst(g), 'pG': pg, 'P': lst(s), 'p': pp})
                # single Pauli, -G undoes G, four rotations
                for s in S[:: max(1, len(S) // 8)]:
                    q = P(s.copy(), 1)
                    q.rotate_by(P(g, pg)).rotate_by(-P(g, pg))
                    b.case()
                    if not ((q.g == s).all() and q.p == 1):
                        b.fail('rotate_undo', 'rotate(-G) after rotate(G) is not the identity', {'G': lst(g), 'pG': pg, 'P': lst(s)})
                    q = P(s.copy(), 3)
                    for _ in range(4):
                        q.rotate_by(P(g, pg))
                    if not ((q.g == s).all() and q.p == 3):
                        b.fail('rotate_four', 'four rotations do not restore the operator', {'G': lst(g), 'pG': pg, 'P': lst(s)})
    # masks: generator on n qubits applied inside N qubits
    rng = np.random.default_rng(run.seed)
    for N in range(2, Nmax + 2):
        S = O.all_strings(N)
        for n in range(1, N):
            for m in masks(N, n):
                for gsm in O.all_strings(n):
                    pg = int(2 * rng.integers(0, 2))
                    U = O.rot_U(pad(gsm, m), pg)
                    sel = [S[i] for i in rng.choice(len(S), size=min(len(S), 12), replace=False)]
                    lst_ = PL(np.array(sel), rng.integers(0, 4, len(sel)))
                    before = PL(lst_.gs.copy(), lst_.ps.copy())
                    ok, _ = guard(b, 'rotate_mask', lambda: lst_.rotate_by(P(gsm, pg), m))
                    if not ok:
                        continue
                    for j in range(len(sel)):
                        b.case(sample={'mask': lst(m), 'G': lst(gsm), 'P': lst(before.gs[j])})
                        if not O.eq(O.dense(lst_.gs[j], lst_.ps[j]), O.conj(U, O.dense(before.gs[j], before.ps[j]))):
                            b.fail('rotate_mask', 'masked rotate_by != rotation by the padded generator',
                                   {'mask': lst(m), 'G': lst(gsm), 'pG': pg, 'P': lst(before.gs[j]), 'p': int(before.ps[j])})
    # polynomial, map and state receivers
    for _ in range(40):
        N = int(rng.integers(1, Nmax + 1))
        g, pg = gens.bits(rng, 2 * N), int(2 * rng.integers(0, 2))
        U = O.rot_U(g, pg)
        L = int(rng.integers(1, 4))
        poly = pa.PauliPolynomial(gens.bits(rng, L, 2 * N), rng.integers(0, 4, L)).set_cs(rng.normal(size=L) + 0j)
        M0 = poly_dense(poly)
        poly.rotate_by(P(g, pg))
        b.case()
        if not O.eq(poly_dense(poly), O.conj(U, M0)):
            b.fail('rotate_poly', 'polynomial rotate_by is not linear conjugation', {'G': lst(g)})
        gs, ps = gens.rand_tableau(rng, N)
        r = int(rng.integers(0, N + 1))
        st = ps_.StabilizerState(gs.copy(), ps=ps.copy())
        st.r = r
        R0 = O.rho_from_rows(gs, ps, r)
        st.rotate_by(P(g, pg))
        b.case()
        if not O.eq(O.rho(st), O.conj(U, R0)) or st.r != r:
            b.fail('rotate_state', 'state rotate_by is not rho -> U^dagger rho U', {'G': lst(g), 'gs': lst(gs), 'ps': lst(ps), 'r': r})
        ok, cm = guard(b, 'rotation_map', lambda: ps_.clifford_rotation_map(P(g, pg)))
        if ok:
            for k in range(2 * N):
                e = np.zeros(2 * N, dtype=np.int64)
                e[k] = 1
                if not O.eq(O.dense(cm.gs[k], cm.ps[k]), O.conj(U, O.dense(e))):
                    b.fail('rotation_map', 'clifford_rotation_map row is not U^dagger (X_k|Z_k) U', {'G': lst(g), 'pG': pg, 'k': k})
    return b.result()


REGISTRY['c02_rotation'] = c02_rotation


# ------------------------------------------------------------------------------------------ C03 / C04
def all_maps(N, rng, count):
    """(gs, ps) valid maps: N=1 all 24; else `count` random ones with random Hermitian signs"""
    out = []
    if N == 1:
        for gm in O.symplectic_maps(1):
            for s in itertools.product([0, 2], repeat=2):
                out.append((gm.copy(), np.array(s, dtype=np.int64)))
        return out
    for gm in O.symplectic_maps(N, rng, count):
        out.append((gm, 2 * gens.bits(rng, 2 * N)))
    return out


def CM(gm, pm):
    return ps_.CliffordMap(gm.copy(), pm.copy())


def c03_transform(run, Nmax=2, count=40):
    rng = np.random.default_rng(run.seed)
    b = B('N=1: all 24 maps x all operators; N<=%d: %d random valid maps x all/sampled operators; embeddings n<N<=%d' % (Nmax, count, Nmax + 1))
    for N in range(1, Nmax + 1):
        S = O.all_strings(N)
        for gm, pm in all_maps(N, rng, count):
            m = CM(gm, pm)
            img = {}
            for pp in range(4):
                lst_ = PL(np.array(S), np.full(len(S), pp))
                ok, _ = guard(b, 'transform_by', lambda: lst_.transform_by(m))
                if not ok:
                    break
                for j, s in enumerate(S):
                    b.case(nontrivial=bool(s.any()), sample={'map': lst(gm), 'signs': lst(pm), 'P': lst(s), 'p': pp})
                    want = O.apply_map_dense(gm, pm, s, pp)
                    got = O.dense(lst_.gs[j], lst_.ps[j])
                    if not O.eq(got, want):
                        b.fail('transform_by', 'image differs from the homomorphic extension of the listed images',
                               {'map': lst(gm), 'signs': lst(pm), 'P': lst(s), 'p': pp})
                    if pp == 0:
                        img[tuple(s)] = got
            # homomorphism: image(PQ) = image(P) image(Q)  (this is what makes it a conjugation by one unitary)
            for s1 in S:
                for s2 in S[:: max(1, len(S) // 6)]:
                    q = P(s1) @ P(s2)
                    qi = P(q.g.copy(), q.p).transform_by(m)
                    b.case()
                    if not O.eq(O.dense(qi.g, qi.p), img[tuple(s1)] @ img[tuple(s2)]):
                        b.fail('homomorphism', 'image(PQ) != image(P) image(Q)', {'map': lst(gm), 'signs': lst(pm), 'P': lst(s1), 'Q': lst(s2)})
            # coefficients untouched
            poly = pa.PauliPolynomial(np.array(S[:3]), np.array([0, 1, 2][:len(S[:3])])).set_cs(np.array([0.5, 2j, -1][:len(S[:3])], dtype=complex))
            cs0 = poly.cs.copy()
            poly.transform_by(m)
            if not (poly.cs == cs0).all():
                b.fail('poly_cs', 'transform_by changed polynomial coefficients', {'map': lst(gm)})
    # mask = embedding
    for N in range(2, Nmax + 2):
        S = O.all_strings(N)
        for n in range(1, N):
            for msk in masks(N, n):
                for gm, pm in all_maps(n, rng, 6)[:: 5 if n == 1 else 1]:
                    small = CM(gm, pm)
                    big = ps_.identity_map(N).embed(small, msk)
                    sel = [S[i] for i in rng.choice(len(S), size=min(len(S), 10), replace=False)]
                    l1 = PL(np.array(sel), rng.integers(0, 4, len(sel)))
                    l2 = PL(l1.gs.copy(), l1.ps.copy())
                    ok, _ = guard(b, 'transform_mask', lambda: l1.transform_by(small, msk))
                    l2.transform_by(big)
                    b.case(sample={'mask': lst(msk), 'map': lst(gm)})
                    if ok and not ((l1.gs == l2.gs).all() and (l1.ps == l2.ps).all()):
                        b.fail('transform_mask', 'masked transform_by differs from the embedded map', {'mask': lst(msk), 'map': lst(gm), 'signs': lst(pm)})
                    # embedded map acts as identity outside the mask
                    for k in range(N):
                        if not msk[k]:
                            e = np.zeros(2 * N, dtype=np.int64)
                            e[2 * k] = 1
                            if not ((big.gs[2 * k] == e).all() and big.ps[2 * k] == 0):
                                b.fail('embed', 'embed touched a wire outside the mask', {'mask': lst(msk)})
    # rotation map acts as the rotation
    for _ in range(40):
        N = int(rng.integers(1, Nmax + 1))
        g, pg = gens.bits(rng, 2 * N), int(2 * rng.integers(0, 2))
        L = 5
        l1 = PL(gens.bits(rng, L, 2 * N), rng.integers(0, 4, L))
        l2 = PL(l1.gs.copy(), l1.ps.copy())
        l1.transform_by(ps_.clifford_rotation_map(P(g, pg)))
        l2.rotate_by(P(g, pg))
        b.case()
        if not ((l1.gs == l2.gs).all() and (l1.ps == l2.ps).all()):
            b.fail('rotation_map_vs_rotate', 'transform_by(clifford_rotation_map(G)) != rotate_by(G)', {'G': lst(g), 'pG': pg})
    return b.result()


REGISTRY['c03_transform'] = c03_transform


def map_eq(a, b_):
    return (a.gs == b_.gs).all() and (a.ps % 4 == b_.ps % 4).all()


def c04_group(run, Nmax=2, count=25, big=60):
    rng = np.random.default_rng(run.seed)
    b = B('N=1: all 24^2 pairs, all inverses, sampled triples; N<=%d: %d random valid maps, pairs and triples; %d sparse maps (qubit relabelings + embedded 1-2 qubit maps) on N = 5..12: inverse exists, is two-sided, operand untouched' % (Nmax, count, big))
    for N in range(1, Nmax + 1):
        maps = [CM(g, p) for g, p in all_maps(N, rng, count)]
        ident = ps_.identity_map(N)
        S = O.all_strings(N)
        probe = PL(np.array(S), np.arange(len(S)) % 4)
        for a in maps:
            a0 = (a.gs.copy(), a.ps.copy())
            ok, inv = guard(b, 'inverse', lambda: a.inverse())
            b.case()
            if ok:
                if not (map_eq(a.compose(inv), ident) and map_eq(inv.compose(a), ident)):
                    b.fail('inverse', 'a.compose(a.inverse()) or a.inverse().compose(a) is not the identity', {'gs': lst(a.gs), 'ps': lst(a.ps)})
                if inv.gs is a.gs or np.shares_memory(inv.gs, a.gs):
                    b.fail('inverse_fresh', 'inverse shares memory with its operand', {})
            # inversion returns a NEW map every time, and stays correct after the receiver was changed in place
            if ok:
                inv2 = a.inverse()
                if inv2 is inv or np.shares_memory(inv2.gs, inv.gs) or np.shares_memory(inv2.ps, inv.ps):
                    b.fail('inverse_fresh', 'two calls of inverse() return the same object / shared arrays', {'gs': lst(a.gs)})
                inv.gs[0, 0] ^= 1          # the caller owns the returned map: changing it must not affect later answers
                inv3 = a.inverse()
                if not map_eq(a.compose(inv3), ident):
                    b.fail('inverse_after_mutating_result', 'inverse() is wrong after the previously returned inverse was modified', {'gs': lst(a.gs), 'ps': lst(a.ps)})
                a2 = CM(a.gs, a.ps)
                a2.inverse()
                g_ = gens.bits(rng, 2 * N)
                a2.rotate_by(P(g_, 0))
                if not (map_eq(a2.compose(a2.inverse()), ident) and map_eq(a2.inverse().compose(a2), ident)):
                    b.fail('inverse_after_inplace_update', 'inverse() is stale after the map was rotated in place', {'gs': lst(a.gs), 'ps': lst(a.ps), 'G': lst(g_)})
            if not (map_eq(a.compose(ident), a) and map_eq(ident.compose(a), a)):
                b.fail('identity', 'identity map is not neutral', {'gs': lst(a.gs), 'ps': lst(a.ps)})
            if not ((a.gs == a0[0]).all() and (a.ps == a0[1]).all()):
                b.fail('operand_changed', 'compose/inverse changed their operand', {})
        pairs = [(x, y) for x in maps for y in maps] if N == 1 else [(maps[i], maps[j]) for i, j in rng.integers(0, len(maps), (60, 2))]
        for a, c in pairs:
            b.case(sample={'a': lst(a.gs), 'c': lst(c.gs)})
            ac = a.compose(c)
            # acts as "first a then c"
            l1 = PL(probe.gs.copy(), probe.ps.copy()).transform_by(a).transform_by(c)
            l2 = PL(probe.gs.copy(), probe.ps.copy()).transform_by(ac)
            if not ((l1.gs == l2.gs).all() and (l1.ps == l2.ps).all()):
                b.fail('compose_action', 'compose does not act as first-self-then-other', {'a': [lst(a.gs), lst(a.ps)], 'c': [lst(c.gs), lst(c.ps)]})
            try:
                if not map_eq(ac.inverse(), c.inverse().compose(a.inverse())):
                    b.fail('inverse_of_compose', '(ac)^-1 != c^-1 a^-1', {'a': [lst(a.gs), lst(a.ps)], 'c': [lst(c.gs), lst(c.ps)]})
            except Exception as e:
                b.fail('inverse.raises', repr(e), {})
        for i, j, k in rng.integers(0, len(maps), (80, 3)):
            a, c, d = maps[i], maps[j], maps[k]
            b.case()
            if not map_eq(a.compose(c).compose(d), a.compose(c.compose(d))):
                b.fail('associativity', 'compose is not associative', {})
    # z2inv raises on singular input, inverts otherwise (all 2x2, 3x3 matrices; sampled 4x4)
    for n in (1, 2, 3):
        for bitsm in itertools.product([0, 1], repeat=n * n):
            m = np.array(bitsm, dtype=np.int64).reshape(n, n)
            b.case()
            det_ok = int(round(np.linalg.det(m))) % 2 == 1
            try:
                inv = pu.z2inv(m.copy())
                if not det_ok or not ((inv @ m) % 2 == np.eye(n, dtype=int)).all():
                    b.fail('z2inv', 'z2inv wrong or accepted a singular matrix', {'m': lst(m)})
            except ValueError:
                if det_ok:
                    b.fail('z2inv', 'z2inv rejected an invertible matrix', {'m': lst(m)})
    # larger registers, SPARSE maps (qubit relabelings and small random maps embedded on far-apart qubits): invertible by construction, so
    # inverse() must not raise, must be two-sided and must not touch its operand; z2inv on large sparse invertible matrices likewise
    for _ in range(big):
        N = int(rng.integers(5, 13))
        perm = rng.permutation(N)
        gs = np.zeros((2 * N, 2 * N), dtype=np.int64)
        for q in range(N):
            gs[2 * q, 2 * perm[q]] = 1
            gs[2 * q + 1, 2 * perm[q] + 1] = 1
        m = CM(gs, 2 * gens.bits(rng, 2 * N))
        for _e in range(int(rng.integers(0, 3))):
            n_small = int(rng.integers(1, 3))
            gm, pm = all_maps(n_small, rng, 1)[int(rng.integers(0, 24)) if n_small == 1 else 0]
            qs = sorted(rng.choice(N, size=n_small, replace=False).tolist())
            m = m.compose(ps_.identity_map(N).embed(CM(gm, pm), pu.mask(qs, N)))
        inp = {'N': N, 'gs': lst(m.gs), 'ps': lst(m.ps)}
        b.case(sample={'N': N, 'kind': 'sparse map'})
        m0 = (m.gs.copy(), m.ps.copy())
        ok, inv = guard(b, 'inverse(sparse)', lambda: m.inverse(), inp)
        if not ok:
            continue
        ident = ps_.identity_map(N)
        if not (map_eq(m.compose(inv), ident) and map_eq(inv.compose(m), ident)):
            b.fail('inverse_sparse', 'inverse of a sparse map on %d qubits is not a two-sided inverse' % N, inp)
        if not ((m.gs == m0[0]).all() and (m.ps == m0[1]).all()):
            b.fail('operand_changed', 'inverse changed its operand', inp)
    return b.result()


REGISTRY['c04_group'] = c04_group


# ------------------------------------------------------------------------------------------ C05 / C06 / C07
def mk_state(gs, ps, r):
    st = ps_.StabilizerState(np.array(gs, dtype=np.int64).copy(), ps=np.array(ps, dtype=np.int64).copy())
    st.r = int(r)
    return st


def tableaux(N, rng, count):
    """N=1: all tableaux (6 symplectic x 4 sign patterns); else `count` random ones"""
    if N == 1:
        out = []
        for gm in O.symplectic_maps(1):
            for s in itertools.product([0, 2], repeat=2):
                out.append((np.stack([gm[1], gm[0]]), np.array([s[1], s[0]], dtype=np.int64)))
        return out
    return [gens.rand_tableau(rng, N) for _ in range(count)]


def state_json(st):
    return {'gs': lst(st.gs), 'ps': lst(st.ps), 'r': int(st.r)}


def commuting_obs(rng, N, L):
    """L mutually commuting signed Hermitian Pauli strings"""
    out = []
    tries = 0
    while len(out) < L and tries < 200:
        tries += 1
        g = gens.bits(rng, 2 * N)
        if all(O.eq(O.dense(g) @ O.dense(h), O.dense(h) @ O.dense(g)) for h, _ in out):
            out.append((g, int(2 * rng.integers(0, 2))))
    return out


def c06_measure(run, Nmax=2, count=60, reps=3):
    rng = np.random.default_rng(run.seed)
    b = B('N=1: all tableaux x all ranks x all signed observables; N<=%d: %d random tableaux x all ranks x lists of 1..2 commuting observables, %d RNG draws each' % (Nmax, count, reps))
    for N in range(1, Nmax + 1):
        for gs, ps in tableaux(N, rng, count):
            for r in range(N + 1):
                obs_sets = []
                if N == 1:
                    obs_sets = [[(g, p)] for g in O.all_strings(1) for p in (0, 2)]
                else:
                    obs_sets = [commuting_obs(rng, N, int(rng.integers(1, 3))) for _ in range(4)]
                    obs_sets += [[(g, 0)] for g in (gs[rng.integers(0, 2 * N)], )]
                for obs in obs_sets:
                    for rep in range(reps):
                        st = mk_state(gs, ps, r)
                        R0 = O.rho(st)
                        ol = PL(np.array([g for g, _ in obs]), np.array([p for _, p in obs]))
                        ok, res = guard(b, 'measure', lambda: st.measure(ol), {'state': state_json(mk_state(gs, ps, r)), 'obs': [(lst(g), p) for g, p in obs]})
                        b.case(nontrivial=True, sample={'state': state_json(mk_state(gs, ps, r)), 'obs': [(lst(g), p) for g, p in obs]})
                        if not ok:
                            continue
                        out, log2prob = res
                        inp = {'state': state_json(mk_state(gs, ps, r)), 'obs': [(lst(g), p) for g, p in obs], 'out': lst(out)}
                        okT, why = O.tableau_ok(st.gs, st.ps, st.r)
                        if not okT:
                            b.fail('measure_invariant', 'tableau invariant broken after measure: ' + why, inp)
                            continue
                        R = R0
                        prob = 1.0
                        for (g, p), o in zip(obs, out):
                            Pi = (np.eye(2 ** N) + (-1) ** int(o) * O.dense(g, p)) / 2
                            Rn = Pi @ R @ Pi
                            pk = np.trace(Rn).real
                            if pk < 1e-12:
                                prob = 0.0
                                break
                            prob *= pk
                            R = Rn / pk
                        if prob == 0.0:
                            b.fail('measure_impossible', 'measure returned an outcome of probability zero', inp)
                            continue
                        if abs(2.0 ** log2prob - prob) > 1e-9:
                            b.fail('measure_log2prob', 'log2prob %r but the joint Born probability is %r' % (log2prob, prob), inp)
                        if not O.eq(O.rho(st), R):
                            b.fail('measure_projection', 'post-measurement state is not the normalised projection', inp)
                            continue
                        out2, lp2 = st.measure(ol)
                        if not ((out2 == out).all() and lp2 == 0):
                            b.fail('measure_repeat', 'repeating the measurement changed the outcome or log2prob != 0', inp)
    return b.result()


REGISTRY['c06_measure'] = c06_measure


def c07_expect(run, Nmax=2, count=60):
    rng = np.random.default_rng(run.seed)
    b = B('N=1: all tableaux, ranks, signed strings; N<=%d: %d random tableaux x all ranks x all signed strings; polynomials, state overlaps, all 2^N bit strings' % (Nmax, count))
    for N in range(1, Nmax + 1):
        S = O.all_strings(N)
        for gs, ps in tableaux(N, rng, count):
            for r in range(N + 1):
                st = mk_state(gs, ps, r)
                snap = (st.gs.copy(), st.ps.copy(), st.r)
                R = O.rho(st)
                for pp in (0, 2):
                    ol = PL(np.array(S), np.full(len(S), pp))
                    ok, xs = guard(b, 'expect_list', lambda: st.expect(ol), state_json(st))
                    if not ok:
                        continue
                    for j, s in enumerate(S):
                        b.case(sample={'state': state_json(st), 'P': lst(s), 'p': pp})
                        want = np.trace(R @ O.dense(s, pp))
                        if abs(xs[j] - want) > 1e-9:
                            b.fail('expect_list', 'expect gives %r, Tr(rho P) = %r' % (xs[j], want), {'state': state_json(st), 'P': lst(s), 'p': pp})
                # polynomial with phases and complex coefficients
                L = 3
                poly = pa.PauliPolynomial(gens.bits(rng, L, 2 * N), rng.integers(0, 4, L)).set_cs(rng.normal(size=L) + 1j * rng.normal(size=L))
                ok, val = guard(b, 'expect_poly', lambda: st.expect(poly), state_json(st))
                b.case()
                if ok and abs(val - np.trace(R @ poly_dense(poly))) > 1e-9:
                    b.fail('expect_poly', 'expect(polynomial) = %r, Tr(rho O) = %r' % (val, np.trace(R @ poly_dense(poly))),
                           {'state': state_json(st), 'poly': poly_json(poly)})
                for pp in range(4):
                    q = P(S[int(rng.integers(0, len(S)))], pp)
                    ok, val = guard(b, 'expect_pauli', lambda: st.expect(q), state_json(st))
                    b.case()
                    if ok and abs(val - np.trace(R @ O.dense(q.g, q.p))) > 1e-9:
                        b.fail('expect_pauli', 'expect(Pauli with phase %d) = %r, Tr = %r' % (pp, val, np.trace(R @ O.dense(q.g, q.p))),
                               {'state': state_json(st), 'P': lst(q.g), 'p': pp})
                if not ((st.gs == snap[0]).all() and (st.ps == snap[1]).all() and st.r == snap[2]):
                    b.fail('expect_side_effect', 'expect changed the state', state_json(st))
                # overlaps and bit strings (pure receiver)
                if r == 0:
                    for _ in range(2):
                        g2, p2 = tableaux(N, rng, 1)[0] if N > 1 else tableaux(1, rng, 0)[int(rng.integers(0, 24))]
                        r2 = int(rng.integers(0, N + 1))
                        other = mk_state(g2, p2, r2)
                        ok, val = guard(b, 'expect_state', lambda: st.expect(other), state_json(st))
                        b.case()
                        want = np.trace(R @ O.rho(other)).real
                        if ok and abs(val - want) > 1e-9:
                            b.fail('expect_state', 'overlap %r, Tr(rho sigma) = %r' % (val, want), {'rho': state_json(st), 'sigma': state_json(other)})
                    tot = 0.0
                    good = True
                    for bits_ in itertools.product([0, 1], repeat=N):
                        ok, pr = guard(b, 'get_prob', lambda: st.get_prob(np.array(bits_)), state_json(st))
                        b.case()
                        if not ok:
                            good = False
                            break
                        idx = int(''.join(map(str, bits_)), 2)
                        if abs(pr - R[idx, idx].real) > 1e-9:
                            b.fail('get_prob', 'get_prob(%s) = %r, <b|rho|b> = %r' % (bits_, pr, R[idx, idx].real), {'state': state_json(st), 'b': list(bits_)})
                        tot += pr
                    if good and abs(tot - 1) > 1e-9:
                        b.fail('get_prob_sum', 'bit-string probabilities sum to %r' % tot, state_json(st))
                    if not ((st.gs == snap[0]).all() and (st.ps == snap[1]).all() and st.r == snap[2]):
                        b.fail('expect_side_effect', 'expect(state)/get_prob changed the state', state_json(st))
    return b.result()


REGISTRY['c07_expect'] = c07_expect


# ------------------------------------------------------------------------------------------ C08
def c08_entropy(run, Nmax=3, count=40):
    rng = np.random.default_rng(run.seed)
    b = B('N<=%d: all tableaux (N=1) / %d random tableaux x all ranks x all 2^N regions (index list and boolean mask)' % (Nmax, count))
    for N in range(1, Nmax + 1):
        for gs, ps in tableaux(N, rng, count):
            for r in range(N + 1):
                st = mk_state(gs, ps, r)
                R = O.rho(st)
                for region in itertools.chain.from_iterable(itertools.combinations(range(N), n) for n in range(N + 1)):
                    want = O.vn_entropy(O.ptrace(R, list(region), N)) if region else 0.0
                    forms = [('list', list(region))]
                    if region:
                        m = np.zeros(N, dtype=bool)
                        m[list(region)] = True
                        forms.append(('mask', m))
                    for fname, arg in forms:
                        b.case(nontrivial=0 < len(region) < N, sample={'state': state_json(st), 'region': list(region), 'form': fname})
                        ok, val = guard(b, 'entropy_' + fname, lambda: st.entropy(arg), {'state': state_json(st), 'region': list(region)})
                        if ok and abs(float(val) - want) > 1e-6:
                            b.fail('entropy_' + ('pure' if r == 0 else 'mixed'), 'entropy(%s) = %r, von Neumann entropy = %r' % (list(region), val, want),
                                   {'state': state_json(st), 'region': list(region), 'form': fname})
                # independence of the generating set: multiply one active stabilizer into another
                if N - r >= 2:
                    st2 = mk_state(gs, ps, r)
                    a, c = r, r + 1
                    st2.ps[a] = (st2.ps[a] + st2.ps[c] + pu.ipow(st2.gs[a], st2.gs[c])) % 4
                    st2.gs[a] = (st2.gs[a] + st2.gs[c]) % 2
                    for region in itertools.combinations(range(N), max(1, N // 2)):
                        b.case()
                        try:
                            if st2.entropy(list(region)) != st.entropy(list(region)):
                                b.fail('entropy_generators', 'entropy depends on the choice of generators', {'state': state_json(st), 'region': list(region)})
                        except Exception as e:
                            b.fail('entropy_generators.raises', repr(e), {})
    return b.result()


REGISTRY['c08_entropy'] = c08_entropy


# ------------------------------------------------------------------------------------------ C05: histories
def c05_histories(run, Nmax=3, walks=60, steps=12):
    rng = np.random.default_rng(run.seed)
    b = B('%d random histories of %d public state-changing operations from every constructor, N<=%d, invariant and dense validity checked after every call' % (walks, steps, Nmax))
    ctors = ['zero', 'one', 'mixed', 'ghz', 'rbit', 'rpauli', 'rclifford', 'stab', 'map']
    for w in range(walks):
        N = int(rng.integers(1, Nmax + 1))
        c = ctors[w % len(ctors)]
        hist = [c]
        try:
            if c == 'zero':
                st = pc.zero_state(N)
            elif c == 'one':
                st = ps_.one_state(N)
            elif c == 'mixed':
                st = pc.maximally_mixed_state(N)
            elif c == 'ghz':
                st = pc.ghz_state(max(N, 2)); N = st.N
            elif c == 'rbit':
                st = ps_.random_bit_state(N)
            elif c == 'rpauli':
                st = pc.random_pauli_state(N, int(rng.integers(0, N + 1)))
            elif c == 'rclifford':
                st = pc.random_clifford_state(N, int(rng.integers(0, N + 1)))
            elif c == 'stab':
                k = int(rng.integers(1, N + 1))
                obs = commuting_obs(rng, N, k)
                gsx = np.array([g for g, _ in obs]); psx = np.array([p for _, p in obs])
                if len(obs) < k or gf2_rank(gsx) < len(obs):      # independent over GF(2), as the property requires
                    continue
                st = pc.stabilizer_state(PL(gsx, psx))
            else:
                st = pc.random_clifford_map(N).to_state(int(rng.integers(0, N + 1)))
        except Exception as e:
            b.fail('ctor_%s.raises' % c, repr(e)[:200], {'N': N})
            continue
        for s in range(steps + 1):
            b.case(sample={'history': list(hist)})
            okT, why = O.tableau_ok(st.gs, st.ps, st.r)
            if okT:
                okD, whyD = O.is_density_matrix(O.rho(st), st.r)
                if not okD:
                    okT, why = False, whyD
            if not okT:
                b.fail('invariant_after_' + hist[-1].split('(')[0], 'state invalid: ' + why, {'history': hist, 'state': state_json(st)})
                break
            if s == steps:
                break
            op = int(rng.integers(0, 7))
            try:
                if op == 0:
                    g = gens.bits(rng, 2 * N); st.rotate_by(P(g, int(2 * rng.integers(0, 2)))); hist.append('rotate_by')
                elif op == 1:
                    st.transform_by(pc.random_clifford_map(N)); hist.append('transform_by')
                elif op == 2:
                    obs = commuting_obs(rng, N, int(rng.integers(1, 3)))
                    st.measure(PL(np.array([g for g, _ in obs]), np.array([p for _, p in obs]))); hist.append('measure(%s)' % [(lst(g), p) for g, p in obs])
                elif op == 3:
                    st = st.copy(); hist.append('copy')
                elif op == 4:
                    if st.r == 0:
                        g = gens.bits(rng, 2 * N)
                        st.postselect(P(g, 0), int(rng.integers(0, 2))); hist.append('postselect(%s)' % lst(g))
                elif op == 5:
                    q = tuple(sorted(rng.choice(N, size=int(rng.integers(1, N + 1)), replace=False).tolist()))
                    gate = pcirc.CliffordGate(*q); gate.set_forward_map(pc.random_clifford_map(len(q)))
                    gate.forward(st); hist.append('gate%s' % (q,))
                else:
                    q = tuple(sorted(rng.choice(N, size=int(rng.integers(1, N + 1)), replace=False).tolist()))
                    pcirc.MeasureLayer(*q, N=N).forward(st); hist.append('MeasureLayer%s' % (q,))
            except Exception as e:
                b.fail('history_op.raises', '%s after %s' % (repr(e)[:200], hist), {'history': hist})
                break
    return b.result()


REGISTRY['c05_histories'] = c05_histories


# ------------------------------------------------------------------------------------------ C09 / C10 / C11
def gf2_rank(m):
    m = (np.array(m, dtype=np.int64) % 2).copy()
    r = 0
    rows, cols = m.shape
    for c in range(cols):
        piv = None
        for i in range(r, rows):
            if m[i, c]:
                piv = i
                break
        if piv is None:
            continue
        m[[r, piv]] = m[[piv, r]]
        for i in range(rows):
            if i != r and m[i, c]:
                m[i] = (m[i] + m[r]) % 2
        r += 1
        if r == rows:
            break
    return r


def random_gate(rng, N):
    """a deterministic gate on an ascending qubit tuple: generator gate, map gate, backward-map gate or named gate"""
    kind = int(rng.integers(0, 5))
    if kind == 0:
        g = gens.bits(rng, 2 * N)
        while not g.any():
            g = gens.bits(rng, 2 * N)
        return pcirc.clifford_rotation_gate(P(g, int(2 * rng.integers(0, 2)))), 'rot(%s)' % lst(g)
    n = int(rng.integers(1, min(N, 3) + 1))
    q = tuple(sorted(rng.choice(N, size=n, replace=False).tolist()))
    if kind == 1:
        gate = pcirc.CliffordGate(*q)
        gm, pm = all_maps(n, rng, 1)[int(rng.integers(0, 24)) if n == 1 else 0]
        gate.set_forward_map(CM(gm, pm))
        return gate, 'fmap%s' % (q,)
    if kind == 2:
        gate = pcirc.CliffordGate(*q)
        gm, pm = all_maps(n, rng, 1)[int(rng.integers(0, 24)) if n == 1 else 0]
        gate.set_backward_map(CM(gm, pm))
        return gate, 'bmap%s' % (q,)
    if kind == 3:
        name = ['H', 'S', 'X', 'Y', 'Z'][int(rng.integers(0, 5))]
        return getattr(pcirc, name)(q[0]), '%s(%d)' % (name, q[0])
    if N >= 2 and rng.integers(0, 2):
        c, t = rng.choice(N, size=2, replace=False).tolist()
        return pcirc.CNOT(c, t), 'CNOT(%d,%d)' % (c, t)
    k = int(rng.integers(0, 24))
    return pcirc.C(k, q[0]), 'C(%d,%d)' % (k, q[0])


def probe_objects(rng, N):
    S = O.all_strings(N) if N <= 2 else [gens.bits(rng, 2 * N) for _ in range(20)]
    lst_ = PL(np.array(S), rng.integers(0, 4, len(S)))
    gs, ps = gens.rand_tableau(rng, N)
    st = mk_state(gs, ps, int(rng.integers(0, N + 1)))
    return lst_, st


def same_list(a, c):
    return (np.asarray(a.gs) == np.asarray(c.gs)).all() and (np.asarray(a.ps) % 4 == np.asarray(c.ps) % 4).all()


def same_state(a, c):
    return same_list(a, c) and int(a.r) == int(c.r)


def clone(o):
    if isinstance(o, ps_.StabilizerState):
        return mk_state(o.gs, o.ps, o.r)
    return PL(o.gs.copy(), o.ps.copy())


def stab_group_eq(a, c):
    """same stabilizer group with signs, without dense matrices (usable for N > 3): every active generator of one
    state has expectation +1 in the other, and the ranks agree"""
    if a.N != c.N or a.r != c.r:
        return False
    if a.r == a.N:
        return True
    xs = c.expect(PL(a.gs[a.r:a.N].copy(), a.ps[a.r:a.N].copy()))
    ys = a.expect(PL(c.gs[c.r:c.N].copy(), c.ps[c.r:c.N].copy()))
    return bool((np.asarray(xs) == 1).all() and (np.asarray(ys) == 1).all())


def c09_independence(b, Nmax=5):
    """layer packing rests on independent_from: exhaustive over all pairs of ascending qubit tuples, N <= Nmax"""
    tuples = [q for n in range(1, Nmax + 1) for q in itertools.combinations(range(Nmax), n)]
    for q1 in tuples:
        g1 = pcirc.CliffordGate(*q1)
        for q2 in tuples:
            g2 = pcirc.CliffordGate(*q2)
            b.case()
            want = not (set(q1) & set(q2))
            if bool(g1.independent_from(g2)) != want:
                b.fail('independent_from', 'gate on %s independent_from gate on %s = %s' % (q1, q2, g1.independent_from(g2)), {'q1': list(q1), 'q2': list(q2)})
            lay = pcirc.CliffordLayer(pcirc.CliffordGate(*q1), pcirc.CliffordGate(*[x for x in range(Nmax) if x not in q1][:1])) if len(q1) < Nmax else pcirc.CliffordLayer(g1)
            members = [set(g.qubits) for g in lay.gates]
            if bool(lay.independent_from(g2)) != (not any(m & set(q2) for m in members)):
                b.fail('layer_independent_from', 'layer %r independent_from gate on %s wrong' % (lay, q2), {'q1': list(q1), 'q2': list(q2)})


def schedule_of(circ):
    """[(layer index, gate object)] in layer order"""
    out = []
    for li, layer in enumerate(circ.layers_forward()):
        for g in getattr(layer, 'gates', []):
            out.append((li, g))
    return out


def c09_packing(b, rng, N, maxlen, sample=None):
    """layer packing, exhaustively over SUPPORT programs: every sequence of <= maxlen gates on non-empty ascending qubit
    tuples of an N-qubit register is taken by a CliffordCircuit and a Circuit; the resulting layer structure is scanned for a
    schedule defect (gate lost / duplicated, two overlapping gates in one layer, two overlapping gates executed in the wrong
    order).  A structural defect is only a candidate: it is reported when gate contents (random Clifford maps on those
    supports) make circuit.forward differ from gate-by-gate application."""
    supports = [q for n in range(1, N + 1) for q in itertools.combinations(range(N), n)]
    progs = itertools.chain.from_iterable(itertools.product(supports, repeat=L) for L in range(2, maxlen + 1))
    if sample is not None:
        progs = [tuple(supports[int(k)] for k in rng.integers(0, len(supports), int(rng.integers(2, maxlen + 1)))) for _ in range(sample)]
    for prog in progs:
        for cls in ('CliffordCircuit', 'Circuit'):
            b.case()
            circ = pcirc.CliffordCircuit(N) if cls == 'CliffordCircuit' else pcirc.Circuit(N)
            gates = [pcirc.CliffordGate(*q) for q in prog]
            try:
                for g in gates:
                    circ.take(g)
                sched = schedule_of(circ)
            except Exception as e:
                b.fail('packing.raises', repr(e)[:200], {'supports': [list(q) for q in prog], 'N': N, 'cls': cls})
                continue
            pos = {id(g): li for li, g in sched}
            order = {id(g): k for k, (li, g) in enumerate(sched)}
            bad = None
            if sorted(pos) != sorted(id(g) for g in gates) or len(sched) != len(gates):
                bad = 'gate lost or duplicated'
            else:
                for i in range(len(gates)):
                    for j in range(i + 1, len(gates)):
                        if set(prog[i]) & set(prog[j]) and not pos[id(gates[i])] < pos[id(gates[j])]:
                            bad = 'overlapping gates #%d %s and #%d %s are not executed in the order added' % (i, prog[i], j, prog[j])
            if bad is None and cls == 'CliffordCircuit' and sample is None and len(prog) >= 3:
                # the same scan on a COPY that then takes one more gate (every possible support), and the consistency of the two
                # directions of the layer chain (backward runs through prev_layer, forward through next_layer)
                for extra in supports:
                    try:
                        cp = circ.copy()
                        fwd = list(cp.layers_forward())
                        bwd = list(cp.layers_backward())
                        if [id(x) for x in reversed(bwd)] != [id(x) for x in fwd]:
                            bad = 'the copy of the circuit is traversed backward through different layers than forward (%d vs %d)' % (len(bwd), len(fwd))
                            break
                        ge = pcirc.CliffordGate(*extra)
                        cp.take(ge)
                        sch = schedule_of(cp)
                        if len(sch) != len(gates) + 1:
                            bad = 'copy-then-take loses or duplicates a gate'
                            break
                        pos_c = [li for li, g_ in sch]
                        sup_c = [tuple(g_.qubits) for li, g_ in sch]
                        le = [li for li, g_ in sch if g_ is ge][0]
                        for (li, g_) in sch:
                            if g_ is not ge and set(g_.qubits) & set(extra) and not li < le:
                                bad = 'a gate on %s taken by a COPY of the circuit is scheduled before / beside the overlapping gate on %s' % (extra, tuple(g_.qubits))
                        if bad:
                            prog_bad = prog + (extra,)
                            break
                    except Exception as e:
                        b.fail('packing_copy.raises', repr(e)[:200], {'supports': [list(q) for q in prog], 'N': N})
                        break
                if bad is not None:
                    # confirm on the action: original gates + the extra gate with random contents, through a copy
                    for attempt in range(6):
                        conts = []
                        c0 = pcirc.CliffordCircuit(N)
                        for q in prog:
                            gm, pm = all_maps(len(q), rng, 1)[int(rng.integers(0, 24)) if len(q) == 1 else 0]
                            conts.append((q, gm, pm))
                            g_ = pcirc.CliffordGate(*q); g_.set_forward_map(CM(gm.copy(), pm.copy())); c0.take(g_)
                        cp = c0.copy()
                        gm, pm = all_maps(len(extra), rng, 1)[int(rng.integers(0, 24)) if len(extra) == 1 else 0]
                        conts.append((extra, gm, pm))
                        g_ = pcirc.CliffordGate(*extra); g_.set_forward_map(CM(gm.copy(), pm.copy())); cp.take(g_)
                        S = O.all_strings(N)
                        l1 = PL(np.array(S), np.zeros(len(S), dtype=np.int64)); l2 = PL(np.array(S), np.zeros(len(S), dtype=np.int64))
                        l3 = PL(np.array(S), np.zeros(len(S), dtype=np.int64))
                        cp.forward(l1)
                        for q, gm_, pm_ in conts:
                            g_ = pcirc.CliffordGate(*q); g_.set_forward_map(CM(gm_.copy(), pm_.copy())); g_.forward(l2)
                        cp.forward(l3); cp.backward(l3)
                        if not same_list(l1, l2) or not same_list(l3, PL(np.array(S), np.zeros(len(S), dtype=np.int64))):
                            b.fail('packing_copy', 'copy of a circuit: %s; forward / backward of the (extended) copy differ from gate-by-gate application' % bad,
                                   {'supports': [list(q) for q in prog], 'extra': list(extra), 'N': N})
                            break
                    continue
            if bad is None:
                continue
            # candidate: confirm on the action with random gate contents
            for attempt in range(6):
                circ2 = pcirc.CliffordCircuit(N) if cls == 'CliffordCircuit' else pcirc.Circuit(N)
                conts = []
                for q in prog:
                    gm, pm = all_maps(len(q), rng, 1)[int(rng.integers(0, 24)) if len(q) == 1 else 0]
                    conts.append((gm, pm))
                    g = pcirc.CliffordGate(*q)
                    g.set_forward_map(CM(gm.copy(), pm.copy()))
                    circ2.take(g)
                S = O.all_strings(N) if N <= 3 else [gens.bits(rng, 2 * N) for _ in range(40)]
                l1 = PL(np.array(S), np.zeros(len(S), dtype=np.int64))
                l2 = PL(np.array(S), np.zeros(len(S), dtype=np.int64))
                circ2.forward(l1)
                for q, (gm, pm) in zip(prog, conts):
                    g = pcirc.CliffordGate(*q)
                    g.set_forward_map(CM(gm.copy(), pm.copy()))
                    g.forward(l2)
                if not same_list(l1, l2):
                    b.fail('packing_order', '%s.take packs the gates so that %s; forward differs from gate-by-gate application' % (cls, bad),
                           {'supports': [list(q) for q in prog], 'N': N, 'cls': cls, 'maps': [[lst(gm), lst(pm)] for gm, pm in conts]})
                    break


def c09_circuits(run, Nmax=3, programs=60, maxlen=6, pack_len=4, pack_sample=1500):
    rng = np.random.default_rng(run.seed)
    b = B('independent_from exhaustive over all pairs of qubit tuples (N<=5); layer packing: ALL support programs of 2..%d gates on N=3 (plus %d sampled on N=4 and N=5, up to %d gates) x {CliffordCircuit, Circuit}; copy-then-extend histories; %d random gate programs (1-3 qubit gates, every third on 4-5 qubits), length <= %d, N <= %d, x {CliffordCircuit, Circuit} x {uncompiled, layer-compiled, circuit-compiled} x {original, copy, composed halves}; inputs: all strings (N<=2)/20 random strings with phases + one random state' % (pack_len, pack_sample, pack_len + 2, programs, maxlen, Nmax))
    c09_independence(b, 5)
    c09_packing(b, rng, 3, pack_len)                                 # exhaustive over support programs, N = 3
    c09_packing(b, rng, 4, pack_len + 1, sample=pack_sample)         # sampled, N = 4
    c09_packing(b, rng, 5, pack_len + 2, sample=pack_sample)
    for pi in range(programs):
        N = int(rng.integers(1, Nmax + 1)) if pi % 3 else int(rng.integers(4, 6))     # every third program on 4-5 qubits
        L = int(rng.integers(1, maxlen + 1))
        gates = [random_gate(rng, N) for _ in range(L)]
        names = [nm for _, nm in gates]
        lst0, st0 = probe_objects(rng, N)
        # reference: one gate at a time, in the order added
        refl, refs = clone(lst0), clone(st0)
        try:
            for g, _ in gates:
                g.copy().forward(refl)
                g.copy().forward(refs)
        except Exception as e:
            b.fail('gate_forward.raises', repr(e)[:200], {'program': names, 'N': N})
            continue
        for cls in ('CliffordCircuit', 'Circuit'):
            for comp in ('none', 'layers', 'circuit'):
                for shape in ('original', 'copy', 'composed'):
                    if cls == 'Circuit' and shape != 'original':
                        continue          # Circuit has no copy/compose
                    b.case(sample={'program': names, 'N': N, 'cls': cls, 'compiled': comp, 'shape': shape})
                    inp = {'program': names, 'N': N, 'cls': cls, 'compiled': comp, 'shape': shape}
                    try:
                        mk = (lambda: pcirc.CliffordCircuit(N)) if cls == 'CliffordCircuit' else (lambda: pcirc.Circuit(N))
                        if shape == 'composed':
                            c1, c2 = mk(), mk()
                            h = L // 2
                            for g, _ in gates[:h]:
                                c1.take(g.copy())
                            for g, _ in gates[h:]:
                                c2.take(g.copy())
                            circ = c1.compose(c2)
                        else:
                            circ = mk()
                            for g, _ in gates:
                                circ.take(g.copy())
                        if comp == 'layers':
                            for layer in circ.layers_forward():
                                layer.compile(N)
                        elif comp == 'circuit':
                            circ.compile()
                        if shape == 'copy':
                            circ = circ.copy()
                        l1, s1 = clone(lst0), clone(st0)
                        circ.forward(l1)
                        circ.forward(s1)
                    except Exception as e:
                        b.fail('circuit_forward.raises', repr(e)[:200], inp)
                        continue
                    if not same_list(l1, refl):
                        b.fail('circuit_order_%s_%s' % (comp, shape), 'circuit.forward(PauliList) differs from gate-by-gate application', inp)
                    if shape == 'copy' and comp == 'none':
                        # history: extend the copy, then the original (which the copy was taken from) -- each circuit must
                        # still act as the ordered product of the gates added to IT
                        try:
                            orig = mk()
                            for g, _ in gates:
                                orig.take(g.copy())
                            cp = orig.copy()
                            extra, exname = random_gate(rng, N)
                            cp.take(extra.copy())
                            extra2, exname2 = random_gate(rng, N)
                            lo, lc = clone(lst0), clone(lst0)
                            orig.forward(lo)
                            cp.forward(lc)
                            wc = clone(refl)
                            extra.copy().forward(wc)
                            orig.take(extra2.copy())
                            lo2, lc2 = clone(lst0), clone(lst0)
                            orig.forward(lo2)
                            cp.forward(lc2)
                            wo2 = clone(refl)
                            extra2.copy().forward(wo2)
                        except Exception as e:
                            b.fail('circuit_copy_extend.raises', repr(e)[:200], inp)
                            continue
                        inp2 = dict(inp, extra_on_copy=exname, extra_on_original=exname2)
                        if not same_list(lo, refl) or not same_list(lo2, wo2):
                            b.fail('circuit_copy_extend_original', 'after a gate was added to a COPY, the original circuit no longer acts as the product of its own gates', inp2)
                        if not same_list(lc, wc) or not same_list(lc2, wc):
                            b.fail('circuit_copy_extend_copy', 'a copied circuit does not act as (gates of the original at copy time) + (gates added to the copy)', inp2)
                    okT, why = O.tableau_ok(s1.gs, s1.ps, s1.r)
                    if not okT or s1.r != refs.r or not stab_group_eq(s1, refs):
                        b.fail('circuit_state_%s_%s' % (comp, shape), 'circuit.forward(state) differs from gate-by-gate application', inp)
        # locality of every single gate
        for g, nm in gates:
            q = set(int(x) for x in g.qubits)
            for k in range(N):
                if k in q:
                    continue
                for xz in (0, 1):
                    e = np.zeros(2 * N, dtype=np.int64)
                    e[2 * k + xz] = 1
                    o = P(e.copy(), 1)
                    g.copy().forward(o)
                    b.case()
                    if not ((o.g == e).all() and o.p == 1):
                        b.fail('gate_locality', 'gate %s changed an operator on qubit %d' % (nm, k), {'gate': nm, 'N': N})
    return b.result()


REGISTRY['c09_circuits'] = c09_circuits


def c10_inverse(run, Nmax=3, programs=60, maxlen=6):
    rng = np.random.default_rng(run.seed)
    b = B('%d random gate programs (as C09) x {gate, layer, circuit} x {uncompiled, compiled} x both orders, on Pauli lists with all phases and states with rank' % programs)
    for pi in range(programs):
        N = int(rng.integers(1, Nmax + 1))
        L = int(rng.integers(1, maxlen + 1))
        gates = [random_gate(rng, N) for _ in range(L)]
        names = [nm for _, nm in gates]
        lst0, st0 = probe_objects(rng, N)

        def roundtrip(obj, what, ident, inp):
            for order in ('fb', 'bf'):
                for proto in (lst0, st0):
                    o = clone(proto)
                    b.case(sample=inp)
                    try:
                        if order == 'fb':
                            obj.forward(o); obj.backward(o)
                        else:
                            obj.backward(o); obj.forward(o)
                    except Exception as e:
                        b.fail(ident + '.raises', repr(e)[:200], inp)
                        return
                    same = same_state(o, proto) if isinstance(proto, ps_.StabilizerState) else same_list(o, proto)
                    if not same:
                        b.fail(ident, '%s: %s does not restore the %s' % (what, 'backward(forward(x))' if order == 'fb' else 'forward(backward(x))',
                                                                    'state' if isinstance(proto, ps_.StabilizerState) else 'Pauli list'), inp)
                        return
        for g, nm in gates:
            roundtrip(g.copy(), 'gate ' + nm, 'gate_inverse', {'gate': nm, 'N': N})
            try:
                roundtrip(g.copy().compile(), 'compiled gate ' + nm, 'gate_inverse_compiled', {'gate': nm, 'N': N})
            except Exception as e:
                b.fail('gate_compile.raises', repr(e)[:200], {'gate': nm})
        for cls in ('CliffordCircuit', 'Circuit'):
            for comp in ('none', 'layers', 'circuit'):
                inp = {'program': names, 'N': N, 'cls': cls, 'compiled': comp}
                try:
                    circ = pcirc.CliffordCircuit(N) if cls == 'CliffordCircuit' else pcirc.Circuit(N)
                    for g, _ in gates:
                        circ.take(g.copy())
                    if comp == 'layers':
                        for layer in circ.layers_forward():
                            layer.compile(N)
                    elif comp == 'circuit':
                        circ.compile()
                except Exception as e:
                    b.fail('circuit_build.raises', repr(e)[:200], inp)
                    continue
                roundtrip(circ, 'circuit', 'circuit_inverse_%s' % comp, inp)
                for layer in circ.layers_forward():
                    roundtrip(layer, 'layer', 'layer_inverse_%s' % comp, inp)
                # history: a circuit that was compiled (or not) and then extended without recompiling -- whatever action the
                # stale circuit has, its backward must still undo its forward
                try:
                    for _ in range(2):
                        extra, exname = random_gate(rng, N)
                        circ.take(extra.copy())
                        roundtrip(circ, 'circuit extended after compile=%s by %s' % (comp, exname), 'circuit_inverse_%s_extended' % comp, dict(inp, extended_by=exname))
                        for layer in circ.layers_forward():
                            roundtrip(layer, 'layer (after extension)', 'layer_inverse_%s_extended' % comp, dict(inp, extended_by=exname))
                    if cls == 'CliffordCircuit':
                        other = pcirc.CliffordCircuit(N)
                        for g, _ in gates[:2]:
                            other.take(g.copy())
                        circ.compose(other)
                        roundtrip(circ, 'circuit composed after compile=%s' % comp, 'circuit_inverse_%s_composed' % comp, inp)
                except Exception as e:
                    b.fail('circuit_extend.raises', repr(e)[:200], inp)
    return b.result()


REGISTRY['c10_inverse'] = c10_inverse


def c11_named(run, Nmax=3):
    b = B('the complete finite tables (H,S,X,Y,Z, both CNOT orientations, C(0..23)) x all placements in registers N <= %d' % Nmax, exhaustive=True)
    Xs, Zs, Ys = [1, 0], [0, 1], [1, 1]
    # textbook images (from the property statement): gate -> {X: (string, sign), Z: (string, sign)}
    book = {'H': {'X': (Zs, 0), 'Z': (Xs, 0)}, 'S': {'X': (Ys, 0), 'Z': (Zs, 0)},
            'X': {'X': (Xs, 0), 'Z': (Zs, 2)}, 'Y': {'X': (Xs, 2), 'Z': (Zs, 2)}, 'Z': {'X': (Xs, 2), 'Z': (Zs, 0)}}
    for N in range(1, Nmax + 1):
        for q in range(N):
            for name, img in book.items():
                b.case(sample={'gate': name, 'qubit': q, 'N': N})
                gate = getattr(pcirc, name)(q)
                for k in range(N):
                    for xz, lab in ((0, 'X'), (1, 'Z')):
                        e = np.zeros(2 * N, dtype=np.int64)
                        e[2 * k + xz] = 1
                        o = P(e.copy(), 0)
                        gate.forward(o)
                        want = e.copy()
                        wp = 0
                        if k == q:
                            want[2 * k:2 * k + 2] = img[lab][0]
                            wp = img[lab][1]
                        if not ((o.g == want).all() and o.p % 4 == wp):
                            b.fail('named_' + name, '%s(%d) maps %s_%d to (%s,%d), textbook (%s,%d)' % (name, q, lab, k, lst(o.g), o.p, lst(want), wp), {'gate': name, 'q': q, 'N': N})
        for c in range(N):
            for t in range(N):
                if c == t:
                    continue
                b.case(sample={'gate': 'CNOT', 'c': c, 't': t, 'N': N})
                gate = pcirc.CNOT(c, t)
                for k in range(N):
                    for xz in (0, 1):
                        e = np.zeros(2 * N, dtype=np.int64)
                        e[2 * k + xz] = 1
                        want = e.copy()
                        if k == c and xz == 0:
                            want[2 * t] = 1          # X_c -> X_c X_t
                        if k == t and xz == 1:
                            want[2 * c + 1] = 1      # Z_t -> Z_c Z_t
                        o = P(e.copy(), 0)
                        gate.forward(o)
                        if not ((o.g == want).all() and o.p % 4 == 0):
                            b.fail('named_CNOT', 'CNOT(%d,%d) maps %s to (%s,%d), textbook %s' % (c, t, lst(e), lst(o.g), o.p, lst(want)), {'c': c, 't': t, 'N': N})
    # the 24 indexed gates
    tables = []
    for k in range(24):
        b.case(sample={'C': k})
        ok, g = guard(b, 'C_ctor', lambda: pcirc.C(k, 0))
        if not ok:
            continue
        m = g.forward_map
        if not (O.map_images_ok(m.gs, 1) and set(int(x) for x in m.ps) <= {0, 2}):
            b.fail('C_valid', 'C(%d) is not a valid Clifford map' % k, {'k': k})
        tables.append((tuple(m.gs.ravel().tolist()), tuple(int(x) % 4 for x in m.ps)))
    if len(set(tables)) != 24:
        dup = [k for k in range(len(tables)) if tables[k] in tables[:k]]
        b.fail('C_distinct', 'C(0..23) yields only %d distinct gates (duplicates at %s)' % (len(set(tables)), dup), {'dups': dup})
    tabset = set(tables)
    for i in range(24):
        mi = pcirc.C(i, 0).forward_map
        inv = mi.inverse()
        if (tuple(inv.gs.ravel().tolist()), tuple(int(x) % 4 for x in inv.ps)) not in tabset:
            b.fail('C_closed_inverse', 'inverse of C(%d) is not among C(0..23)' % i, {'i': i})
        for j in range(24):
            b.case()
            mj = pcirc.C(j, 0).forward_map
            cc = mi.compose(mj)
            if (tuple(cc.gs.ravel().tolist()), tuple(int(x) % 4 for x in cc.ps)) not in tabset:
                b.fail('C_closed_compose', 'C(%d) then C(%d) is not among C(0..23)' % (i, j), {'i': i, 'j': j})
    # history independence: whatever is done to the map handed out with one gate (here: transformed in place by other gates,
    # as gate.forward(map) does), a gate constructed LATER is still the table gate
    ctors = [('%s(0)' % nm, (lambda nm=nm: getattr(pcirc, nm)(0))) for nm in ('H', 'S', 'X', 'Y', 'Z')]
    ctors += [('CNOT(0,1)', lambda: pcirc.CNOT(0, 1)), ('CNOT(1,0)', lambda: pcirc.CNOT(1, 0))]
    ctors += [('C(%d,0)' % k, (lambda k=k: pcirc.C(k, 0))) for k in range(24)]
    first = {}
    for nm, mk in ctors:
        m = mk().forward_map
        first[nm] = (m.gs.copy(), m.ps.copy())
    for rnd in range(2):
        for nm, mk in ctors:
            g = mk()
            m = g.forward_map
            try:
                if m.N == 1:
                    for k in (1, 7, 16):
                        pcirc.C(k, 0).forward(m)            # in-place transform of the map object handed out
                else:
                    pcirc.CNOT(1, 0).forward(m)
                    pcirc.H(0).forward(m)
                m.gs[0, 0] = 1 - m.gs[0, 0]
            except Exception as e:          # noqa
                pass
        for nm, mk in ctors:
            b.case()
            m = mk().forward_map
            if not ((m.gs == first[nm][0]).all() and (m.ps % 4 == first[nm][1] % 4).all()):
                b.fail('named_history', '%s constructed after the map of an earlier %s was modified in place is a different gate' % (nm, nm), {'gate': nm})
    for bad in (-1, 24, 100):
        b.case()
        try:
            pcirc.C(bad, 0)
            b.fail('C_reject', 'C(%d) accepted' % bad, {'k': bad})
        except ValueError:
            pass
    for ctor, args in (('H', (0, 1)), ('S', ()), ('X', (0, 1)), ('Y', (0, 1, 2)), ('Z', ()), ('CNOT', (0,)), ('CNOT', (0, 1, 2)), ('C', (3, 0, 1)), ('C', (3,))):
        b.case()
        try:
            getattr(pcirc, ctor)(*args)
            b.fail('arity_reject', '%s%s accepted' % (ctor, args), {'ctor': ctor, 'args': list(args)})
        except ValueError:
            pass
    return b.result()


REGISTRY['c11_named'] = c11_named


# ------------------------------------------------------------------------------------------ C12
def basis_projector(bits_):
    N = len(bits_)
    idx = int(''.join(map(str, bits_)), 2) if N else 0
    R = np.zeros((2 ** N, 2 ** N), dtype=complex)
    R[idx, idx] = 1
    return R


def c12_states(run, Nmax=3, count=30):
    rng = np.random.default_rng(run.seed)
    b = B('N<=%d: all 24 maps (N=1) / %d random valid maps with random signs x all ranks; constructors for N<=%d; independent commuting stabilizer lists of every length, all signs, three input formats' % (Nmax, count, Nmax))
    for N in range(1, Nmax + 1):
        D = 2 ** N
        for gm, pm in all_maps(N, rng, count):
            m = CM(gm, pm)
            for r in [None] + list(range(N + 1)):
                b.case(sample={'map': lst(gm), 'signs': lst(pm), 'r': r})
                ok, st = guard(b, 'to_state', lambda: m.to_state(r) if r is not None else m.to_state(), {'map': lst(gm)})
                if not ok:
                    continue
                rr = 0 if r is None else r
                good = st.r == rr
                for i in range(N):
                    good = good and (st.gs[i] == gm[2 * i + 1]).all() and st.ps[i] == pm[2 * i + 1] \
                        and (st.gs[N + i] == gm[2 * i]).all() and st.ps[N + i] == pm[2 * i]
                if not good:
                    b.fail('to_state', 'to_state: stabilizers are not the Z-images / destabilizers not the X-images with their signs', {'map': lst(gm), 'signs': lst(pm), 'r': r})
                    continue
                # the state is the map applied to |0..0>: rho = prod (1 + image(Z_i))/2 over active i
                want = np.eye(D, dtype=complex)
                for i in range(rr, N):
                    want = want @ (np.eye(D) + O.dense(gm[2 * i + 1], pm[2 * i + 1])) / 2
                want = want / 2 ** rr
                if not O.eq(O.rho(st), want):
                    b.fail('to_state_dense', 'to_state does not denote the map applied to |0..0>', {'map': lst(gm), 'signs': lst(pm), 'r': r})
                back = st.to_map()
                if not ((back.gs == gm).all() and (back.ps == pm).all()):
                    b.fail('to_map_roundtrip', 'to_state().to_map() differs from the map', {'map': lst(gm), 'signs': lst(pm)})
                ok, q = guard(b, 'to_qutip', lambda: st.to_qutip().full(), {})
                if ok and not O.eq(np.asarray(q), O.rho(st)):
                    b.fail('to_qutip', 'to_qutip differs from the normalised product of stabilizer projectors', {'map': lst(gm), 'signs': lst(pm), 'r': r})
        # named constructors
        checks = [('zero_state', lambda: pc.zero_state(N), basis_projector([0] * N), 0),
                  ('one_state', lambda: ps_.one_state(N), basis_projector([1] * N), 0),
                  ('maximally_mixed_state', lambda: pc.maximally_mixed_state(N), np.eye(D) / D, N)]
        if N >= 2:
            v = np.zeros(D, dtype=complex)
            v[0] = v[-1] = 1 / np.sqrt(2)
            checks.append(('ghz_state', lambda: pc.ghz_state(N), np.outer(v, v.conj()), 0))
        for name, f, want, r in checks:
            b.case(sample={'ctor': name, 'N': N})
            ok, st = guard(b, name, f, {'N': N})
            if ok:
                okT, why = O.tableau_ok(st.gs, st.ps, st.r)
                if not okT or st.r != r or not O.eq(O.rho(st), want):
                    b.fail(name, '%s(%d) does not denote the documented state (%s)' % (name, N, why), {'N': N})
        for _ in range(10):
            b.case()
            ok, st = guard(b, 'random_bit_state', lambda: ps_.random_bit_state(N), {'N': N})
            if ok:
                okT, why = O.tableau_ok(st.gs, st.ps, st.r)
                R = O.rho(st) if okT else None
                if not okT or st.r != 0 or abs(np.abs(np.diag(R)).max() - 1) > 1e-9:
                    b.fail('random_bit_state', 'random_bit_state is not a computational basis state: ' + why, {'N': N, 'state': state_json(st)})
            ok, st = guard(b, 'random_pauli_state', lambda: pc.random_pauli_state(N), {'N': N})
            if ok:
                okT, why = O.tableau_ok(st.gs, st.ps, st.r)
                prod = okT and all(O.vn_entropy(O.ptrace(O.rho(st), [q], N)) < 1e-9 for q in range(N))
                if not prod:
                    b.fail('random_pauli_state', 'random_pauli_state is not a valid product state ' + why, {'N': N, 'state': state_json(st)})
        # stabilizer_state from independent commuting signed lists
        for _ in range(25):
            L = int(rng.integers(1, N + 1))
            obs = commuting_obs(rng, N, L)
            gsx = np.array([g for g, _ in obs])
            psx = np.array([p for _, p in obs])
            if len(obs) < L or gf2_rank(gsx) < L:
                continue
            want = np.eye(D, dtype=complex)
            for g, p in obs:
                want = want @ (np.eye(D) + O.dense(g, p)) / 2
            want = want / np.trace(want)
            letters = {(0, 0): 'I', (1, 0): 'X', (1, 1): 'Y', (0, 1): 'Z'}
            strs = [('-' if p == 2 else '+') + ''.join(letters[(int(g[2 * k]), int(g[2 * k + 1]))] for k in range(N)) for g, p in obs]
            for fmt, arg in (('PauliList', lambda: pc.stabilizer_state(PL(gsx, psx))), ('strings', lambda: pc.stabilizer_state(*strs)),
                             ('list_of_strings', lambda: pc.stabilizer_state(strs))):
                b.case(sample={'stabilizers': strs, 'format': fmt})
                snap = (gsx.copy(), psx.copy())
                ok, st = guard(b, 'stabilizer_state', arg, {'stabilizers': strs, 'format': fmt})
                if not ok:
                    continue
                okT, why = O.tableau_ok(st.gs, st.ps, st.r)
                if not okT or st.r != N - L or not O.eq(O.rho(st), want):
                    b.fail('stabilizer_state', 'stabilizer_state is not the normalised projector onto the joint +1 eigenspace (%s, r=%s)' % (why, st.r), {'stabilizers': strs, 'format': fmt})
                if not ((gsx == snap[0]).all() and (psx == snap[1]).all()):
                    b.fail('stabilizer_state_args', 'stabilizer_state changed its argument', {'stabilizers': strs})
        # anticommuting input must raise
        for _ in range(10):
            g1 = gens.bits(rng, 2 * N)
            g2 = gens.bits(rng, 2 * N)
            if O.eq(O.dense(g1) @ O.dense(g2), O.dense(g2) @ O.dense(g1)):
                continue
            b.case()
            try:
                pc.stabilizer_state(PL(np.array([g1, g2]), np.array([0, 0])))
                b.fail('stabilizer_state_anticommuting', 'anticommuting stabilizers accepted', {'g1': lst(g1), 'g2': lst(g2)})
            except ValueError:
                pass
            except Exception as e:
                b.fail('stabilizer_state_anticommuting', 'raised %r instead of ValueError' % e, {})
    return b.result()


REGISTRY['c12_states'] = c12_states


# ------------------------------------------------------------------------------------------ C14
def zstring(N, q):
    g = np.zeros(2 * N, dtype=np.int64)
    g[2 * q + 1] = 1
    return g


def c14_trajectory(run, Nmax=3, programs=60):
    rng = np.random.default_rng(run.seed)
    b = B('%d random circuits interleaving gates and measurement layers (<= 6 items, N <= %d), pure and mixed inputs; post-selection: all signed strings on random pure states N <= %d, both outcomes' % (programs, Nmax, Nmax))
    # measurement layer == direct measurement (checked against the dense projection; the coin is whatever numba drew)
    for _ in range(programs):
        N = int(rng.integers(1, Nmax + 1))
        gs, ps = gens.rand_tableau(rng, N)
        r = int(rng.integers(0, N + 1))
        st = mk_state(gs, ps, r)
        q = tuple(rng.choice(N, size=int(rng.integers(1, N + 1)), replace=False).tolist())
        R = O.rho(st)
        inp = {'state': state_json(st), 'qubits': list(q)}
        layer = pcirc.MeasureLayer(*q, N=N)
        b.case(sample=inp)
        ok, _ = guard(b, 'measure_layer', lambda: layer.forward(st), inp)
        if not ok:
            continue
        res = layer.result
        prob = 1.0
        good = len(res) == len(q) and all(int(x) in (1, -1) for x in res)
        if good:
            for qq, o in zip(q, res):
                Pi = (np.eye(2 ** N) + int(o) * O.dense(zstring(N, qq))) / 2
                Rn = Pi @ R @ Pi
                pk = np.trace(Rn).real
                if pk < 1e-12:
                    good = False
                    break
                prob *= pk
                R = Rn / pk
        okT, why = O.tableau_ok(st.gs, st.ps, st.r)
        if not good or not okT:
            b.fail('measure_layer_result', 'measurement layer returned impossible/ill-formed outcomes or broke the state (%s)' % why, inp)
        elif not O.eq(O.rho(st), R):
            b.fail('measure_layer_state', 'state (or rank) after the layer is not the projected state', dict(inp, result=lst(res), r_after=int(st.r)))
        elif abs(2.0 ** layer.log2prob - prob) > 1e-9:
            b.fail('measure_layer_log2prob', 'layer.log2prob %r, Born probability %r' % (layer.log2prob, prob), inp)
    # circuits with mid-circuit measurements
    for _ in range(programs):
        N = int(rng.integers(1, Nmax + 1))
        items = []
        circ = pcirc.Circuit(N)
        nitems = int(rng.integers(2, 7))
        for k in range(nitems):
            if rng.integers(0, 3) == 0:
                q = tuple(rng.choice(N, size=int(rng.integers(1, N + 1)), replace=False).tolist())
                items.append(('M', q))
                circ.measure(*q)
            else:
                g, nm = random_gate(rng, N)
                items.append(('G', g, nm))
                circ.take(g.copy())
        gs, ps = gens.rand_tableau(rng, N)
        pure_in = bool(rng.integers(0, 2))
        st = mk_state(gs, ps, 0 if pure_in else int(rng.integers(0, N + 1)))
        inp = {'items': [(i[0], list(i[1]) if i[0] == 'M' else i[2]) for i in items], 'state': state_json(st)}
        R = O.rho(st)
        b.case(sample=inp)
        ok, _ = guard(b, 'circuit_with_measure', lambda: circ.forward(st), inp)
        if not ok:
            continue
        rec = list(circ.measure_result)
        nm_expected = sum(len(i[1]) for i in items if i[0] == 'M')
        if len(rec) != nm_expected or circ.num_of_measures != nm_expected:
            b.fail('circuit_record_length', 'measure_result has %d entries for %d measured qubits' % (len(rec), nm_expected), inp)
            continue
        # dense trajectory in program order with the recorded outcomes
        ref = mk_state(gs, ps, st.r if False else (0 if pure_in else inp['state']['r']))
        ptr = 0
        prob = 1.0
        good = True
        Rt = R
        for it in items:
            if it[0] == 'G':
                tmp = mk_state(ref.gs, ref.ps, ref.r)
                it[1].copy().forward(ref)
                # dense action of the gate derived from the (C09-checked) gate on the reference state
                Rt = None
            else:
                for qq in it[1]:
                    o = int(rec[ptr]); ptr += 1
                    if Rt is None:
                        Rt = O.rho(ref)
                    Pi = (np.eye(2 ** N) + o * O.dense(zstring(N, qq))) / 2
                    Rn = Pi @ Rt @ Pi
                    pk = np.trace(Rn).real
                    if pk < 1e-12:
                        good = False
                        break
                    prob *= pk
                    Rt = Rn / pk
                    # keep the reference state in sync by post-selecting it through the measurement kernel
                    ref = project_state(ref, zstring(N, qq), 0 if o == 1 else 2)
                if not good:
                    break
        if not good:
            b.fail('circuit_impossible_record', 'recorded outcomes have probability zero along the program order', inp)
            continue
        if not O.eq(O.rho(st), O.rho(ref)):
            b.fail('circuit_trajectory', 'final state differs from the trajectory in program order (a gate moved across a measurement, or the update is wrong)', dict(inp, record=rec))
        if abs(2.0 ** circ.log2prob - prob) > 1e-9:
            b.fail('circuit_log2prob', 'accumulated log2prob %r, trajectory probability %r' % (circ.log2prob, prob), dict(inp, record=rec))
        # backward with the recorded outcomes on the final pure state must be possible (probability one each)
        if pure_in:
            fin = mk_state(st.gs, st.ps, st.r)
            ok, _ = guard(b, 'circuit_backward', lambda: circ.backward(fin), dict(inp, record=rec))
            if ok:
                okT, why = O.tableau_ok(fin.gs, fin.ps, fin.r)
                if not okT:
                    b.fail('circuit_backward_state', 'backward left an invalid state: ' + why, inp)
                else:
                    # adjoint of the recorded trajectory K = ... Pi_2 U_2 Pi_1 U_1 :  sigma -> K^dagger sigma K / tr, computed
                    # densely (gates act linearly on the Pauli expansion, projectors from the recorded outcomes)
                    Rb = O.rho(st)
                    ptr = len(rec)
                    okb = True
                    for it in reversed(items):
                        if it[0] == 'G':
                            Rb = lin_apply(lambda o, g=it[1]: g.copy().backward(o), Rb, N)
                        else:
                            for qq in reversed(it[1]):
                                ptr -= 1
                                Pi = (np.eye(2 ** N) + int(rec[ptr]) * O.dense(zstring(N, qq))) / 2
                                Rb = Pi @ Rb @ Pi
                                t = np.trace(Rb).real
                                if t < 1e-12:
                                    okb = False
                                    break
                                Rb = Rb / t
                        if not okb:
                            break
                    if not okb or not O.eq(O.rho(fin), Rb):
                        b.fail('circuit_backward_adjoint', 'backward(final state) is not the adjoint of the recorded trajectory', dict(inp, record=rec))
            # a SUPPLIED record overrides the circuit's own: a second run of an identical circuit gives another possible trajectory
            # (record rec2, final state fin2); the first circuit object, asked to go backward along rec2, must return the adjoint of
            # THAT trajectory -- also when it has never been run forward itself
            if rec and pure_in:
                def build():
                    c_ = pcirc.Circuit(N)
                    for it in items:
                        if it[0] == 'M':
                            c_.measure(*it[1])
                        else:
                            c_.take(it[1].copy())
                    return c_

                def adjoint(rec_, Rfin):
                    Rb_, ptr_ = Rfin, len(rec_)
                    for it in reversed(items):
                        if it[0] == 'G':
                            Rb_ = lin_apply(lambda o, g=it[1]: g.copy().backward(o), Rb_, N)
                        else:
                            for qq in reversed(it[1]):
                                ptr_ -= 1
                                Pi = (np.eye(2 ** N) + int(rec_[ptr_]) * O.dense(zstring(N, qq))) / 2
                                Rb_ = Pi @ Rb_ @ Pi
                                t = np.trace(Rb_).real
                                if t < 1e-12:
                                    return None
                                Rb_ = Rb_ / t
                    return Rb_
                try:
                    circB = build()
                    st2 = mk_state(gs, ps, 0)
                    circB.forward(st2)
                    rec2 = list(circB.measure_result)
                    want = adjoint(rec2, O.rho(st2))
                    for label, cobj in (('after its own forward run', circ), ('never run forward', build())):
                        b.case()
                        fin2 = mk_state(st2.gs, st2.ps, st2.r)
                        cobj.backward(fin2, measure_result=list(rec2))
                        if want is None or not O.eq(O.rho(fin2), want):
                            b.fail('circuit_backward_supplied_record', 'backward with a supplied record (%s) is not the adjoint of the supplied trajectory' % label,
                                   dict(inp, own_record=rec if cobj is circ else None, supplied=rec2))
                except Exception as e:
                    b.fail('circuit_backward_supplied_record.raises', repr(e)[:200], dict(inp, record=rec))
            # records that differ from the recorded one in ONE entry: impossible ones must raise, possible ones give their adjoint
            if rec and pure_in:
                for kflip in range(len(rec)):
                    rec1 = list(rec)
                    rec1[kflip] = -rec1[kflip]
                    want1 = adjoint(rec1, O.rho(st))
                    fin1 = mk_state(st.gs, st.ps, st.r)
                    b.case()
                    try:
                        circ.backward(fin1, measure_result=list(rec1))
                        if want1 is None:
                            b.fail('circuit_backward_impossible_entry', 'backward accepted a record whose entry %d contradicts the final state' % kflip,
                                   dict(inp, record=rec, supplied=rec1))
                        elif not O.eq(O.rho(fin1), want1):
                            b.fail('circuit_backward_supplied_record', 'backward with one flipped (possible) entry is not the adjoint of that trajectory', dict(inp, record=rec, supplied=rec1))
                    except ValueError:
                        if want1 is not None:
                            b.fail('circuit_backward_possible_entry', 'backward rejected a possible record (entry %d flipped)' % kflip, dict(inp, record=rec, supplied=rec1))
                    except Exception as e:
                        b.fail('circuit_backward.raises', repr(e)[:200], inp)
            # an impossible record must raise
            if rec:
                flipped = [-x for x in rec]
                fin = mk_state(st.gs, st.ps, st.r)
                try:
                    circ.backward(fin, measure_result=flipped)
                    b.fail('circuit_backward_impossible', 'backward accepted a record that contradicts the final state', dict(inp, record=flipped))
                except ValueError:
                    pass
                except Exception as e:
                    b.fail('circuit_backward.raises', repr(e)[:200], inp)
    # post-selection on pure states
    for N in range(1, Nmax + 1):
        S = O.all_strings(N)
        for gs, ps in tableaux(N, rng, 12)[:24]:
            for g in (S if N <= 2 else [S[i] for i in rng.choice(len(S), 12, replace=False)]):
                if not g.any():
                    continue
                for pg in (0, 2):
                    for want_out in (0, 1):
                        st = mk_state(gs, ps, 0)
                        R = O.rho(st)
                        Pi = (np.eye(2 ** N) + (-1) ** want_out * O.dense(g, pg)) / 2
                        pr = np.trace(Pi @ R).real
                        inp = {'state': state_json(st), 'P': lst(g), 'sign': pg, 'outcome': want_out}
                        b.case(sample=inp)
                        ok, val = guard(b, 'postselect', lambda: st.postselect(P(g, pg), want_out), inp)
                        if not ok:
                            continue
                        if abs(val - pr) > 1e-9:
                            b.fail('postselect_prob', 'postselect returned %r, Born probability %r' % (val, pr), inp)
                        elif pr < 1e-12:
                            if not O.eq(O.rho(st), R):
                                b.fail('postselect_zero_state', 'state changed although the outcome is impossible', inp)
                        elif not O.eq(O.rho(st), Pi @ R @ Pi / pr) or not O.tableau_ok(st.gs, st.ps, st.r)[0]:
                            b.fail('postselect_state', 'state after postselect is not the projected state', inp)
    return b.result()


def lin_apply(fn, R, N):
    """linear extension of a map on Pauli operators (fn mutates a Pauli in place) to an arbitrary matrix"""
    out = np.zeros_like(R)
    for g in O.all_strings(N):
        c = np.trace(O.dense(g) @ R) / 2 ** N
        if abs(c) < 1e-12:
            continue
        o = P(g.copy(), 0)
        fn(o)
        out = out + c * O.dense(o.g, o.p)
    return out


def project_state(st, g, p):
    """reference projection of a state onto the +1 eigenspace of (g,p), through dense algebra -> new StabilizerState
    obtained by running the real kernel with the sign forced (only used to keep a reference in sync; the result is
    compared densely, so an error here shows up as a mismatch, never hides one)"""
    N = st.N
    ref = mk_state(st.gs, st.ps, st.r)
    for _ in range(64):
        t = mk_state(ref.gs, ref.ps, ref.r)
        out, _ = t.measure(PL(np.array([g]), np.array([p])))
        if int(out[0]) == 0:
            return t
    raise RuntimeError('could not realise the recorded outcome in 64 draws')


REGISTRY['c14_trajectory'] = c14_trajectory


# ------------------------------------------------------------------------------------------ C15
def rand_poly(rng, N, L):
    gs = gens.bits(rng, L, 2 * N)
    if L >= 2 and rng.integers(0, 2):
        gs[1] = gs[0]            # repeated string
    return pa.PauliPolynomial(gs, rng.integers(0, 4, L)).set_cs(np.round(rng.normal(size=L), 3) + 1j * np.round(rng.normal(size=L), 3))


def any_dense(x, N):
    if isinstance(x, pa.PauliPolynomial):
        return poly_dense(x)
    if isinstance(x, pa.PauliMonomial):
        return x.c * O.dense(x.g, x.p)
    if isinstance(x, pa.Pauli):
        return O.dense(x.g, x.p)
    return complex(x) * np.eye(2 ** N)


def c15_algebra(run, Nmax=2, trees=300):
    rng = np.random.default_rng(run.seed)
    b = B('%d random expression trees over {Pauli, monomial, polynomial (<= 3 terms, repeated strings, all phases, complex coefficients), number}, N <= %d, operations + - * / @ neg reduce trace; dense comparison; to_qutip exports' % (trees, Nmax))
    for _ in range(trees):
        N = int(rng.integers(1, Nmax + 1))

        def operand():
            k = int(rng.integers(0, 4))
            if k == 0:
                return P(gens.bits(rng, 2 * N), int(rng.integers(0, 4)))
            if k == 1:
                return complex(np.round(rng.normal(), 2), np.round(rng.normal(), 2)) * P(gens.bits(rng, 2 * N), int(rng.integers(0, 4)))
            return rand_poly(rng, N, int(rng.integers(1, 4)))
        x, y = operand(), operand()
        num = complex(np.round(rng.normal(), 2), np.round(rng.normal(), 2))
        X_, Y_ = any_dense(x, N), any_dense(y, N)
        ops = [('add', lambda: x + y, X_ + Y_), ('sub', lambda: x - y, X_ - Y_), ('matmul', lambda: x @ y, X_ @ Y_),
               ('neg', lambda: -x, -X_), ('rmul', lambda: num * x, num * X_), ('div', lambda: x / num, X_ / num),
               ('add_number', lambda: x + num, X_ + num * np.eye(2 ** N)), ('radd_number', lambda: num + x, X_ + num * np.eye(2 ** N)),
               ('rmul_i', lambda: 1j * x, 1j * X_), ('rmul_m1', lambda: -1 * x, -X_)]
        for name, f, want in ops:
            inp = {'x': describe(x), 'y': describe(y), 'num': [num.real, num.imag], 'op': name}
            b.case(sample=inp)
            ok, res = guard(b, 'alg_' + name, f, inp)
            if not ok:
                continue
            if not O.eq(any_dense(res, N), want):
                b.fail('alg_' + name, 'result of %s is not the corresponding matrix operation' % name, inp)
        # selecting terms of an UNREDUCED polynomial (phases still in ps: a product, a cast) keeps their phases and coefficients:
        # the selected parts add up to the whole, an integer selects the term's matrix
        for label, big in (('product', lambda: rand_poly(rng, N, 2) @ rand_poly(rng, N, 2)), ('cast', lambda: PL(gens.bits(rng, 3, 2 * N), rng.integers(0, 4, 3)).as_polynomial())):
            inp = {'what': 'selection from a %s polynomial' % label, 'N': N}
            b.case(sample=inp)
            ok, big_ = guard(b, 'alg_select', big, inp)
            if not ok or big_.L == 0:
                continue
            inp['poly'] = describe(big_)
            whole = any_dense(big_, N)
            kcut = int(rng.integers(0, big_.L + 1))
            mk_ = rng.integers(0, 2, big_.L).astype(bool)
            idx_ = rng.permutation(big_.L)
            parts = [('slice', lambda: (big_[:kcut], big_[kcut:])), ('mask', lambda: (big_[mk_], big_[~mk_])), ('index', lambda: (big_[idx_[:kcut]], big_[idx_[kcut:]]))]
            for nm, f in parts:
                ok, pair_ = guard(b, 'alg_select_' + nm, f, inp)
                if not ok:
                    continue
                a_, b_ = pair_
                if not O.eq(any_dense(a_, N) + any_dense(b_, N), whole):
                    b.fail('alg_select_' + nm, 'the two complementary %s selections of a polynomial do not add up to it (phases / coefficients of selected terms lost)' % nm, inp)
            ok, terms = guard(b, 'alg_select_int', lambda: [big_[j] for j in range(big_.L)], inp)
            if ok and not O.eq(sum(any_dense(t_, N) for t_ in terms), whole):
                b.fail('alg_select_int', 'the integer-selected terms of a polynomial do not add up to it', inp)
        # a monomial (all four phases, complex coefficient): its inverse is the matrix inverse
        mono = P(gens.bits(rng, 2 * N), int(rng.integers(0, 4))).as_monomial().set_c(num if abs(num) > 0.05 else 1.0 + 0j)
        Mm = any_dense(mono, N)
        inp = {'monomial': describe(mono)}
        b.case(sample=inp)
        ok, mi = guard(b, 'alg_monomial_inverse', lambda: mono.inverse(), inp)
        if ok and not (O.eq(any_dense(mi, N) @ Mm, np.eye(2 ** N)) and O.eq(any_dense(mono, N), Mm)):
            b.fail('alg_monomial_inverse', 'inverse() of a monomial is not the matrix inverse (or changed the monomial)', inp)
        if isinstance(x, pa.PauliPolynomial):
            inp = {'x': describe(x)}
            b.case()
            ok, red = guard(b, 'reduce', lambda: x.reduce(), inp)
            if ok:
                if not np.allclose(poly_dense(red), X_, atol=1e-8):
                    b.fail('reduce', 'reduce changed the operator', inp)
                keys = [tuple(g) for g in red.gs]
                if len(set(keys)) != len(keys) or (red.ps != 0).any():
                    b.fail('reduce_form', 'reduce left repeated strings or phases', inp)
            ok, tr = guard(b, 'trace', lambda: x.trace(), inp)
            if ok and abs(tr - np.trace(X_)) > 1e-8:
                trace_fail(b, x, tr, X_, N, inp)
            ok, qt_ = guard(b, 'poly_to_qutip', lambda: np.asarray(x.to_qutip().full()), inp)
            if ok and not O.eq(qt_, X_):
                b.fail('poly_to_qutip', 'to_qutip differs from the matrix', inp)
        else:
            inp = {'x': describe(x)}
            b.case()
            ok, tr = guard(b, 'trace', lambda: x.trace(), inp)
            if ok and abs(tr - np.trace(X_)) > 1e-8:
                trace_fail(b, x, tr, X_, N, inp)
            ok, qt_ = guard(b, 'to_qutip', lambda: np.asarray(x.to_qutip().full()), inp)
            if ok and not O.eq(qt_, X_):
                b.fail('to_qutip', 'to_qutip differs from the matrix', inp)
        # linearity of rotations and maps
        if isinstance(x, pa.PauliPolynomial):
            g, pg = gens.bits(rng, 2 * N), int(2 * rng.integers(0, 2))
            xr = x.copy().rotate_by(P(g, pg))
            b.case()
            if not O.eq(poly_dense(xr), O.conj(O.rot_U(g, pg), X_)):
                b.fail('poly_rotate_linear', 'rotation does not act linearly on the polynomial', {'x': describe(x), 'G': lst(g)})
    # tolerance: only terms below tol are dropped
    for _ in range(20):
        N = 1
        x = pa.PauliPolynomial(np.array([[1, 0], [0, 1], [1, 0]]), np.array([0, 0, 2])).set_cs(np.array([1.0, 1e-12, 1.0 - 1e-3], dtype=complex))
        red = x.reduce()
        b.case()
        if not np.allclose(poly_dense(red), poly_dense(x), atol=1e-9):
            b.fail('reduce_tol', 'reduce changed the operator by more than the tolerance', describe(x))
    lst_ = PL(np.array(O.all_strings(1)), np.arange(4))
    b.case()
    ok, ql = guard(b, 'list_to_qutip', lambda: [np.asarray(q.full()) for q in lst_.to_qutip()], {})
    if ok and not all(O.eq(q, O.dense(g, p)) for q, g, p in zip(ql, lst_.gs, lst_.ps)):
        b.fail('list_to_qutip', 'PauliList.to_qutip differs from the matrices', {})
    return b.result()


def trace_fail(b, x, tr, X_, N, inp):
    """classify a wrong trace: the recorded finding F12 is exactly `the phase indicator of an identity-string term
    is ignored` (trace computed as if every ps were 0); anything else is a different violation"""
    if isinstance(x, pa.PauliPolynomial):
        ign = sum(c * 2 ** N for g, c in zip(x.gs, x.cs) if not g.any())
    elif isinstance(x, pa.PauliMonomial):
        ign = x.c * 2 ** N if not x.g.any() else 0
    else:
        ign = 2 ** N if not x.g.any() else 0
    if abs(tr - ign) < 1e-8:
        b.fail('trace_ignores_phase', 'trace %r ignores the phase of identity terms, matrix trace %r' % (tr, np.trace(X_)), inp)
    else:
        b.fail('trace', 'trace %r, matrix trace %r' % (tr, np.trace(X_)), inp)


def describe(x):
    if isinstance(x, pa.PauliPolynomial):
        return {'poly': poly_json(x)}
    if isinstance(x, pa.PauliMonomial):
        return {'monomial': [lst(x.g), int(x.p), [complex(x.c).real, complex(x.c).imag]]}
    if isinstance(x, pa.Pauli):
        return {'pauli': [lst(x.g), int(x.p)]}
    return {'number': str(x)}


REGISTRY['c15_algebra'] = c15_algebra


# ------------------------------------------------------------------------------------------ C16
def map_key(gs):
    return tuple(np.asarray(gs).ravel().tolist())


def c16_random(run, Nmax=3, samples=40, n1=4800, n2=36000):
    rng = np.random.default_rng(run.seed)
    b = B('validity: %d samples per sampler and N <= %d; uniformity: %d samples of random_clifford_map(1) over the 24 elements, %d samples of random_clifford(2) over the 720 symplectic classes (chi-square, threshold beyond 8 sigma), sign bits' % (samples, Nmax, n1, n2))
    for N in range(1, Nmax + 1):
        for _ in range(samples):
            for name, f in (('random_clifford_map', lambda: pc.random_clifford_map(N)), ('random_pauli_map', lambda: ps_.random_pauli_map(N))):
                b.case(sample={'sampler': name, 'N': N})
                ok, m = guard(b, name, f, {'N': N})
                if ok and not (O.map_images_ok(m.gs, N) and set(int(x) for x in m.ps) <= {0, 2} and np.isin(m.gs, (0, 1)).all()):
                    b.fail(name + '_valid', 'sampled map violates the canonical commutation relations / Hermitian phases', {'gs': lst(m.gs), 'ps': lst(m.ps)})
                if ok and name == 'random_pauli_map':
                    blockdiag = all((m.gs[2 * i:2 * i + 2, :2 * i] == 0).all() and (m.gs[2 * i:2 * i + 2, 2 * i + 2:] == 0).all() for i in range(N))
                    if not blockdiag:
                        b.fail('random_pauli_product', 'random Pauli map is not a product of single-qubit Cliffords', {'gs': lst(m.gs)})
            for name, f in (('random_clifford_state', lambda: pc.random_clifford_state(N, int(rng.integers(0, N + 1)))),
                            ('random_pauli_state', lambda: pc.random_pauli_state(N, int(rng.integers(0, N + 1))))):
                b.case()
                ok, st = guard(b, name, f, {'N': N})
                if ok:
                    okT, why = O.tableau_ok(st.gs, st.ps, st.r)
                    if not okT:
                        b.fail(name + '_valid', 'sampled state invalid: ' + why, state_json(st))
        if N % 2 == 0:
            ctors = [('brickwall_rcc', lambda: pcirc.brickwall_rcc(N, 3))]
        else:
            ctors = []
        ctors += [('onsite_rcc', lambda: pcirc.onsite_rcc(N)), ('global_rcc', lambda: pcirc.global_rcc(N))]
        for name, f in ctors:
            circ = f()
            outs = set()
            for _ in range(12):
                b.case()
                st = pc.zero_state(N)
                ok, _ = guard(b, name, lambda: circ.forward(st), {'N': N})
                if not ok:
                    break
                okT, why = O.tableau_ok(st.gs, st.ps, st.r)
                if not okT:
                    b.fail(name + '_valid', 'state after random circuit invalid: ' + why, state_json(st))
                outs.add(map_key(st.gs) + tuple(int(x) for x in st.ps))
            if len(outs) < 2:
                b.fail(name + '_resample', 'random gates were not resampled between calls (12 identical outputs)', {'N': N})
    # gates without maps resample at every call, in both directions, and are never cached
    g = pcirc.CliffordGate(0, 1)
    seen = set()
    for _ in range(20):
        o = PL(np.array(O.all_strings(2)), np.zeros(16, dtype=np.int64))
        g.forward(o)
        seen.add(map_key(o.gs))
        o = PL(np.array(O.all_strings(2)), np.zeros(16, dtype=np.int64))
        g.backward(o)
        seen.add(map_key(o.gs))
    b.case()
    if len(seen) < 10 or g.forward_map is not None or g.backward_map is not None:
        b.fail('gate_resample', 'a gate without maps did not resample (or cached a map)', {'distinct': len(seen)})
    # uniformity N = 1 (all 24 elements)
    counts = {}
    for _ in range(n1):
        m = pc.random_clifford_map(1)
        k = map_key(m.gs) + tuple(int(x) for x in m.ps)
        counts[k] = counts.get(k, 0) + 1
    b.case(sample={'uniformity': 'N=1', 'classes_seen': len(counts)})
    exp = n1 / 24.0
    chi = sum((c - exp) ** 2 / exp for c in counts.values()) + (24 - len(counts)) * exp
    if len(counts) != 24 or chi > 23 + 8 * np.sqrt(2 * 23):
        b.fail('uniform_N1', 'random_clifford_map(1): %d of 24 elements seen, chi2 = %.1f (df 23)' % (len(counts), chi), {'counts': sorted(counts.values())})
    # random_pauli(2): the two sites are sampled independently - joint uniformity over the 6 x 6 pairs of single-qubit symplectic classes
    counts = {}
    n_rp = max(3600, n1)
    for _ in range(n_rp):
        gsr = pu.random_pauli(2)
        key = tuple(int(x) for x in gsr[0:2, 0:2].ravel()) + tuple(int(x) for x in gsr[2:4, 2:4].ravel())
        counts[key] = counts.get(key, 0) + 1
    b.case(sample={'uniformity': 'random_pauli(2), joint', 'classes_seen': len(counts)})
    exp = n_rp / 36.0
    chi = sum((c - exp) ** 2 / exp for c in counts.values()) + (36 - len(counts)) * exp
    if len(counts) != 36 or chi > 35 + 8 * np.sqrt(2 * 35):
        b.fail('uniform_random_pauli', 'random_pauli(2): %d of 36 pairs of single-qubit classes seen, chi2 = %.1f (df 35): the sites are not sampled independently and uniformly' % (len(counts), chi), {'classes': len(counts)})
    # uniformity N = 2 (720 symplectic classes) and entangling
    counts = {}
    ent = 0
    for _ in range(n2):
        gs = pu.random_clifford(2)
        counts[map_key(gs)] = counts.get(map_key(gs), 0) + 1
    b.case(sample={'uniformity': 'N=2', 'classes_seen': len(counts)})
    exp = n2 / 720.0
    chi = sum((c - exp) ** 2 / exp for c in counts.values()) + (720 - len(counts)) * exp
    bad = [k for k in counts if not O.map_images_ok(np.array(k).reshape(4, 4), 2)]
    if bad:
        b.fail('random_clifford_valid', 'random_clifford(2) returned an invalid table', {'gs': list(bad[0])})
    if len(counts) != 720 or chi > 719 + 8 * np.sqrt(2 * 719):
        b.fail('uniform_N2', 'random_clifford(2): %d of 720 symplectic classes seen, chi2 = %.1f (df 719)' % (len(counts), chi), {'classes': len(counts)})
    # N = 3: marginal uniformity of the image of every generator over the 63 non-identity strings and of the images of
    # (X_i, Z_i) over the 63*32 anticommuting pairs (a sampler that is only correct for N <= 2 is biased here)
    n3 = max(6000, n1)
    rows = [dict() for _ in range(6)]
    pairs = [dict() for _ in range(3)]
    for _ in range(n3):
        gs = pu.random_clifford(3)
        for k_ in range(6):
            key = tuple(gs[k_].tolist())
            rows[k_][key] = rows[k_].get(key, 0) + 1
        for q_ in range(3):
            key = tuple(gs[2 * q_].tolist()) + tuple(gs[2 * q_ + 1].tolist())
            pairs[q_][key] = pairs[q_].get(key, 0) + 1
    b.case(sample={'uniformity': 'N=3 marginals', 'samples': n3})
    for k_ in range(6):
        exp = n3 / 63.0
        chi = sum((c - exp) ** 2 / exp for c in rows[k_].values()) + (63 - len(rows[k_])) * exp
        if len(rows[k_]) != 63 or chi > 62 + 8 * np.sqrt(2 * 62):
            b.fail('uniform_N3_row', 'random_clifford(3): image of generator %d: %d of 63 strings, chi2 = %.1f (df 62)' % (k_, len(rows[k_]), chi), {'row': k_})
    for q_ in range(3):
        ncls = 63 * 32
        exp = n3 / float(ncls)
        chi = sum((c - exp) ** 2 / exp for c in pairs[q_].values()) + (ncls - len(pairs[q_])) * exp
        if chi > (ncls - 1) + 8 * np.sqrt(2 * (ncls - 1)):
            b.fail('uniform_N3_pair', 'random_clifford(3): images of (X_%d, Z_%d): chi2 = %.1f (df %d)' % (q_, q_, chi, ncls - 1), {'qubit': q_})
    # fair sign bits / measurement coins
    ones = 0
    tot = 0
    for _ in range(400):
        m = pc.random_clifford_map(2)
        ones += int((m.ps == 2).sum())
        tot += 4
    b.case()
    if abs(ones - tot / 2) > 8 * np.sqrt(tot / 4):
        b.fail('sign_bits', 'sign bits of random maps are biased: %d of %d' % (ones, tot), {})
    ones = 0
    for _ in range(2000):
        st = pc.zero_state(1)
        out, _ = st.measure(PL(np.array([[1, 0]]), np.array([0])))
        ones += int(out[0])
    b.case()
    if abs(ones - 1000) > 8 * np.sqrt(500):
        b.fail('coin', 'measurement coin biased: %d of 2000' % ones, {})
    return b.result()


REGISTRY['c16_random'] = c16_random


# ------------------------------------------------------------------------------------------ C17
def arrays_of(o, depth=0):
    """all numpy arrays reachable from an object (fields, gates, layers, maps)"""
    out = []
    if isinstance(o, np.ndarray):
        return [o]
    if depth > 6 or o is None or isinstance(o, (int, float, complex, str, bool, tuple)):
        return out
    if isinstance(o, (list,)):
        for x in o:
            out += arrays_of(x, depth + 1)
        return out
    d = getattr(o, '__dict__', None)
    if d:
        for k, v in d.items():
            if k in ('prev_layer',):
                continue
            out += arrays_of(v, depth + 1)
    return out


def snapshot(o):
    return [a.copy() for a in arrays_of(o)] + [getattr(o, 'r', None), getattr(o, 'p', None), getattr(o, 'c', None)]


def snap_eq(a, c):
    if len(a) != len(c):
        return False
    for x, y in zip(a, c):
        if isinstance(x, np.ndarray):
            if x.shape != y.shape or not (x == y).all():
                return False
        elif x != y:
            return False
    return True


def shares(o1, o2):
    for a in arrays_of(o1):
        for c in arrays_of(o2):
            if a.size and c.size and np.shares_memory(a, c):
                return True
    return False


def c17_copies(run, Nmax=3, rounds=40):
    rng = np.random.default_rng(run.seed)
    b = B('%d rounds, N <= %d: every object kind copied, copy compared field by field and checked for shared memory, then mutated; %d query methods with before/after snapshots of receiver and arguments' % (rounds, Nmax, 16))
    for _ in range(rounds):
        N = int(rng.integers(1, Nmax + 1))
        gs, ps = gens.rand_tableau(rng, N)
        r = int(rng.integers(0, N + 1))
        gm, pm = gens.state_to_map_order(gs, ps)
        objs = {
            'Pauli': P(gens.bits(rng, 2 * N), int(rng.integers(0, 4))),
            'PauliList': PL(gens.bits(rng, 3, 2 * N), rng.integers(0, 4, 3)),
            'PauliMonomial': (0.5 - 2j) * P(gens.bits(rng, 2 * N), int(rng.integers(0, 4))),
            'PauliPolynomial': rand_poly(rng, N, 3),
            'CliffordMap': CM(gm, pm),
            'StabilizerState': mk_state(gs, ps, r),
        }
        gate = pcirc.CliffordGate(*range(N))
        gate.set_forward_map(CM(gm, pm))
        gate.compile()
        rot = pcirc.clifford_rotation_gate(P(np.ones(2 * N, dtype=np.int64), 2))
        circ = pcirc.CliffordCircuit(N)
        for _k in range(4):
            circ.take(random_gate(rng, N)[0])
        circ.compile()
        lone = pcirc.CliffordLayer(*[g_.copy() for g_ in circ.first_layer.gates]).compile(N)
        objs.update({'CliffordGate(map)': gate, 'CliffordGate(generator)': rot, 'CliffordLayer': lone, 'CliffordCircuit': circ})
        for kind, o in objs.items():
            b.case(sample={'kind': kind, 'N': N})
            before = snapshot(o)
            ok, c = guard(b, 'copy_' + kind, lambda: o.copy(), {'kind': kind})
            if not ok:
                continue
            if type(c) is not type(o) or not snap_eq(snapshot(c), before):
                b.fail('copy_faithful_' + kind, 'copy of %s differs from the original (fields/phases/coefficients/rank/compiled maps)' % kind, {'kind': kind, 'N': N})
                continue
            if shares(c, o):
                b.fail('copy_shares_' + kind, 'copy of %s shares array memory with the original' % kind, {'kind': kind})
            for a in arrays_of(c):
                if a.size:
                    a.flat[0] = a.flat[0] + 1
            if not snap_eq(snapshot(o), before):
                b.fail('copy_independent_' + kind, 'mutating the copy of %s changed the original' % kind, {'kind': kind})
        # a copied circuit and its original are independent under STRUCTURAL mutation too: extending one of them (gates that slide back
        # into earlier layers included) leaves the other's forward and backward action unchanged, and the two share no layer object
        for cls_name, mk in (('CliffordCircuit', lambda: pcirc.CliffordCircuit(N)), ('Circuit', lambda: pcirc.Circuit(N))):
            b.case(sample={'kind': cls_name + ' copy, structural', 'N': N})
            try:
                c0 = mk()
                for _k in range(int(rng.integers(2, 6))):
                    c0.take(random_gate(rng, N)[0])
                if not hasattr(c0, 'copy'):
                    continue
                probe = PL(gens.bits(rng, 4, 2 * N), rng.integers(0, 4, 4))

                def action(c_):
                    f_ = c_.forward(probe.copy()); k_ = c_.backward(probe.copy())
                    return [f_.gs.copy(), f_.ps % 4, k_.gs.copy(), k_.ps % 4]

                def layers(c_):
                    ids, l_ = set(), c_.first_layer
                    while l_ is not None:
                        ids.add(id(l_)); l_ = l_.next_layer
                    l_ = c_.last_layer
                    while l_ is not None:
                        ids.add(id(l_)); l_ = l_.prev_layer
                    return ids
                for who in ('copy', 'original'):
                    orig = c0.copy()
                    cp = orig.copy()
                    if layers(orig) & layers(cp):
                        b.fail('copy_shares_layers_' + cls_name, 'a copied %s reaches layer objects of the original (forward or backward chain)' % cls_name, {'N': N})
                        break
                    a_orig, a_cp = action(orig), action(cp)
                    victim, other = (cp, orig) if who == 'copy' else (orig, cp)
                    for _k in range(3):
                        victim.take(random_gate(rng, N)[0])
                    kept = action(other)
                    want = a_orig if who == 'copy' else a_cp
                    if not all(np.array_equal(x, y) for x, y in zip(kept, want)):
                        b.fail('copy_structural_%s_%s' % (cls_name, who), 'extending the %s of a %s changed the action of the other one' % (who, cls_name), {'N': N})
                        break
            except Exception as e:          # noqa
                b.fail('copy_structural_%s.raises' % cls_name, repr(e)[:200], {'N': N})
        # queries: receiver and arguments unchanged
        st = mk_state(gs, ps, r)
        pure = mk_state(gs, ps, 0)
        other = mk_state(*gens.rand_tableau(rng, N), int(rng.integers(0, N + 1)))
        obs = PL(gens.bits(rng, 3, 2 * N), 2 * rng.integers(0, 2, 3))
        poly = rand_poly(rng, N, 3)
        m1, m2 = CM(gm, pm), CM(*gens.state_to_map_order(*gens.rand_tableau(rng, N)))
        one = P(gens.bits(rng, 2 * N) | np.eye(1, 2 * N, 0, dtype=np.int64)[0], 0)
        queries = [
            ('expect(list)', st, [obs], lambda: st.expect(obs)),
            ('expect(poly)', st, [poly], lambda: st.expect(poly)),
            ('expect(state)', pure, [other], lambda: pure.expect(other)),
            ('entropy', st, [], lambda: st.entropy(list(range(max(1, N // 2))))),
            ('sample', st, [], lambda: st.sample(3)),
            ('get_prob', pure, [], lambda: pure.get_prob(np.zeros(N, dtype=np.int64))),
            ('density_matrix', st, [], lambda: st.density_matrix),
            ('to_map', st, [], lambda: st.to_map()),
            ('to_state', m1, [], lambda: m1.to_state()),
            ('compose', m1, [m2], lambda: m1.compose(m2)),
            ('inverse', m1, [], lambda: m1.inverse()),
            ('repr', st, [], lambda: (repr(st), repr(m1), repr(poly))),
            ('tokenize', st, [], lambda: st.tokenize()),
            ('stabilizers', st, [], lambda: st.stabilizers),
            ('stabilizer_state(list)', obs, [], lambda: pc.stabilizer_state(PL(st.gs[st.r:N].copy(), st.ps[st.r:N].copy())) if st.r < N else None),
            ('diagonalize(pauli)', one, [], lambda: pcirc.diagonalize(one)),
            ('diagonalize(state)', pure, [], lambda: pcirc.diagonalize(pure)),
            ('to_qutip', st, [], lambda: st.to_qutip()),
        ]
        for name, recv, args, f in queries:
            b.case(sample={'query': name, 'N': N})
            sn = [snapshot(recv)] + [snapshot(a) for a in args]
            ok, _ = guard(b, 'query_' + name, f, {'query': name, 'N': N})
            if not ok:
                continue
            now = [snapshot(recv)] + [snapshot(a) for a in args]
            if not all(snap_eq(x, y) for x, y in zip(sn, now)):
                b.fail('query_side_effect_' + name, 'query %s changed its receiver or an argument' % name, {'query': name, 'N': N})
        # in-place operations never change their arguments
        g = P(gens.bits(rng, 2 * N), 2)
        l_ = PL(gens.bits(rng, 3, 2 * N), rng.integers(0, 4, 3))
        for name, args, f in (('rotate_by', [g], lambda: l_.rotate_by(g)), ('transform_by', [m1], lambda: l_.transform_by(m1)),
                              ('measure', [obs], lambda: st.measure(obs)), ('gate.forward', [gate], lambda: gate.forward(l_)),
                              ('state.rotate_by', [g], lambda: st.rotate_by(g)), ('state.transform_by', [m2], lambda: st.transform_by(m2))):
            b.case()
            sn = [snapshot(a) for a in args]
            ok, _ = guard(b, 'inplace_' + name, f, {'op': name})
            if ok and not all(snap_eq(x, snapshot(a)) for x, a in zip(sn, args)):
                b.fail('inplace_changes_argument_' + name, 'in-place operation %s changed its argument' % name, {'op': name, 'N': N})
    return b.result()


REGISTRY['c17_copies'] = c17_copies


# ------------------------------------------------------------------------------------------ C18
def c18_diagonalize(run, Nmax=3, hams=40, big=150):
    rng = np.random.default_rng(run.seed)
    b = B('all non-identity strings x sign x all i0 x causal on/off for N <= %d; 12 random pure states per N; %d commuting-term Hamiltonians and %d arbitrary ones (N <= 3, dense) and %d commuting-term ones on N = 4..6 (term-wise) for SBRG' % (Nmax, hams, hams // 2, big), exhaustive=False)
    for N in range(1, Nmax + 1):
        for g in O.all_strings(N):
            if not g.any():
                continue
            for pg in (0, 2):
                for i0 in range(N):
                    for causal in (False, True):
                        inp = {'P': lst(g), 'sign': pg, 'i0': i0, 'causal': causal}
                        if causal and not g[2 * i0:].any():
                            continue      # nothing supported on qubits >= i0
                        b.case(sample=inp)
                        op = P(g.copy(), pg)
                        ok, circ = guard(b, 'diagonalize', lambda: pcirc.diagonalize(op, i0, causal=causal), inp)
                        if not ok:
                            continue
                        if not ((op.g == g).all() and op.p == pg):
                            b.fail('diagonalize_arg', 'diagonalize changed its argument', inp)
                        res = P(g.copy(), pg)
                        circ.forward(res)
                        want = zstring(N, i0)
                        if causal:
                            if not ((res.g[2 * i0:] == want[2 * i0:]).all() and (res.g[:2 * i0] == g[:2 * i0]).all() and res.p in (0, 2)):
                                b.fail('diagonalize_causal', 'causal circuit does not map the part on qubits >= i0 to Z_i0 / touches earlier qubits', inp)
                            for layer in circ.layers_forward():
                                for gate in layer.gates:
                                    if min(gate.qubits) < i0:
                                        b.fail('diagonalize_causal_support', 'causal circuit acts on a qubit before i0', inp)
                        elif not ((res.g == want).all() and res.p in (0, 2)):
                            b.fail('diagonalize_pauli', 'circuit maps the operator to (%s,%d), not +-Z on qubit %d' % (lst(res.g), res.p, i0), inp)
        for gs, ps in tableaux(N, rng, 12)[:24]:
            st = mk_state(gs, ps, 0)
            inp = state_json(st)
            b.case()
            ok, circ = guard(b, 'diagonalize_state', lambda: pcirc.diagonalize(st), inp)
            if not ok:
                continue
            w = mk_state(gs, ps, 0)
            circ.forward(w)
            if not O.eq(O.rho(w), basis_projector([0] * N)):
                b.fail('diagonalize_state', 'circuit does not map the state to |0...0>', inp)
            z = pc.zero_state(N)
            circ.backward(z)
            if not O.eq(O.rho(z), O.rho(st)):
                b.fail('diagonalize_state_backward', 'backward pass does not re-encode the state', inp)
    # SBRG
    for k in range(hams + hams // 2):
        N = int(rng.integers(1, 4))
        commuting = k < hams
        L = int(rng.integers(1, 5))
        if commuting:
            terms = [g for g, _ in commuting_obs(rng, N, L) if g.any()]
        else:
            terms = [gens.bits(rng, 2 * N) for _ in range(L)]
            terms = [g for g in terms if g.any()]
        keys = {tuple(t) for t in terms}
        terms = [np.array(t) for t in keys]
        if not terms:
            continue
        cs = np.round(rng.normal(size=len(terms)), 3) + 0.1 * np.sign(rng.normal(size=len(terms)))
        H = pa.PauliPolynomial(np.array(terms), np.zeros(len(terms), dtype=np.int64)).set_cs(cs.astype(complex))
        inp = {'H': poly_json(H), 'commuting': commuting}
        b.case(sample=inp)
        H0 = poly_dense(H)
        ok, res = guard(b, 'SBRG', lambda: pcirc.SBRG(H), inp)
        if not ok:
            continue
        heff, circ = res
        if len(heff) and not (heff.gs[:, 0::2] == 0).all():
            b.fail('SBRG_diagonal', 'effective Hamiltonian contains a non I/Z string', inp)
        if not O.eq(poly_dense(H), H0):
            b.fail('SBRG_arg', 'SBRG changed its argument', inp)
        if commuting:
            Hc = H.copy()
            circ.forward(Hc)
            if not np.allclose(poly_dense(Hc), poly_dense(heff) if len(heff) else 0 * H0, atol=1e-7):
                b.fail('SBRG_exact', 'commuting Hamiltonian: circuit does not map H onto heff', inp)
            elif not np.allclose(np.sort(np.linalg.eigvalsh(H0)), np.sort(np.linalg.eigvalsh(poly_dense(heff) if len(heff) else 0 * H0)), atol=1e-7):
                b.fail('SBRG_spectrum', 'spectrum not preserved', inp)
    # SBRG exactness on larger registers (no dense matrices: the two polynomials are compared term by term)
    def termdict(poly):
        d = {}
        for g, p_, c in zip(poly.gs, poly.ps, poly.cs):
            k = tuple(int(x) for x in g)
            d[k] = d.get(k, 0) + complex(c) * 1j ** int(p_)
        return {k: v for k, v in d.items() if abs(v) > 1e-9}
    for k in range(big):
        N = int(rng.integers(4, 7))
        L = int(rng.integers(2, 8))
        terms = {tuple(g) for g, _ in commuting_obs(rng, N, L) if g.any()}
        terms = [np.array(t) for t in terms]
        if not terms:
            continue
        cs = np.round(rng.normal(size=len(terms)), 3) + 0.1 * np.sign(rng.normal(size=len(terms)))
        H = pa.PauliPolynomial(np.array(terms), np.zeros(len(terms), dtype=np.int64)).set_cs(cs.astype(complex))
        inp = {'H': poly_json(H), 'commuting': True, 'N': N}
        b.case(sample=inp)
        ok, res = guard(b, 'SBRG', lambda: pcirc.SBRG(H), inp)
        if not ok:
            continue
        heff, circ = res
        if len(heff) and not (heff.gs[:, 0::2] == 0).all():
            b.fail('SBRG_diagonal', 'effective Hamiltonian contains a non I/Z string', inp)
        Hc = H.copy()
        circ.forward(Hc)
        d1, d2 = termdict(Hc), (termdict(heff) if len(heff) else {})
        if set(d1) != set(d2) or any(abs(d1[k_] - d2[k_]) > 1e-7 for k_ in d1):
            b.fail('SBRG_exact', 'commuting Hamiltonian (N=%d): circuit does not map H onto heff' % N, inp)
    return b.result()


REGISTRY['c18_diagonalize'] = c18_diagonalize


# ------------------------------------------------------------------------------------------ C19
def c19_sampling(run, Nmax=3, count=25):
    rng = np.random.default_rng(run.seed)
    b = B('N <= %d, %d random tableaux (all 24 for N=1) x all ranks: 40 sampled group elements each, density-matrix expansion, classical-shadow snapshots with on-site / global / fixed circuits' % (Nmax, count))
    from pyclifford import device as pdev
    for N in range(1, Nmax + 1):
        for gs, ps in tableaux(N, rng, count):
            for r in range(N + 1):
                st = mk_state(gs, ps, r)
                R = O.rho(st)
                inp = state_json(st)
                ok, sm = guard(b, 'sample', lambda: st.sample(40), inp)
                if ok:
                    seen = set()
                    for g, p in zip(sm.gs, sm.ps):
                        b.case(sample={'state': inp, 'sampled': [lst(g), int(p)]})
                        if abs(np.trace(R @ O.dense(g, p)) - 1) > 1e-9:
                            b.fail('sample_member', 'sampled operator is not a stabilizer-group element with the right sign', {'state': inp, 'op': [lst(g), int(p)]})
                        seen.add(tuple(g))
                    if N - r >= 1 and len(seen) < 2:
                        b.fail('sample_spread', '40 samples from a group of size %d are all equal' % 2 ** (N - r), inp)
                ok, dm = guard(b, 'density_matrix', lambda: st.density_matrix, inp)
                b.case()
                if ok:
                    keys = [tuple(g) for g in dm.gs]
                    wts = dm.cs * (1j ** dm.ps)
                    if len(keys) != 2 ** (N - r) or len(set(keys)) != len(keys) or not np.allclose(np.abs(wts), 2.0 ** -N) or not O.eq(poly_dense(dm), R):
                        b.fail('density_matrix', 'density_matrix does not list every group element once with weight 2^-N', inp)
        # classical shadows
        for kind in ('onsite', 'global', 'fixed', 'fixed', 'fixed_compiled'):
            gs, ps = gens.rand_tableau(rng, N)
            base = mk_state(gs, ps, int(rng.integers(0, N + 1)))
            snap0 = state_json(base)
            R = O.rho(base)
            if kind == 'onsite':
                circ = pcirc.onsite_rcc(N)
            elif kind == 'global':
                circ = pcirc.global_rcc(N)
            else:
                circ = pcirc.CliffordCircuit(N)
                for _ in range(3):
                    circ.take(random_gate(rng, N)[0])
                if kind == 'fixed_compiled':
                    circ.compile()
            ok, shots = guard(b, 'snapshots', lambda: list(pdev.ClassicalShadow(base, circ).snapshots(6)), {'kind': kind, 'state': snap0})
            if not ok:
                continue
            for si, s in enumerate(shots):
                b.case(sample={'kind': kind, 'N': N})
                okT, why = O.tableau_ok(s.gs, s.ps, s.r)
                if not okT:
                    b.fail('snapshot_valid', 'snapshot is not a valid state: ' + why, {'kind': kind})
                    continue
                if np.trace(O.rho(s) @ R).real < 1e-12:
                    b.fail('snapshot_overlap', 'snapshot has zero overlap with the measured state', {'kind': kind, 'state': snap0, 'snapshot': state_json(s)})
                if kind.startswith('fixed'):
                    # stabilized up to sign by the back-evolved measurement basis U^-1 Z_i U of the (deterministic) circuit
                    for i in range(N):
                        zi = P(zstring(N, i), 0)
                        circ.backward(zi)
                        x = np.asarray(s.expect(PL(np.array([zi.g]), np.array([zi.p])))).ravel()[0]
                        if abs(abs(x) - 1) > 1e-9:
                            b.fail('snapshot_basis', 'snapshot #%d is not stabilized (up to sign) by the back-evolved Z_%d of the measurement circuit' % (si, i),
                                   {'kind': kind, 'state': snap0, 'snapshot': state_json(s), 'index': si})
                            break
                if kind == 'onsite':
                    for i in range(N):
                        if int(s.entropy([i])) != 0:
                            b.fail('snapshot_onsite_product', 'snapshot of an on-site random circuit is entangled across qubit %d' % i, {'kind': kind, 'snapshot': state_json(s)})
                            break
            if state_json(base) != snap0:
                b.fail('snapshot_base_changed', 'taking snapshots changed the base state', {'kind': kind})
    return b.result()


REGISTRY['c19_sampling'] = c19_sampling


# ------------------------------------------------------------------------------------------ C20
LETTERS = {(0, 0): 'I', (1, 0): 'X', (1, 1): 'Y', (0, 1): 'Z'}
CODES = {(0, 0): 0, (1, 0): 1, (1, 1): 2, (0, 1): 3}
PREFIX = {0: ['', '+'], 1: ['i', '+i'], 2: ['-'], 3: ['-i']}
PCODE = {0: 4, 1: 6, 2: 5, 3: 7}


def c20_formats(run, Nmax=3):
    rng = np.random.default_rng(run.seed)
    b = B('all 4^N strings x 4 phases x all accepted formats (string prefixes, code lists 0-7, numpy arrays, dicts with N), N <= %d; print-parse, tokenize-parse; indexing by int / slice / bool mask / index array; neg and multiplication by units' % Nmax, exhaustive=True)
    for N in range(1, Nmax + 1):
        S = O.all_strings(N)
        for g in S:
            letters = ''.join(LETTERS[(int(g[2 * k]), int(g[2 * k + 1]))] for k in range(N))
            codes = [CODES[(int(g[2 * k]), int(g[2 * k + 1]))] for k in range(N)]
            for p in range(4):
                forms = [('str:' + pre, pre + letters) for pre in PREFIX[p]]
                forms += [('codes', [PCODE[p]] + codes), ('array', np.array([PCODE[p]] + codes))]
                if p == 0:
                    forms += [('codes_nophase', list(codes)), ('tuple', tuple(codes)),
                              ('dict', {k: c for k, c in enumerate(codes) if c})]
                for fname, arg in forms:
                    inp = {'format': fname, 'arg': arg if not isinstance(arg, np.ndarray) else lst(arg), 'N': N}
                    b.case(sample=inp)
                    ok, q = guard(b, 'parse_' + fname.split(':')[0], (lambda: pa.pauli(arg, N)) if fname == 'dict' else (lambda: pa.pauli(arg)), inp)
                    if ok and not (len(q.g) == 2 * N and (np.asarray(q.g) == g).all() and int(q.p) == p):
                        b.fail('parse', 'pauli(%r) = (%s,%s), expected (%s,%d)' % (arg if not isinstance(arg, np.ndarray) else lst(arg), lst(q.g), q.p, lst(g), p), inp)
                    if fname != 'dict':
                        # the same description with the qubit number given explicitly (keyword and positional), and inside paulis(..., N=N)
                        for how, f_ in (('N=', lambda: pa.pauli(arg, N=N)), ('positional N', lambda: pa.pauli(arg, N)),
                                        ('paulis(N=)', lambda: pa.paulis(arg, arg, N=N)[1])):
                            b.case()
                            ok2, q2 = guard(b, 'parse_N_' + fname.split(':')[0], f_, dict(inp, how=how))
                            if ok2 and not (len(q2.g) == 2 * N and (np.asarray(q2.g) == g).all() and int(q2.p) == p):
                                b.fail('parse_explicit_N', 'pauli(%r, %s) = (%s,%s), expected (%s,%d)' % (arg if not isinstance(arg, np.ndarray) else lst(arg), how, lst(q2.g), q2.p, lst(g), p), dict(inp, how=how))
                o = P(g, p)
                b.case()
                back = pa.pauli(repr(o).replace(' ', ''))
                if not ((back.g == g).all() and back.p == p):
                    b.fail('print_parse', 'parsing the printed form %r gives (%s,%d)' % (repr(o), lst(back.g), back.p), {'g': lst(g), 'p': p})
                tok = o.tokenize()[0]
                back = pa.pauli(np.concatenate([tok[-1:], tok[:-1]]))
                if not ((back.g == g).all() and back.p == p):
                    b.fail('tokenize_parse', 'parsing the tokens %s gives (%s,%d)' % (lst(tok), lst(back.g), back.p), {'g': lst(g), 'p': p})
                if o.N != N or o.weight() != sum(1 for k in range(N) if g[2 * k] or g[2 * k + 1]):
                    b.fail('N_weight', 'N or weight wrong', {'g': lst(g)})
                for c, dp in ((1, 0), (1j, 1), (-1, 2), (-1j, 3)):
                    q = c * o
                    if not ((q.g == g).all() and q.p == (p + dp) % 4 and type(q) is pa.Pauli):
                        b.fail('rmul_unit', '%r * Pauli gives phase %r' % (c, q.p), {'g': lst(g), 'p': p, 'c': str(c)})
                q = -o
                if not ((q.g == g).all() and q.p == (p + 2) % 4):
                    b.fail('neg', 'negation wrong', {'g': lst(g), 'p': p})
        # lists
        L = min(len(S), 6)
        sel = [S[i] for i in rng.choice(len(S), L, replace=False)]
        phs = rng.integers(0, 4, L)
        strs = [PREFIX[int(p)][0] + ''.join(LETTERS[(int(g[2 * k]), int(g[2 * k + 1]))] for k in range(N)) for g, p in zip(sel, phs)]
        lst_ = pa.paulis(*strs)
        b.case()
        if not ((lst_.gs == np.array(sel)).all() and (lst_.ps == phs).all() and len(lst_) == L and lst_.L == L and lst_.N == N):
            b.fail('paulis', 'paulis(strings) wrong', {'strs': strs})
        l2 = pa.paulis(strs)
        l3 = pa.paulis([P(g, p) for g, p in zip(sel, phs)])
        if not (same_list(l2, lst_) and same_list(l3, lst_)):
            b.fail('paulis_formats', 'equivalent descriptions construct different lists', {'strs': strs})
        if repr(lst_).replace(' ', '').split('\n') != [s if s[0] in '+-i' else '+' + s for s in [repr(P(g, p)).replace(' ', '') for g, p in zip(sel, phs)]] and \
                repr(lst_).replace(' ', '').split('\n') != [repr(P(g, p)).replace(' ', '') for g, p in zip(sel, phs)]:
            b.fail('repr_list', 'list repr is not the per-operator repr', {'strs': strs})
        for k in range(L):
            b.case()
            it = lst_[k]
            if not ((it.g == sel[k]).all() and it.p == phs[k]):
                b.fail('getitem_int', 'list[%d] wrong' % k, {'strs': strs})
            it = lst_[np.int64(k)]
            if not ((it.g == sel[k]).all() and it.p == phs[k]):
                b.fail('getitem_npint', 'list[np.int64(%d)] wrong' % k, {'strs': strs})
        for sl in (slice(1, None), slice(None, -1), slice(None, None, 2), slice(L, None)):
            b.case()
            it = lst_[sl]
            if not ((it.gs == np.array(sel)[sl]).all() and (it.ps == phs[sl]).all()):
                b.fail('getitem_slice', 'list[%r] wrong' % (sl,), {'strs': strs})
        mk = rng.integers(0, 2, L).astype(bool)
        it = lst_[mk]
        b.case()
        if not ((it.gs == np.array(sel)[mk]).all() and (it.ps == phs[mk]).all()):
            b.fail('getitem_mask', 'list[bool mask] wrong', {'strs': strs})
        ix = rng.integers(0, L, 4)
        it = lst_[ix]
        if not ((it.gs == np.array(sel)[ix]).all() and (it.ps == phs[ix]).all()):
            b.fail('getitem_index_array', 'list[index array] wrong', {'strs': strs})
        nl = -lst_
        il = 1j * lst_
        if not ((nl.gs == lst_.gs).all() and (nl.ps == (phs + 2) % 4).all() and (il.ps == (phs + 1) % 4).all()):
            b.fail('list_neg_rmul', 'list negation / multiplication by i wrong', {'strs': strs})
        w = lst_.weight()
        if not (np.asarray(w) == [sum(1 for k in range(N) if g[2 * k] or g[2 * k + 1]) for g in sel]).all():
            b.fail('list_weight', 'list weight wrong', {'strs': strs})
        tk = lst_.tokenize()
        want = np.array([[CODES[(int(g[2 * k]), int(g[2 * k + 1]))] for k in range(N)] + [PCODE[int(p)]] for g, p in zip(sel, phs)])
        if not (np.asarray(tk) == want).all():
            b.fail('list_tokenize', 'token array wrong', {'strs': strs})
    return b.result()


REGISTRY['c20_formats'] = c20_formats
