"""Dense-matrix oracle (independent of pyclifford): Pauli strings, rotations, stabilizer density matrices,
projections, entropies.  Only used by bounded stand-ins (N <= 4).  Matrices are numpy complex; all entries are
dyadic Gaussian rationals, so float arithmetic is exact at these sizes (comparisons use a 1e-9 tolerance)."""
import itertools
import numpy as np

I2 = np.eye(2, dtype=complex)
X = np.array([[0, 1], [1, 0]], dtype=complex)
Z = np.array([[1, 0], [0, -1]], dtype=complex)
Y = 1j * X @ Z
SIG = {(0, 0): I2, (1, 0): X, (1, 1): Y, (0, 1): Z}
TOL = 1e-9


def dense(g, p=0):
    g = [int(v) for v in g]
    N = len(g) // 2
    M = np.array([[1]], dtype=complex)
    for k in range(N):
        M = np.kron(M, SIG[(g[2 * k], g[2 * k + 1])])
    return (1j ** (int(p) % 4)) * M


def eq(A, B):
    return A.shape == B.shape and np.allclose(A, B, atol=TOL)


def rot_U(g, p):
    G = dense(g, p)
    return (np.eye(G.shape[0]) + 1j * G) / np.sqrt(2)


def conj(U, P):
    """U^dagger P U"""
    return U.conj().T @ P @ U


def all_strings(N):
    return [np.array(b, dtype=np.int64) for b in itertools.product([0, 1], repeat=2 * N)]


def rho_from_rows(gs, ps, r):
    """rho = 2^-r prod_{a in [r,N)} (1 + P_a)/2   from tableau data"""
    N = gs.shape[1] // 2
    D = 2 ** N
    R = np.eye(D, dtype=complex)
    for i in range(r, N):
        R = R @ (np.eye(D) + dense(gs[i], ps[i])) / 2
    return R / 2 ** r


def rho(state):
    return rho_from_rows(np.asarray(state.gs), np.asarray(state.ps), int(state.r))


def is_density_matrix(R, rank_log2=None):
    if not eq(R, R.conj().T):
        return False, 'not hermitian'
    if abs(np.trace(R) - 1) > 1e-9:
        return False, 'trace %r' % np.trace(R)
    w = np.linalg.eigvalsh((R + R.conj().T) / 2)
    if w.min() < -1e-9:
        return False, 'negative eigenvalue %r' % w.min()
    if rank_log2 is not None:
        rk = int((w > 1e-9).sum())
        if rk != 2 ** rank_log2:
            return False, 'rank %d, bookkeeping says 2^%d' % (rk, rank_log2)
    return True, ''


def vn_entropy(R):
    w = np.linalg.eigvalsh((R + R.conj().T) / 2)
    w = w[w > 1e-12]
    return float(-(w * np.log2(w)).sum())


def ptrace(R, keep, N):
    """partial trace keeping the qubits in `keep` (sorted list)"""
    keep = sorted(int(k) for k in keep)
    T = R.reshape([2] * (2 * N))
    out = [q for q in range(N) if q not in keep]
    for q in sorted(out, reverse=True):
        n = T.ndim // 2
        T = np.trace(T, axis1=q, axis2=q + n)
    d = 2 ** len(keep)
    return T.reshape(d, d)


def tableau_ok(gs, ps, r):
    """the tableau invariant of C05, directly from its statement"""
    gs = np.asarray(gs)
    ps = np.asarray(ps)
    if gs.ndim != 2 or gs.shape[0] != gs.shape[1] or gs.shape[0] % 2:
        return False, 'shape %r' % (gs.shape,)
    N = gs.shape[0] // 2
    if not (0 <= r <= N):
        return False, 'r=%r' % r
    if not np.isin(gs, (0, 1)).all():
        return False, 'entries not bits'
    if ps.shape != (2 * N,):
        return False, 'ps shape'
    for a in range(2 * N):
        for b in range(2 * N):
            s = 0
            for k in range(N):
                s += gs[a, 2 * k + 1] * gs[b, 2 * k] - gs[a, 2 * k] * gs[b, 2 * k + 1]
            want = 1 if abs(a - b) == N else 0
            if s % 2 != want:
                return False, 'rows %d,%d: anticommutation %d, expected %d' % (a, b, s % 2, want)
    for a in range(r, N):
        if int(ps[a]) not in (0, 2):
            return False, 'active stabilizer %d has phase %r' % (a, ps[a])
    return True, ''


def symplectic_maps(N, rng=None, count=None):
    """valid Clifford map tables in map order (rows X0,Z0,X1,Z1,...), our own generator.
    N == 1: all 6 symplectic matrices.  Otherwise `count` random ones."""
    out = []
    if N == 1:
        for a in all_strings(1):
            for b in all_strings(1):
                if (a[1] * b[0] - a[0] * b[1]) % 2 == 1:
                    out.append(np.stack([a, b]))
        return out
    from contracts import gens
    for _ in range(count):
        gs, ps = gens.rand_tableau(rng, N)
        gm, _ = gens.state_to_map_order(gs, ps)
        out.append(gm)
    return out


def map_images_ok(gs, N):
    """canonical commutation relations among the 2N images of a map table"""
    for a in range(2 * N):
        for b in range(2 * N):
            s = 0
            for k in range(N):
                s += gs[a, 2 * k + 1] * gs[b, 2 * k] - gs[a, 2 * k] * gs[b, 2 * k + 1]
            want = 1 if (a // 2 == b // 2 and a != b) else 0
            if s % 2 != want:
                return False
    return True


def apply_map_dense(gm, pm, g, p):
    """oracle image of Pauli (g,p) under the map with table (gm, pm):  sigma[g] = i^{x.z} prod_k X_k^{x_k} Z_k^{z_k}
    is sent to i^{x.z} prod_k img(X_k)^{x_k} img(Z_k)^{z_k}  (ordered product, k increasing, X before Z)."""
    N = len(g) // 2
    M = np.eye(2 ** (gm.shape[1] // 2), dtype=complex)
    ph = 0
    for k in range(N):
        if g[2 * k]:
            M = M @ dense(gm[2 * k], pm[2 * k])
        if g[2 * k + 1]:
            M = M @ dense(gm[2 * k + 1], pm[2 * k + 1])
        ph += int(g[2 * k]) * int(g[2 * k + 1])
    return (1j ** ((int(p) + ph) % 4)) * M


def to_pauli(M):
    """inverse of dense(): returns (g, p) if M is a phase times a Pauli string, else None"""
    D = M.shape[0]
    N = int(round(np.log2(D)))
    for g in all_strings(N):
        P = dense(g)
        c = np.trace(P.conj().T @ M) / D
        if abs(abs(c) - 1) < 1e-9 and eq(M, c * P):
            for p in range(4):
                if abs(c - 1j ** p) < 1e-9:
                    return g, p
    return None
