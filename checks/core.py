"""Orchestration of one property check: deductive obligations (engine A), bounded stand-ins, failing-input
search + replay files, known findings, evidence."""
import importlib
import inspect
import json
import os
import sys
import time
import traceback

ROOT = os.path.dirname(os.path.dirname(os.path.abspath(__file__)))
OUT = os.environ.get('VERIF_OUT_DIR', ROOT)      # development only: seed regression runs write their evidence / replay files elsewhere
sys.path.insert(0, ROOT)
REPO = os.environ.get('PYCLIFFORD_REPO', '/repo')
if REPO not in sys.path:
    sys.path.insert(0, REPO)

import numpy as np   # noqa: E402

# numpy >= 2 removed these aliases; pyclifford still uses them (finding F2).  They are aliased ONLY when
# the environment asks for it, so that the defect itself stays observable.
if os.environ.get('PYVC_NUMPY_ALIASES') == '1':
    if not hasattr(np, 'complex_'):
        np.complex_ = np.complex128
    if not hasattr(np, 'int'):
        np.int = int

from pyvc import driver, solve, concrete   # noqa: E402

ASSUMPTIONS_COMMON = [
    'VC generator (pyvc) and its encoding of the Python/numpy fragment are trusted; mitigated by native replay of every failure, mutant self-test and run-time contract monitor',
    'Python ints treated as mathematical integers: no int64 overflow for array sizes < 2^31',
    '% and // only by positive literal constants (SMT mod/div == Python floor semantics there)',
    'numba @njit compiles the fragment with Python/numpy semantics (decorator dropped by the extraction); checked dynamically by running the compiled kernel against its contract, not proved',
    'distinct array parameters of a kernel do not alias each other (public-API precondition)',
    'strings and lists of one-character strings are modelled as arrays of code points: a character compares equal only to a one-character string with the same code point and never to a number (str.__eq__); multi-character list elements are outside the model',
    'SMT solvers z3 5.1 / z3 4.8.12 are sound; recursive spec functions are uninterpreted for the solver and unfolded one level per occurrence (unsat answers stay sound, sat answers are only candidates and are replayed natively)',
]


def load_known():
    p = os.path.join(ROOT, 'known_findings.json')
    if not os.path.exists(p):
        return []
    return json.load(open(p))


def native_callable(key):
    filekey, qual = key.split('::')
    qual = qual.split('#')[0]
    modname = filekey[:-3].replace('/', '.')
    mod = importlib.import_module(modname)
    obj = mod
    parts = qual.split('.')
    for i, part in enumerate(parts):
        if inspect.isfunction(obj) or hasattr(obj, 'py_func'):
            # a function defined inside a function cannot be reached from outside: its `def` is taken, unchanged, from the source of
            # the enclosing function of the imported module (the tree under test) and compiled in that module's namespace (it refers to
            # itself and to module-level names only; a closure over locals of the enclosing function would fail here, visibly)
            import ast as _ast
            import textwrap
            outer = getattr(obj, 'py_func', obj)
            tree = _ast.parse(textwrap.dedent(inspect.getsource(outer)))
            node = tree.body[0]
            for p_ in parts[i:]:
                found = [n for n in node.body if isinstance(n, _ast.FunctionDef) and n.name == p_]
                if not found:
                    raise AttributeError('%s not found inside %s' % (p_, qual))
                node = found[-1]
            ns = dict(vars(mod))
            exec(compile(_ast.Module([node], []), getattr(mod, '__file__', '<nested>'), 'exec'), ns)
            return ns[node.name]
        obj = getattr(obj, part)
    return obj


class Run(object):
    def __init__(self, pid, tier, seed):
        self.pid = pid
        self.tier = tier
        self.seed = seed
        self.t0 = time.time()
        self.lib = None
        self.functions = []        # info dicts of functions under contract
        self.obligations = {}      # oid -> aggregated record
        self.lemma_obligations = {}
        self.bounded = []          # records of bounded stand-ins
        self.violations = []       # dicts {what, replay}
        self.known_hits = []
        self.checker_errors = []
        self.samples = []
        self.assumptions = list(ASSUMPTIONS_COMMON)
        self.trusted = []
        self.known = [k for k in load_known() if k.get('property') == pid]
        self.rng = np.random.default_rng(seed)
        self.ev = None
        self.solver_time = 0.0
        self.level = 'other'
        self.explanation = ''
        self.monitored = {}
        self.selftest = None
        self.lemmas_checked = set()
        self.cross = {}
        self.monitor_failures = {}
        self.replay_dir = os.path.join(OUT, 'replay')
        os.makedirs(self.replay_dir, exist_ok=True)

    # ------------------------------------------------------------------ deductive part
    def library(self):
        if self.lib is None:
            self.lib = driver.load_library()
            self.ev = concrete.Evaluator(self.lib.preds)
        return self.lib

    @staticmethod
    def lemma_names_in(hints):
        out = []
        for h in hints:
            if not isinstance(h, (tuple, list)) or not h:
                continue
            if h[0] in ('lemma', 'lemma?') and len(h) > 1 and isinstance(h[1], str):
                out.append(h[1])
            elif h[0] == 'forall_lemma':
                out += [x for x in h[1:] if isinstance(x, str)][-1:] if len(h) != 6 else [h[4]]
            for x in h[1:]:
                if isinstance(x, (list, tuple)) and x and isinstance(x[0], (list, tuple)):
                    out += Run.lemma_names_in(x)
        return out

    def deductive(self, keys=(), lemmas=(), timeout_s=None, fuel=1):
        """The listed functions AND, transitively, every function whose contract their proofs rely on at a modular call, and every
        ghost lemma their ghost code instantiates: a defect inside a callee is noticed only at the callee's own obligations, so those
        obligations belong to every property that depends on the callee."""
        lib = self.library()
        timeout_s = timeout_s or (30 if self.tier == 'quick' else 90)
        all_vcs = []
        owner = []
        keys = list(keys)
        lemmas = list(lemmas)
        # everything the ledger pins for this property was found by this closure on the unchanged tree; it is generated again from the
        # ledger, so that a function that has left the fragment (and therefore names no callees / lemmas any more) does not take the
        # obligations of its callees and lemmas down with it
        try:
            for oid in json.load(open(os.path.join(ROOT, 'contracts', 'LEDGER.json'))).get(self.pid, []):
                parts = oid.split('::')
                if parts[0] == 'lemma':
                    if parts[1] in lib.lemmas and parts[1] not in lemmas:
                        lemmas.append(parts[1])
                elif len(parts) >= 2 and '::'.join(parts[:2]) in lib.contracts and '::'.join(parts[:2]) not in keys:
                    keys.append('::'.join(parts[:2]))
        except (OSError, ValueError):
            pass
        seen_keys = set()
        qi = 0
        while qi < len(keys):
            key = keys[qi]
            qi += 1
            if key in seen_keys:
                continue
            seen_keys.add(key)
            try:
                vcs, info = driver.gen_function_vcs(lib, key)
            except Exception as e:      # contract error or engine bug: a checker problem, never a verdict
                self.checker_errors.append('%s: %s\n%s' % (key, e, traceback.format_exc()))
                continue
            for k2 in info.get('callees', []):
                if k2 not in seen_keys and k2 not in keys:
                    keys.append(k2)
            for l2 in info.get('lemmas', []):
                if l2 not in lemmas:
                    lemmas.append(l2)
            self.functions.append(info)
            if info['status'] in ('missing', 'out-of-fragment'):
                # the function left the verifiable fragment: its ledgered obligations are undischarged
                oid = '%s::extract' % key
                self.obligations[oid] = {'n': 1, 'ok': 0, 'time': 0.0, 'backends': [], 'discharged': False,
                                         'failed': [{'result': info['status'], 'line': None, 'note': info.get('error', ''),
                                                     'attempts': [], 'output': info.get('error', '')}], 'key': key}
                continue
            if info['status'] in ('trusted', 'bounded_only'):
                self.trusted.append('%s: contract %s (not verified deductively)' % (key, info['status']))
                continue
            for vc in vcs:
                all_vcs.append(vc)
                owner.append(key)
        li = 0
        while li < len(lemmas):          # lemmas used inside the proofs of lemmas
            for l2 in self.lemma_names_in(list(lib.lemmas[lemmas[li]].uses) + list(lib.lemmas[lemmas[li]].uses_step)):
                if l2 in lib.lemmas and l2 not in lemmas:
                    lemmas.append(l2)
            li += 1
        for name in lemmas:
            lem = lib.lemmas[name]
            if lem.axiom:
                self.assumptions.append('mathematical bridge lemma `%s` assumed: %s' % (name, lem.axiom))
                continue
            try:
                vcs = driver.gen_lemma_vcs(lib, name)
            except Exception as e:
                self.checker_errors.append('lemma %s: %s\n%s' % (name, e, traceback.format_exc()))
                continue
            for vc in vcs:
                all_vcs.append(vc)
                owner.append('lemma::' + name)
        t = time.time()
        results = solve.discharge(all_vcs, timeout_s=timeout_s, theory=lib.theory, fuel=fuel, cross=(self.tier == 'thorough'))
        for vc, r in zip(all_vcs, results):
            cr = r.get('cross')
            if cr is not None:
                self.cross[cr if cr in ('unsat', 'sat') else 'unknown'] = self.cross.get(cr if cr in ('unsat', 'sat') else 'unknown', 0) + 1
                if cr == 'sat':
                    self.checker_errors.append('solver disagreement on %s: z3 5.1 unsat, z3 4.8.12 sat' % vc.oid)
        obl = driver.aggregate(all_vcs, results)
        own = {}
        for vc, o in zip(all_vcs, owner):
            own[vc.oid] = o
        for oid, rec in obl.items():
            rec['key'] = own[oid]
            self.solver_time += rec['time']
            self.obligations[oid] = rec
        self.monitor([k for k in keys if not k.startswith('lemma')])
        if lemmas:
            from . import lemmacheck
            todo = [n_ for n_ in lemmas if n_ not in self.lemmas_checked]
            self.lemmas_checked.update(todo)
            if todo:
                self.bounded_check('lemma_statements', lambda r_: lemmacheck.run(r_, todo, 40 if self.tier == 'quick' else 200))
        if len(self.samples) < 6:
            for vc in all_vcs[:3]:
                self.samples.append({'obligation': vc.oid, 'goal': str(vc.goal)[:300], 'n_hyps': len(vc.hyps)})

    def monitor(self, keys):
        """run-time contract monitor (assumption check: numba == Python semantics, engine soundness): the real compiled
        function is executed on generated inputs and its contract evaluated natively.  A failure here is a failing input
        against the real code and is reported as such."""
        from contracts import gens
        budget = 60 if self.tier == 'quick' else 400
        for key in keys:
            if key in self.monitored or key not in gens.GENS:
                continue
            c = self.lib.contracts[key]
            try:
                fn = native_callable(key)
            except Exception as e:
                continue      # the extraction already reports a missing function
            n = ok = 0
            rng = np.random.default_rng(self.seed + 1)
            for args in gens.GENS[key](rng, 1):
                n += 1
                if n > budget:
                    break
                try:
                    status, detail = concrete.check_call(self.ev, c, fn, args)
                except Exception as e:
                    status, detail = 'fail', 'exception %r' % (e,)
                if status == 'ok':
                    ok += 1
                elif status == 'fail':
                    self.monitor_failures.setdefault(key, {'args': concrete.to_jsonable(args), 'clause': detail, 'variant': 'compiled', 'tried': n})
                    break
            self.monitored[key] = {'cases': min(n, budget), 'ok': ok}
            if n > 0 and ok == 0 and key not in self.monitor_failures:
                # vacuity guard: not a single generated input satisfied the requires clause
                self.checker_errors.append('vacuity: no generated input satisfies the requires of %s (%d tried)' % (key, min(n, budget)))

    def generator_selftest(self):
        """thorough tier: the verifier must kill a fixed set of kernel mutants (scratch copy, removed afterwards)"""
        from . import selftest
        res = selftest.run(self)
        self.selftest = res
        if res['survived']:
            self.checker_errors.append('generator self-test: mutants survived: %s' % res['survived'])

    # ------------------------------------------------------------------ failing-input search and replay
    def find_failing_input(self, key, budget_s=20):
        from contracts import gens
        lib = self.library()
        c = lib.contracts[key]
        g = gens.GENS.get(key)
        if g is None:
            return None
        try:
            fn = native_callable(key)
        except Exception as e:
            return {'error': 'cannot import %s: %r' % (key, e)}
        t0 = time.time()
        rng = np.random.default_rng(self.seed)
        n = 0
        for args in g(rng, 1):
            n += 1
            if time.time() - t0 > budget_s:
                break
            for variant, f in (('compiled', fn), ('py_func', getattr(fn, 'py_func', None))):
                if f is None:
                    continue
                try:
                    status, detail = concrete.check_call(self.ev, c, f, args)
                except Exception as e:
                    status, detail = 'fail', 'exception in contract evaluation %r' % (e,)
                if status == 'fail':
                    return {'args': concrete.to_jsonable(args), 'clause': detail, 'variant': variant, 'tried': n}
        return None

    def write_replay(self, name, payload):
        path = os.path.join(self.replay_dir, '%s_%s.json' % (self.pid, name.replace('/', '_').replace('::', '.').replace(' ', '_')[:120]))
        payload = dict(payload)
        payload['property'] = self.pid
        with open(path, 'w') as f:
            json.dump(payload, f, indent=1, default=str)
        return path

    def known_match(self, kind, ident, witness_text=''):
        for k in self.known:
            if k.get('status') == 'fixed':
                continue
            if k.get('kind') == kind and k.get('id') == ident:
                w = k.get('witness_contains')
                if w and w not in witness_text:
                    continue
                return k
        return None

    def settle_deductive(self):
        """turn undischarged obligations into violations (with native replay where a failing input is found)"""
        by_key = {}
        for oid, rec in self.obligations.items():
            if not rec['discharged']:
                by_key.setdefault(rec['key'], []).append(oid)
        for key, found in self.monitor_failures.items():
            if key in by_key:
                continue
            path = self.write_replay(key.split('::')[-1] + '_monitor', {'kind': 'deductive', 'function': key, 'failed_obligations': ['run-time contract monitor'],
                                                                         'solver': {}, 'failing_input': found['args'], 'failing_clause': found['clause'], 'variant': found['variant']})
            self.violations.append({'what': '%s: contract violated at run time on a generated input (%s) although its obligations discharge: '
                                            'numba/Python semantic gap or encoding assumption broken' % (key, found['clause']), 'replay': path, 'tail': ''})
        for key, oids in by_key.items():
            if key.startswith('lemma::'):
                self.checker_errors.append('ghost lemma obligations undischarged (independent of /repo): %s' % oids)
                continue
            found = self.monitor_failures.get(key) or self.find_failing_input(key, 20 if self.tier == 'quick' else 60)
            outputs = {oid: self.obligations[oid]['failed'][:2] for oid in oids}
            payload = {'kind': 'deductive', 'function': key, 'failed_obligations': oids, 'solver': outputs}
            if found and 'args' in found:
                payload.update({'failing_input': found['args'], 'failing_clause': found['clause'], 'variant': found['variant']})
                path = self.write_replay(key.split('::')[-1], payload)
                self.violations.append({'what': '%s: obligations %s fail; native replay violates %s' % (key, oids, found['clause']),
                                        'replay': path, 'tail': ''})
            else:
                path = self.write_replay(key.split('::')[-1], payload)
                self.violations.append({'what': '%s: obligations %s no longer discharged' % (key, oids),
                                        'replay': path, 'tail': ' no-failing-input-found'})

    def check_ledger(self):
        p = os.path.join(ROOT, 'contracts', 'LEDGER.json')
        if not os.path.exists(p):
            return
        led = json.load(open(p)).get(self.pid, [])
        # Sites are named by ordinals of calls / loops / ifs / asserts in source order.  An edit that adds or removes an unrelated call
        # in another branch shifts those ordinals without losing any obligation, so the comparison is made on names with the ordinals
        # removed, as multisets: every ledgered obligation must still have a generated counterpart (a lost one is still noticed).
        import collections
        import re

        def norm(o_):
            head_, _, site_ = o_.rpartition('::')
            site_ = re.sub(r'^(loop|if|assert)\d+', r'\1#', site_)
            site_ = re.sub(r'^(call:[^#]+)#i?\d+', r'\1#', site_)
            return head_ + '::' + site_
        def carrier(o_):
            # the obligations that CARRY a property: postconditions, frame conditions, exception clauses, result aliasing, lemma
            # statements.  Obligations at code sites (preconditions of calls the code makes, the code's own assert statements, loop
            # invariants, ghost assertions) support them; how many of those exist is the code's business - an edit that removes an
            # assert statement or a call loses no claim - they only have to be discharged when they are generated.
            if o_.startswith('lemma::'):
                return True
            site_ = o_.rpartition('::')[2]
            return site_.startswith(('post', 'frame', 'raises', 'no_raise', 'safety', 'extract'))
        led = [o_ for o_ in led if carrier(o_)]
        have_n = collections.Counter(norm(o_) for o_ in self.obligations)
        have = set(self.obligations)
        need_n = collections.Counter(norm(o_) for o_ in led)
        missing_norm = {k_: need_n[k_] - have_n.get(k_, 0) for k_ in need_n if need_n[k_] > have_n.get(k_, 0)}
        for oid in led:
            if oid not in have and missing_norm.get(norm(oid), 0) > 0:
                missing_norm[norm(oid)] -= 1
                key = '::'.join(oid.split('::')[:2])
                self.obligations[oid] = {'n': 0, 'ok': 0, 'time': 0.0, 'backends': [], 'discharged': False, 'key': key,
                                         'failed': [{'result': 'not-generated', 'line': None, 'attempts': [],
                                                     'note': 'obligation listed in LEDGER.json was not generated on this tree',
                                                     'output': ''}]}

    # ------------------------------------------------------------------ bounded part
    def bounded_check(self, name, fn, **kw):
        """fn(run, **kw) -> dict(cases=int, nontrivial=int, failures=[{'id','what','input'}], bound=str,
                                 exhaustive=bool, samples=[...])"""
        t = time.time()
        try:
            res = fn(self, **kw)
        except Exception as e:
            self.checker_errors.append('bounded check %s crashed: %r\n%s' % (name, e, traceback.format_exc()))
            return
        res['name'] = name
        res['wall_s'] = round(time.time() - t, 2)
        self.bounded.append(res)
        seen = set()
        for f in res.get('failures', []):
            ident = '%s:%s' % (name, f.get('id', ''))
            if ident in seen:
                continue
            seen.add(ident)
            k = self.known_match('bounded', ident, json.dumps(f.get('input', ''), default=str))
            if k is not None:
                self.known_hits.append((k, f))
                continue
            path = self.write_replay(ident, {'kind': 'bounded', 'check': name, 'failure': concrete.to_jsonable(f)})
            self.violations.append({'what': '%s: %s' % (ident, f.get('what', '')), 'replay': path, 'tail': ''})

    # ------------------------------------------------------------------ finish
    def finish(self, level, explanation, extra_assumptions=()):
        self.check_ledger()
        self.settle_deductive()
        n_obl = len(self.obligations)
        n_dis = sum(1 for o in self.obligations.values() if o['discharged'])
        cases = sum(b.get('cases', 0) for b in self.bounded)
        nontriv = sum(b.get('nontrivial', 0) for b in self.bounded)
        for b in self.bounded:
            for s in b.get('samples', [])[:2]:
                self.samples.append({'bounded': b['name'], 'case': concrete.to_jsonable(s)})
        printed = set()
        for k, f in self.known_hits:
            if k['id'] in printed:
                continue
            printed.add(k['id'])
            print('KNOWN-FINDING: property=%s %s' % (self.pid, k.get('what', k['id'])))
        for v in self.violations:
            print('VIOLATION property=%s replay=%s%s' % (self.pid, v['replay'], v['tail']))
            print('  ' + v['what'][:400])
        for e in self.checker_errors:
            print('CHECKER-ERROR: ' + e[:2000])
        backends = sorted({b for o in self.obligations.values() for b in o['backends']})
        if level == 'proof' and (n_obl == 0 or n_dis != n_obl):
            level = 'other'
        ev = {
            'property_id': self.pid, 'tier': self.tier, 'seed': self.seed, 'level': level,
            'coverage': {
                'obligations': n_obl, 'discharged': n_dis,
                'checker_cmd': './check %s --tier %s' % (self.pid, self.tier),
                'trusted_base': ['pyvc VC generator (/verif/pyvc)', 'z3 5.1.0', 'z3 4.8.12 (fallback)', 'CPython ast', 'numba (semantics of @njit assumed)'] + self.trusted,
                'backends': backends,
                'solver_time_s': round(self.solver_time, 2),
                'functions_under_contract': self.functions,
                'runtime_monitor': self.monitored,
                'generator_selftest': self.selftest,
                'second_backend_crosscheck': self.cross,
                'undischarged': sorted(o for o, r in self.obligations.items() if not r['discharged']),
                'evaluations': max(cases + n_obl, 1),
                'distinct_nontrivial': max(nontriv + n_dis, 0),
                'rule': 'deductive: one obligation per contract clause/site, discharged iff every path VC is unsat; '
                        'bounded: cases enumerated/sampled as described per stand-in, non-trivial as counted by the stand-in',
                'bounded_standins': [{k: b[k] for k in b if k not in ('failures', 'samples')} | {'n_failures': len(b.get('failures', []))} for b in self.bounded],
                'samples': self.samples[:12] or [{'note': 'no samples'}],
                'explanation': explanation,
                'exhaustive': bool(self.bounded) and all(b.get('exhaustive') for b in self.bounded),
                'known_findings_hit': [k['id'] for k, _ in self.known_hits],
            },
            'assumptions': self.assumptions + list(extra_assumptions),
            'wall_s': round(time.time() - self.t0, 2),
            'violations': len(self.violations),
        }
        os.makedirs(os.path.join(OUT, 'evidence'), exist_ok=True)
        with open(os.path.join(OUT, 'evidence', '%s.json' % self.pid), 'w') as f:
            json.dump(ev, f, indent=1, default=str)
        print('%s tier=%s obligations=%d discharged=%d bounded_cases=%d violations=%d known=%d wall=%.1fs' % (
            self.pid, self.tier, n_obl, n_dis, cases, len(self.violations), len(printed), time.time() - self.t0))
        if self.violations:
            return 1          # a violation stands on its own evidence (failing input / named obligation), whatever else went wrong
        if self.checker_errors:
            return 3
        if n_obl == 0 and cases == 0:
            print('CHECKER-ERROR: zero obligations and zero cases')
            return 3
        return 0
