import argparse
import json
import os
import sys

from . import core


def main():
    ap = argparse.ArgumentParser()
    ap.add_argument('what')
    ap.add_argument('path', nargs='?')
    ap.add_argument('--tier', default=os.environ.get('VERIF_TIER', 'quick'))
    ap.add_argument('--update-ledger', action='store_true')
    a = ap.parse_args()
    seed = int(os.environ.get('VERIF_SEED', '0'))
    if a.what == 'replay':
        from . import replay
        sys.exit(replay.main(a.path))
    from . import props
    if a.what not in props.PROPS:
        print('CHECKER-ERROR: unknown property %s' % a.what)
        sys.exit(3)
    run = core.Run(a.what, a.tier, seed)
    try:
        level, explanation = props.PROPS[a.what](run)
    except Exception as e:
        import traceback
        print('CHECKER-ERROR: %r' % e)
        traceback.print_exc()
        sys.exit(3)
    if a.update_ledger:
        p = os.path.join(core.ROOT, 'contracts', 'LEDGER.json')
        led = json.load(open(p)) if os.path.exists(p) else {}
        led[a.what] = sorted(o for o, r in run.obligations.items() if r['discharged'])
        json.dump(led, open(p, 'w'), indent=0, sort_keys=True)
        print('ledger updated: %d obligations for %s' % (len(led[a.what]), a.what))
    sys.exit(run.finish(level, explanation))


if __name__ == '__main__':
    main()
