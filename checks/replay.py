"""./check replay <file>: re-execute a recorded failing input against the real code and re-evaluate the contract."""
import json
import sys

from . import core
from pyvc import concrete, driver


def main(path):
    d = json.load(open(path))
    print('replay of %s (property %s)' % (path, d.get('property')))
    if d.get('kind') == 'deductive':
        key = d['function']
        print('function:', key)
        print('failed obligations:', d['failed_obligations'])
        if 'failing_input' not in d:
            print('no failing input was found natively; solver output for the failed obligations:')
            for oid, recs in d['solver'].items():
                for r in recs:
                    print(' ', oid, r.get('result'), 'line', r.get('line'), r.get('note'))
                    print('   ', (r.get('output') or '')[:1500].replace('\n', '\n    '))
            return 1
        lib = driver.load_library()
        ev = concrete.Evaluator(lib.preds)
        c = lib.contracts[key]
        fn = core.native_callable(key)
        if d.get('variant') == 'py_func':
            fn = fn.py_func
        args = concrete.from_jsonable(d['failing_input'])
        status, detail = concrete.check_call(ev, c, fn, args)
        print('input:', {k: (v.tolist() if hasattr(v, 'tolist') else v) for k, v in args.items()})
        print('native result:', status, detail)
        return 1 if status == 'fail' else 0
    if d.get('kind') == 'bounded':
        from . import bounded
        return bounded.replay(d)
    print('unknown replay kind')
    return 3
