"""C13: torchclifford vs pyclifford conformance (bounded, concrete): every shared function is executed on the same
well-formed inputs by both packages and the results are compared (strings, phases, ranks, numbers)."""
import itertools
import numpy as np
import torch

from . import oracle as O
from .bounded import B, guard, gens, lst, P, PL, all_maps, tableaux, commuting_obs, REGISTRY, LETTERS, PREFIX

import pyclifford as pc
from pyclifford import utils as pu, paulialg as ppa, stabilizer as pst, circuit as pci
import torchclifford as tc
from torchclifford import utils as tu, paulialg as tpa, stabilizer as tst, circuit as tci


def T(a):
    return torch.tensor(np.asarray(a), dtype=torch.float32)


def Ti(a):
    return torch.tensor(np.asarray(a))


def n(x):
    if isinstance(x, torch.Tensor):
        return x.detach().cpu().numpy()
    if isinstance(x, (tuple, list)):
        return [n(y) for y in x]
    return np.asarray(x)


def same(a, b_, tol=1e-5):
    a, b_ = n(a), n(b_)
    if isinstance(a, list) or isinstance(b_, list):
        return isinstance(a, list) and isinstance(b_, list) and len(a) == len(b_) and all(same(x, y) for x, y in zip(a, b_))
    try:
        a = np.asarray(a, dtype=complex)
        b_ = np.asarray(b_, dtype=complex)
    except Exception:
        return False
    return a.shape == b_.shape and np.allclose(a, b_, atol=tol)


def P(g, p):
    return ppa.Pauli(np.array(g, dtype=np.int64), int(p))


def tP(g, p):
    return tpa.Pauli(T(g), int(p))


def tPL(gs, ps):
    return tpa.PauliList(T(gs), T(ps))


def tstate(gs, ps, r):
    s = tst.StabilizerState(T(gs), ps=T(ps))
    s.r = int(r)
    return s


def c13_torch(run, Nmax=2, count=12, circuits=30):
    rng = np.random.default_rng(run.seed)
    b = B('every shared function on all strings / phases for N = 1..%d (pairs exhaustive), %d random tableaux and maps per N, all ranks, all masks; %d mirrored circuit programs (N = 2..4, 3-6 generator gates on 1-2 qubits)' % (Nmax, count, circuits))

    def cmp(ident, fpy, ftorch, inp, conv=None):
        b.case(sample={'function': ident, 'input': inp})
        try:
            want = fpy()
        except Exception as e:
            return          # pyclifford itself rejects the input: not a conformance case
        ok, got = guard(b, ident, ftorch, inp)
        if not ok:
            return
        if conv is not None:
            got = conv(got)
        if not same(want, got):
            b.fail(ident, 'torchclifford %s differs from pyclifford: %s vs %s' % (ident, str(n(got))[:120], str(n(want))[:120]), inp)

    for N in range(1, Nmax + 1):
        S = O.all_strings(N)
        gsall = np.array(S)
        psall = np.arange(len(S)) % 4
        for g1 in S:
            inp1 = {'g': lst(g1)}
            cmp('front' if g1.any() else 'front[identity]', lambda: pu.front(g1), lambda: tu.front(T(g1)), inp1)
            cmp('pauli_is_onsite', lambda: pu.pauli_is_onsite(g1, 0), lambda: tu.pauli_is_onsite(T(g1), 0), inp1)
            if g1.any():
                cmp('condense', lambda: list(pu.condense(g1)), lambda: list(tu.condense(T(g1))), inp1)
                for i0 in range(N):
                    cmp('pauli_diagonalize1', lambda: np.array(pu.pauli_diagonalize1(g1, i0)).reshape(-1, 2 * N),
                        lambda: tu.pauli_diagonalize1(T(g1), i0), dict(inp1, i0=i0), conv=lambda x: np.array([n(y) for y in x]).reshape(-1, 2 * N))
            for g2 in S:
                inp = {'g1': lst(g1), 'g2': lst(g2)}
                cmp('acq', lambda: pu.acq(g1, g2), lambda: tu.acq(T(g1), T(g2)), inp)
                cmp('ipow', lambda: pu.ipow(g1, g2), lambda: tu.ipow(T(g1), T(g2)) % 4, inp)
                for p1 in range(4):
                    p2 = (p1 * 3 + 1) % 4
                    cmp('Pauli.__matmul__', lambda: (lambda q: [q.g, q.p])(P(g1, p1) @ P(g2, p2)),
                        lambda: (lambda q: [q.g, q.p % 4])(tP(g1, p1) @ tP(g2, p2)), dict(inp, p1=p1, p2=p2))
            for pg in (0, 2):
                cmp('clifford_rotate', lambda: list(pu.clifford_rotate(g1, pg, gsall.copy(), psall.copy())),
                    lambda: list(tu.clifford_rotate(T(g1), pg, T(gsall), T(psall))), {'g': lst(g1), 'p': pg},
                    conv=lambda x: [n(x[0]), n(x[1]) % 4])
                cmp('PauliList.rotate_by', lambda: (lambda l: [l.gs, l.ps])(PL(gsall.copy(), psall.copy()).rotate_by(P(g1, pg))),
                    lambda: (lambda l: [l.gs, l.ps % 4])(tPL(gsall, psall).rotate_by(tP(g1, pg))), {'g': lst(g1), 'p': pg})
                cmp('clifford_rotation_map', lambda: (lambda m: [m.gs, m.ps])(pst.clifford_rotation_map(P(g1, pg))),
                    lambda: (lambda m: [m.gs, m.ps % 4])(tst.clifford_rotation_map(tP(g1, pg))), {'g': lst(g1), 'p': pg})
            cmp('clifford_rotate_signless', lambda: pu.clifford_rotate_signless(g1, gsall.copy()), lambda: tu.clifford_rotate_signless(T(g1), T(gsall)), inp1)
        cmp('ps0', lambda: pu.ps0(gsall), lambda: tu.ps0(T(gsall)) % 4, {'N': N})
        cmp('acq_mat', lambda: pu.acq_mat(gsall), lambda: tu.acq_mat(T(gsall)), {'N': N})
        cmp('acq_grid', lambda: pu.acq_mat(gsall), lambda: tu.acq_grid(T(gsall), T(gsall)), {'N': N})
        cmp('pauli_tokenize', lambda: pu.pauli_tokenize(gsall, psall), lambda: tu.pauli_tokenize(T(gsall), T(psall)), {'N': N})
        cs1 = (rng.normal(size=len(S)) + 1j * rng.normal(size=len(S)))
        cmp('batch_dot', lambda: list(pu.batch_dot(gsall, psall, cs1, gsall[:3], psall[:3], cs1[:3])),
            lambda: list(tu.batch_dot(T(gsall), T(psall), torch.tensor(cs1, dtype=torch.complex64), T(gsall[:3]), T(psall[:3]), torch.tensor(cs1[:3], dtype=torch.complex64))),
            {'N': N}, conv=lambda x: [n(x[0]), n(x[1]) % 4, n(x[2])])
        # parsing / printing
        for g in S:
            for p in range(4):
                txt = PREFIX[p][0] + ''.join(LETTERS[(int(g[2 * k]), int(g[2 * k + 1]))] for k in range(N))
                cmp('pauli(str)', lambda: (lambda q: [q.g, q.p])(ppa.pauli(txt)), lambda: (lambda q: [q.g, q.p])(tpa.pauli(txt)), {'txt': txt})
                cmp('repr', lambda: np.frombuffer(repr(P(g, p)).encode(), dtype=np.uint8), lambda: np.frombuffer(repr(tP(g, p)).encode(), dtype=np.uint8), {'txt': txt})
        # maps
        for gm, pm in all_maps(N, rng, count)[:: 4 if N == 1 else 1]:
            inp = {'map': lst(gm), 'signs': lst(pm)}
            C_ = gens.bits(rng, 3, 2 * N)
            cmp('pauli_combine', lambda: list(pu.pauli_combine(C_, gm, pm)), lambda: list(tu.pauli_combine(T(C_), T(gm), T(pm))), inp, conv=lambda x: [n(x[0]), n(x[1]) % 4])
            cmp('pauli_transform', lambda: list(pu.pauli_transform(gsall, psall, gm, pm)), lambda: list(tu.pauli_transform(T(gsall), T(psall), T(gm), T(pm))), inp, conv=lambda x: [n(x[0]), n(x[1]) % 4])
            cmp('PauliList.transform_by', lambda: (lambda l: [l.gs, l.ps])(PL(gsall.copy(), psall.copy()).transform_by(pst.CliffordMap(gm.copy(), pm.copy()))),
                lambda: (lambda l: [l.gs, l.ps % 4])(tPL(gsall, psall).transform_by(tst.CliffordMap(T(gm), T(pm)))), inp)
            cmp('map_to_state', lambda: list(pu.map_to_state(gm, pm)), lambda: list(tu.map_to_state(T(gm), T(pm))), inp)
            cmp('state_to_map', lambda: list(pu.state_to_map(gm, pm)), lambda: list(tu.state_to_map(T(gm), T(pm))), inp)
            cmp('z2inv', lambda: pu.z2inv(gm.copy()), lambda: tu.z2inv(np.asarray(gm).copy()), inp)
            cmp('z2rank', lambda: pu.z2rank(gm[: max(1, N)].copy()), lambda: tu.z2rank(T(gm[: max(1, N)])), inp)
            cmp('CliffordMap.inverse', lambda: (lambda m: [m.gs, m.ps])(pst.CliffordMap(gm.copy(), pm.copy()).inverse()),
                lambda: (lambda m: [m.gs, m.ps % 4])(tst.CliffordMap(T(gm), T(pm)).inverse()), inp)
            gm2, pm2 = all_maps(N, rng, 1)[0]
            cmp('CliffordMap.compose', lambda: (lambda m: [m.gs, m.ps])(pst.CliffordMap(gm.copy(), pm.copy()).compose(pst.CliffordMap(gm2.copy(), pm2.copy()))),
                lambda: (lambda m: [m.gs, m.ps % 4])(tst.CliffordMap(T(gm), T(pm)).compose(tst.CliffordMap(T(gm2), T(pm2)))), inp)
            cmp('CliffordMap.to_state', lambda: (lambda s: [s.gs, s.ps, s.r])(pst.CliffordMap(gm.copy(), pm.copy()).to_state()),
                lambda: (lambda s: [s.gs, s.ps, s.r])(tst.CliffordMap(T(gm), T(pm)).to_state()), inp)
        # states
        for gs, ps in tableaux(N, rng, count)[:: 3 if N == 1 else 1]:
            for r in range(N + 1):
                inp = {'gs': lst(gs), 'ps': lst(ps), 'r': r}
                obs = commuting_obs(rng, N, 2)
                og = np.array([g for g, _ in obs])
                op_ = np.array([p for _, p in obs])
                cmp('stabilizer_expect', lambda: pu.stabilizer_expect(gs, ps, gsall, 2 * (psall % 2), r),
                    lambda: tu.stabilizer_expect(T(gs), T(ps), T(gsall), T(2 * (psall % 2)), r), inp)
                cmp('vectorizable_stabilizer_expect', lambda: pu.stabilizer_expect(gs, ps, gsall, 2 * (psall % 2), r),
                    lambda: tu.vectorizable_stabilizer_expect(T(gs), T(ps), T(gsall), T(2 * (psall % 2)), torch.tensor(r)), inp)
                cmp('stabilizer_project[%s]' % ('mixed' if r else 'pure'), lambda: list(pu.stabilizer_project(gs.copy(), og, r)), lambda: list(tu.stabilizer_project(T(gs), T(og), r)), inp)
                if r == 0:
                    cmp('stabilizer_projection_trace', lambda: list(pu.stabilizer_projection_trace(gs.copy(), ps.copy(), og, op_, 0))[3:],
                        lambda: list(tu.stabilizer_projection_trace(T(gs), T(ps), T(og), T(op_), 0))[3:], inp)
                cmp('StabilizerState.copy', lambda: (lambda s: [s.gs, s.ps, s.r])(pst.StabilizerState(gs.copy(), ps=ps.copy()).set_r(r).copy()),
                    lambda: (lambda s: [s.gs, s.ps, s.r])(tstate(gs, ps, r).copy()), inp)
                cmp('StabilizerState.expect(list)', lambda: pst.StabilizerState(gs.copy(), ps=ps.copy()).set_r(r).expect(PL(gsall, 2 * (psall % 2))),
                    lambda: tstate(gs, ps, r).expect(tPL(gsall, 2 * (psall % 2))), inp)
                # expectation of single operators of every phase (promoted to polynomials) and of a polynomial with complex coefficients
                for kk in range(min(len(S), 8)):
                    g_e, p_e = S[(kk * 5 + 1) % len(S)], kk % 4
                    cmp('StabilizerState.expect(Pauli, phase %d)' % p_e, lambda: complex(pst.StabilizerState(gs.copy(), ps=ps.copy()).set_r(r).expect(P(g_e, p_e))),
                        lambda: complex(n(tstate(gs, ps, r).expect(tP(g_e, p_e)))), dict(inp, g=lst(g_e), p=p_e))
                cs_e = np.array([0.5 - 1j, 2.0, -0.25j, 1 + 1j][:min(4, len(S))])
                cmp('StabilizerState.expect(polynomial)',
                    lambda: complex(pst.StabilizerState(gs.copy(), ps=ps.copy()).set_r(r).expect(ppa.PauliPolynomial(gsall[:len(cs_e)].copy(), psall[:len(cs_e)].copy()).set_cs(cs_e.copy()))),
                    lambda: complex(n(tstate(gs, ps, r).expect(tpa.PauliPolynomial(T(gsall[:len(cs_e)]), T(psall[:len(cs_e)])).set_cs(torch.tensor(cs_e))))), inp)
                if N - r >= 1:
                    for reg in itertools.chain.from_iterable(itertools.combinations(range(N), k) for k in range(1, N + 1)):
                        cmp('StabilizerState.entropy[%s]' % ('mixed' if r else 'pure'), lambda: pst.StabilizerState(gs.copy(), ps=ps.copy()).set_r(r).entropy(list(reg)),
                            lambda: tstate(gs, ps, r).entropy(list(reg)), dict(inp, region=list(reg)))
                cmp('StabilizerState.to_map', lambda: (lambda m: [m.gs, m.ps])(pst.StabilizerState(gs.copy(), ps=ps.copy()).to_map()),
                    lambda: (lambda m: [m.gs, m.ps])(tstate(gs, ps, r).to_map()), inp)
                if r == 0:
                    cmp('StabilizerState.get_prob', lambda: pst.StabilizerState(gs.copy(), ps=ps.copy()).get_prob(np.zeros(N, dtype=np.int64)),
                        lambda: tstate(gs, ps, 0).get_prob(torch.zeros(N)), inp)
                    cmp('StabilizerState.measure(deterministic)', lambda: list(pst.StabilizerState(gs.copy(), ps=ps.copy()).measure(PL(gs[:N].copy(), ps[:N].copy()))),
                        lambda: list(tstate(gs, ps, 0).measure(tPL(gs[:N], ps[:N]))), inp)
        # constructors
        for name in ('zero_state', 'maximally_mixed_state', 'one_state'):
            cmp(name, lambda: (lambda s: [s.gs, s.ps, s.r])(getattr(pst, name)(N)), lambda: (lambda s: [s.gs, s.ps, s.r])(getattr(tst, name)(N)), {'N': N})
        if N >= 2:
            cmp('ghz_state', lambda: (lambda s: [s.gs[:N], s.ps[:N], s.r])(pst.ghz_state(N)), lambda: (lambda s: [s.gs[:N], s.ps[:N], s.r])(tst.ghz_state(N)), {'N': N})
        strs = ['-' + 'Z' * N]
        cmp('stabilizer_state(strings)', lambda: (lambda s: [s.gs[s.r:N], s.ps[s.r:N], s.r])(pst.stabilizer_state(*strs)),
            lambda: (lambda s: [s.gs[int(s.r):N], s.ps[int(s.r):N], s.r])(tst.stabilizer_state(*strs)), {'strs': strs})
        cmp('stabilizer_state(PauliList)', lambda: (lambda s: [s.gs[s.r:N], s.ps[s.r:N], s.r])(pst.stabilizer_state(ppa.paulis(*strs))),
            lambda: (lambda s: [s.gs[int(s.r):N], s.ps[int(s.r):N], s.r])(tst.stabilizer_state(tpa.paulis(*strs))), {'strs': strs})
        # polynomial algebra
        a1, a2 = P(S[-1], 1), P(S[1 % len(S)], 2)
        cmp('poly_add', lambda: (lambda q: np.sort_complex(np.asarray(q.cs * 1j ** q.ps)))(a1 + a2),
            lambda: (lambda q: np.sort_complex(n(q.cs) * 1j ** n(q.ps)))(tP(a1.g, 1) + tP(a2.g, 2)), {'N': N})
        cmp('poly_scalar', lambda: (lambda q: [q.g, q.p, q.c])(2.5 * a1), lambda: (lambda q: [q.gs[0], q.ps[0], q.cs[0]])(2.5 * tP(a1.g, 1)), {'N': N})
        cmp('Pauli_plus_number', lambda: (lambda q: np.sort_complex(np.asarray(q.cs * 1j ** q.ps)))(a1 + 1), lambda: (lambda q: np.sort_complex(n(q.cs) * 1j ** n(q.ps)))(tP(a1.g, 1) + 1), {'N': N})
        # operator algebra, representation-independent: the same expression is built in both packages and the DENSE matrices of the
        # results are compared (term order and the split between phase and coefficient may differ legitimately)
        def tdense(x):
            if isinstance(x, tpa.PauliPolynomial):
                gs_, ps_, cs_ = n(x.gs).astype(np.int64), n(x.ps).astype(np.int64), n(x.cs)
                M_ = np.zeros((2 ** N, 2 ** N), dtype=complex)
                for g_, p_, c_ in zip(gs_.reshape(-1, 2 * N), ps_.reshape(-1), cs_.reshape(-1)):
                    M_ = M_ + complex(c_) * O.dense(g_, int(p_) % 4)
                return M_
            if hasattr(tpa, 'PauliMonomial') and isinstance(x, tpa.PauliMonomial):
                return complex(n(x.c)) * O.dense(n(x.g).astype(np.int64), int(n(x.p)) % 4)
            if isinstance(x, tpa.Pauli):
                return O.dense(n(x.g).astype(np.int64), int(n(x.p)) % 4)
            return complex(n(x)) * np.eye(2 ** N)
        from .bounded import any_dense

        def operands(seed_):
            r_ = np.random.default_rng(seed_)
            g_a, g_b, g_c = gens.bits(r_, 2 * N), gens.bits(r_, 2 * N), gens.bits(r_, 2 * N)
            p_a, p_b, p_c = (int(x) for x in r_.integers(0, 4, 3))
            c1, c2 = complex(np.round(r_.normal(), 2), np.round(r_.normal(), 2)), complex(np.round(r_.normal(), 2), 0.5)
            py = {'pauli': P(g_a, p_a), 'mono': c1 * P(g_b, p_b), 'poly': c1 * P(g_a, p_a) + c2 * P(g_c, p_c) + P(g_b, p_b)}
            to = {'pauli': tP(g_a, p_a), 'mono': c1 * tP(g_b, p_b), 'poly': c1 * tP(g_a, p_a) + c2 * tP(g_c, p_c) + tP(g_b, p_b)}
            return py, to, c2
        for seed_ in range(count):
            ok, ops_ = guard(b, 'algebra_operands', lambda: operands(1000 * N + seed_), {'N': N})
            if not ok:
                continue
            py_, to_, num_ = ops_
            kinds = list(py_)
            for ka in kinds:
                for kb in kinds:
                    for opn, f in (('add', lambda x, y: x + y), ('sub', lambda x, y: x - y), ('matmul', lambda x, y: x @ y)):
                        cmp('algebra %s(%s, %s)' % (opn, ka, kb), lambda: any_dense(f(py_[ka], py_[kb]), N), lambda: tdense(f(to_[ka], to_[kb])), {'N': N, 'seed': seed_})
                for opn, f in (('neg', lambda x: -x), ('rmul', lambda x: num_ * x), ('div', lambda x: x / num_), ('add_number', lambda x: x + num_),
                               ('radd_number', lambda x: num_ + x), ('rmul_i', lambda x: 1j * x), ('rmul_m1', lambda x: -1 * x)):
                    cmp('algebra %s(%s)' % (opn, ka), lambda: any_dense(f(py_[ka]), N), lambda: tdense(f(to_[ka])), {'N': N, 'seed': seed_})
            cmp('algebra reduce', lambda: any_dense((py_['poly'] @ py_['poly']).reduce(), N), lambda: tdense((to_['poly'] @ to_['poly']).reduce()), {'N': N, 'seed': seed_})
            for k_ in kinds:
                o_ = py_[k_]
                gs_t = np.atleast_2d(o_.gs if hasattr(o_, 'gs') else o_.g)
                ps_t = np.atleast_1d(o_.ps if hasattr(o_, 'ps') else o_.p)
                phased = any((not g_.any()) and int(p_) % 4 != 0 for g_, p_ in zip(gs_t, ps_t))
                # pyclifford's trace() ignores the phase indicator of identity-string terms (known finding F12, pinned by its test suite);
                # operands with such a term are compared under their own name so that any OTHER disagreement is still reported
                cmp('algebra trace(%s)%s' % (k_, '[phased identity term]' if phased else ''), lambda: complex(py_[k_].trace()), lambda: complex(n(to_[k_].trace())), {'N': N, 'seed': seed_})
            prod_py, prod_to = (lambda: py_['poly'] @ py_['poly']), (lambda: to_['poly'] @ to_['poly'])
            cmp('algebra getitem(int)', lambda: sum(any_dense(prod_py()[j_], N) for j_ in range(prod_py().L)),
                lambda: sum(tdense(prod_to()[j_]) for j_ in range(int(prod_to().L))), {'N': N, 'seed': seed_})
            cmp('algebra getitem(slice)', lambda: any_dense(prod_py()[1:], N) + any_dense(prod_py()[:1], N),
                lambda: tdense(prod_to()[1:]) + tdense(prod_to()[:1]), {'N': N, 'seed': seed_})
            cmp('weight', lambda: [int(py_['pauli'].weight())], lambda: [int(n(to_['pauli'].weight()))], {'N': N, 'seed': seed_})
            cmp('Pauli.tokenize', lambda: np.asarray(py_['pauli'].tokenize()), lambda: n(to_['pauli'].tokenize()), {'N': N, 'seed': seed_})
        # small shared helpers and selections that the blocks above do not reach
        for sub in itertools.chain.from_iterable(itertools.combinations(range(N), k_) for k_ in range(1, N + 1)):
            cmp('mask', lambda: np.asarray(pu.mask(np.array(sub), N)).astype(int), lambda: n(tu.mask(torch.tensor(sub), N)).astype(int), {'qubits': list(sub), 'N': N})
        cmp('identity_map', lambda: (lambda m: [m.gs, m.ps])(pst.identity_map(N)), lambda: (lambda m: [m.gs, m.ps])(tst.identity_map(N)), {'N': N})
        cmp('aggregate', lambda: np.asarray(pu.aggregate(np.array([1.0, 2.0, 3.0, 4.0]), np.array([0, 1, 0, 2]), 3)),
            lambda: n(tu.aggregate(torch.tensor([1.0, 2.0, 3.0, 4.0]), torch.tensor([0, 1, 0, 2]), 3)), {})
        for ga_, gb_ in itertools.islice(((a_, b_) for a_ in S for b_ in S if pu.acq(a_, b_)), 12):
            cmp('pauli_diagonalize2', lambda: (lambda r_: [np.array(r_[0]).reshape(-1, 2 * N), r_[1], r_[2]])(pu.pauli_diagonalize2(ga_.copy(), gb_.copy())),
                lambda: (lambda r_: [n(torch.stack(list(r_[0]))).reshape(-1, 2 * N) if len(r_[0]) else np.zeros((0, 2 * N)), n(r_[1]), n(r_[2])])(tu.pauli_diagonalize2(T(ga_), T(gb_))),
                {'g1': lst(ga_), 'g2': lst(gb_)})
        L_all = len(S)
        mk_sel = (np.arange(L_all) % 3 == 1)
        ix_sel = np.array([L_all - 1, 0, L_all - 1])
        cmp('PauliList.__getitem__(int)', lambda: (lambda q: [q.g, q.p])(PL(gsall.copy(), psall.copy())[L_all - 1]), lambda: (lambda q: [q.g, q.p])(tPL(gsall, psall)[L_all - 1]), {'N': N})
        cmp('PauliList.__getitem__(slice)', lambda: (lambda q: [q.gs, q.ps])(PL(gsall.copy(), psall.copy())[1:3]), lambda: (lambda q: [q.gs, q.ps])(tPL(gsall, psall)[1:3]), {'N': N})
        cmp('PauliList.__getitem__(mask)', lambda: (lambda q: [q.gs, q.ps])(PL(gsall.copy(), psall.copy())[mk_sel]), lambda: (lambda q: [q.gs, q.ps])(tPL(gsall, psall)[torch.tensor(mk_sel)]), {'N': N})
        cmp('PauliList.__getitem__(index)', lambda: (lambda q: [q.gs, q.ps])(PL(gsall.copy(), psall.copy())[ix_sel]), lambda: (lambda q: [q.gs, q.ps])(tPL(gsall, psall)[torch.tensor(ix_sel)]), {'N': N})
        cmp('PauliList.__neg__', lambda: (lambda q: [q.gs, q.ps % 4])(-PL(gsall.copy(), psall.copy())), lambda: (lambda q: [q.gs, q.ps % 4])(-tPL(gsall, psall)), {'N': N})
        for c_u in (1, 1j, -1, -1j):
            cmp('PauliList.__rmul__(%s)' % c_u, lambda: (lambda q: [q.gs, q.ps % 4])(c_u * PL(gsall.copy(), psall.copy())), lambda: (lambda q: [q.gs, q.ps % 4])(c_u * tPL(gsall, psall)), {'N': N})
        cmp('PauliList.tokenize', lambda: np.asarray(PL(gsall.copy(), psall.copy()).tokenize()), lambda: n(tPL(gsall, psall).tokenize()), {'N': N})
        cmp('PauliList.weight', lambda: np.asarray(PL(gsall.copy(), psall.copy()).weight()), lambda: n(tPL(gsall, psall).weight()), {'N': N})
        for (gs_d, ps_d) in tableaux(N, rng, 2):
            for r_d in range(N + 1):
                cmp('StabilizerState.stabilizers', lambda: (lambda q: [q.gs, q.ps])(pst.StabilizerState(gs_d.copy(), ps=ps_d.copy()).set_r(r_d).stabilizers),
                    lambda: (lambda q: [q.gs, q.ps])(tstate(gs_d, ps_d, r_d).stabilizers), {'r': r_d, 'N': N})
        ga1, ga2 = pci.CliffordGate(0), pci.CliffordGate(*range(N))
        gb1, gb2 = tci.CliffordGate(0), tci.CliffordGate(*range(N))
        cmp('CliffordGate.independent_from', lambda: [bool(ga1.independent_from(ga2)), bool(ga1.independent_from(pci.CliffordGate(N - 1))) if N > 1 else True],
            lambda: [bool(gb1.independent_from(gb2)), bool(gb1.independent_from(tci.CliffordGate(N - 1))) if N > 1 else True], {'N': N})
        cmp('pauli_identity', lambda: any_dense(ppa.pauli_identity(N), N), lambda: tdense(tpa.pauli_identity(N)), {'N': N})
        cmp('pauli_zero', lambda: any_dense(ppa.pauli_zero(N), N), lambda: tdense(tpa.pauli_zero(N)), {'N': N})
        for (gs_d, ps_d) in tableaux(N, rng, 2):
            for r_d in range(N + 1):
                cmp('density_matrix', lambda: any_dense(pst.StabilizerState(gs_d.copy(), ps=ps_d.copy()).set_r(r_d).density_matrix, N),
                    lambda: tdense(tstate(gs_d, ps_d, r_d).density_matrix), {'gs': lst(gs_d), 'ps': lst(ps_d), 'r': r_d})
        # gates and circuits
        gm, pm = all_maps(N, rng, 1)[0]
        def run_py():
            circ = pci.CliffordCircuit(N)
            g = pci.CliffordGate(*range(N)); g.set_forward_map(pst.CliffordMap(gm.copy(), pm.copy())); circ.take(g)
            circ.take(pci.clifford_rotation_gate(P(S[-1], 2)))
            l = PL(gsall.copy(), psall.copy()); circ.forward(l); circ.compile(); circ.copy().backward(l)
            l2 = PL(gsall.copy(), psall.copy()); circ.forward(l2)
            return [l.gs, l.ps, l2.gs, l2.ps]
        def run_t():
            circ = tci.CliffordCircuit()
            g = tci.CliffordGate(*range(N)); g.set_forward_map(tst.CliffordMap(T(gm), T(pm))); circ.take(g)
            circ.take(tci.clifford_rotation_gate(tP(S[-1], 2)))
            l = tPL(gsall, psall); circ.forward(l); circ.compile(N); circ.copy().backward(l)
            l2 = tPL(gsall, psall); circ.forward(l2)
            return [l.gs, l.ps % 4, l2.gs, l2.ps % 4]
        cmp('circuit_compile_copy_backward', run_py, run_t, {'N': N})
        cmp('diagonalize', lambda: (lambda o: [o.g, o.p])(pci.diagonalize(P(S[-1], 0)).forward(P(S[-1].copy(), 0))),
            lambda: (lambda o: [o.g, o.p % 4])(tci.diagonalize(tP(S[-1], 0)).forward(tP(S[-1], 0))), {'N': N})
    # mirrored circuit programs: the same generator gates taken by both packages; forward / backward of the circuit, of a copy,
    # of a copy that then takes one more gate, of the composition of two halves, of the compiled circuit and of its copy
    for pi in range(circuits):
        N = int(rng.integers(2, 5))
        L = int(rng.integers(3, 7))
        prog = []
        for _ in range(L + 1):
            nq = int(rng.integers(1, 3))
            q = tuple(sorted(rng.choice(N, size=nq, replace=False).tolist()))
            g = gens.bits(rng, 2 * nq)
            while not g.any():
                g = gens.bits(rng, 2 * nq)
            prog.append((q, g, int(2 * rng.integers(0, 2))))
        extra = prog.pop()
        gsr = gens.bits(rng, 6, 2 * N)
        psr = rng.integers(0, 4, 6)
        inp = {'N': N, 'program': [[list(q), lst(g), p_] for q, g, p_ in prog], 'extra': [list(extra[0]), lst(extra[1]), extra[2]]}

        def pgate(q, g, p_):
            gate = pci.CliffordGate(*q); gate.set_generator(P(g, p_)); return gate

        def tgate(q, g, p_):
            gate = tci.CliffordGate(*q); gate.set_generator(tP(g, p_)); return gate

        def scenario(mk_circ, mk_gate, mk_list, post):
            def build(gs_):
                c = mk_circ()
                for (q, g, p_) in gs_:
                    c.take(mk_gate(q, g, p_))
                return c
            out = []
            circ = build(prog)
            cp = circ.copy()
            cpx = circ.copy(); cpx.take(mk_gate(*extra))
            comp = build(prog[:L // 2]).compose(build(prog[L // 2:]))
            cc = build(prog)
            cc.compile(N)                      # circuit-compiled
            ccp = cc.copy()
            for c in (circ, cp, cpx, comp, cc, ccp):
                l = mk_list(); c.forward(l); out += post(l)
                l = mk_list(); c.backward(l); out += post(l)
            return out
        cmp('circuit_program(copy, extended copy, compose, compiled, compiled copy; forward and backward)',
            lambda: scenario(lambda: pci.CliffordCircuit(N), pgate, lambda: PL(gsr.copy(), psr.copy()), lambda l: [l.gs.copy(), l.ps % 4]),
            lambda: scenario(lambda: tci.identity_circuit(N), tgate, lambda: tPL(gsr, psr), lambda l: [n(l.gs).copy(), n(l.ps) % 4]), inp)
    # random_clifford must be able to entangle
    b.case()
    ent = False
    try:
        for _ in range(60):
            gsr = n(tu.random_clifford(2))
            if gsr[:2, 2:].any() or gsr[2:, :2].any():
                ent = True
                break
        if not ent:
            b.fail('random_clifford_entangles', 'torch random_clifford(2) returned only product Cliffords in 60 draws', {})
        # ... and every draw must be the table of a Clifford map (canonical commutation relations), as in pyclifford
        import pyclifford.utils as pu_
        for k_ in range(40):
            Nk = 1 + k_ % 4
            gk = np.asarray(n(tu.random_clifford(Nk))).astype(np.int64)
            want = np.zeros((2 * Nk, 2 * Nk), dtype=np.int64)
            for a_ in range(2 * Nk):
                want[a_, a_ + 1 if a_ % 2 == 0 else a_ - 1] = 1
            if gk.shape != (2 * Nk, 2 * Nk) or not np.isin(gk, (0, 1)).all() or not np.array_equal(np.asarray(pu_.acq_mat(gk)) % 2, want):
                b.fail('random_clifford_valid', 'torch random_clifford(%d) returned a table without the canonical commutation relations' % Nk, {'gs': gk.tolist()})
                break
    except Exception as e:
        b.fail('random_clifford.raises', repr(e)[:200], {})
    return b.result()


REGISTRY['c13_torch'] = c13_torch
