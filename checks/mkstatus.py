"""dev helper: rewrite the status table of DESIGN.md (between the STATUS markers) from the committed evidence files"""
import glob
import json
import os
import re
import sys

ROOT = os.path.dirname(os.path.dirname(os.path.abspath(__file__)))
sys.path.insert(0, ROOT)
from contracts import all_contracts

rows, allf = [], set()
for p in sorted(glob.glob(os.path.join(ROOT, 'evidence', 'C*.json'))):
    e = json.load(open(p))
    c = e['coverage']
    fs = [f['key'] for f in c['functions_under_contract'] if f.get('status') == 'ok']
    allf.update(fs)
    rows.append((e['property_id'], len(fs), c['obligations'], sum(b.get('cases', 0) for b in c['bounded_standins']), round(c['solver_time_s']), e['level']))
n_lem = len(all_contracts.LEMMAS)
n_ax = sum(1 for v in all_contracts.LEMMAS.values() if v.get('axiom'))
txt = ('<!-- STATUS -->\n**Status at the last commit (from the committed evidence files; quick tier on the unchanged tree).** %d functions / contract variants\n'
       'are under deductive contract (every one verified against the real source on every run; none trusted, none `bounded_only`), plus %d ghost\n'
       'lemmas (%d of them assumed classical facts, each evaluated natively on generated inputs every run). Since the callee / lemma closure, a property\'s\n'
       'obligations include those of every function its listed functions call modularly, so the counts overlap between properties (C17 - frame\n'
       'conditions - includes everything).\n\n' % (len(allf), n_lem, n_ax))
txt += '| property | functions / variants whose obligations it includes | obligations (all discharged, quick tier) | bounded cases (quick) | solver CPU s | level |\n|---|---|---|---|---|---|\n'
for r in rows:
    txt += '| %s | %d | %d | %d | %d | %s |\n' % r
txt += '<!-- /STATUS -->\n'
p = os.path.join(ROOT, 'DESIGN.md')
s = open(p).read()
if '<!-- STATUS -->' in s:
    s = re.sub(r'<!-- STATUS -->.*?<!-- /STATUS -->\n', lambda m: txt, s, flags=re.S)
else:
    a = s.index('**Status at the last commit')
    b = s.index('**The recursive sampler `random_clifford`')
    s = s[:a] + txt + '\n' + s[b:]
open(p, 'w').write(s)
print('status table: %d functions, %d lemmas' % (len(allf), n_lem))
