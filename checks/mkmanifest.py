"""regenerate MANIFEST.json from checks/props.py (run by hand after changing the registry)"""
import json
import os
import sys
ROOT = os.path.dirname(os.path.dirname(os.path.abspath(__file__)))
sys.path.insert(0, ROOT)
from checks import props   # noqa

LEVEL_TEXT = {}
NOTE = ('trusted base: pyvc VC generator and its Python/numpy encoding, z3, numba compiling the fragment with Python semantics, '
        'mathematical ints, non-aliasing array parameters; bounded stand-ins are run-time contract/oracle checks with the stated bound '
        'and are never counted as proved; see evidence assumptions and DESIGN.md section 8')


def main():
    ids = [json.loads(l)['id'] for l in open(os.path.join(ROOT, 'properties.jsonl'))]
    checks = []
    for pid in ids:
        if pid not in props.PROPS:
            continue
        level = 'proof' if pid in ('C01',) else 'other'
        checks.append({
            'property_id': pid,
            'quick_cmd': './check %s --tier quick' % pid,
            'thorough_cmd': './check %s --tier thorough' % pid,
            'evidence_file': 'evidence/%s.json' % pid,
            'replay_cmd_template': './check replay {path}',
            'engine': 'pyvc+bounded',
            'level_claimed': {'category': level, 'text': props.LEVEL_TEXT.get(pid, props.TECHNIQUE[pid]) if hasattr(props, 'LEVEL_TEXT') else props.TECHNIQUE[pid],
                              'design_ref': 'DESIGN.md section 5 (%s)' % pid},
            'level_note': NOTE,
            'technique': props.TECHNIQUE[pid],
        })
    m = {
        'version': 1,
        'setup_cmd': './setup.sh',
        'hooks': {'guard': 'PYCLIFFORD_VERIF', 'enable': 'no hooks: contracts are sidecars under /verif/contracts keyed by function name; /repo is not instrumented',
                  'baseline_off_cmd': 'cd /repo && /venv/bin/python -m pytest -ra -q -p no:cacheprovider --timeout=900 --continue-on-collection-errors',
                  'source_commits': [], 'add_only': True},
        'engines': [
            {'name': 'pyvc', 'path': 'pyvc/', 'serves_properties': sorted(p for p in props.PROPS),
             'kind_free_text': 'contract-based deductive verifier: VCs generated from the ast of the real source on every run, modular calls, loop invariants, ghost lemmas, discharged by z3 (5.1 and 4.8.12)'},
            {'name': 'bounded', 'path': 'checks/bounded.py', 'serves_properties': sorted(p for p in props.PROPS),
             'kind_free_text': 'bounded stand-ins: real API executed on an enumerated/sampled input space against a dense-matrix oracle or the contract; labelled bounded, never counted as proved'},
        ],
        'checks': checks,
        'not_applicable': [{'property_id': p, 'reason': 'no check built'} for p in ids if p not in props.PROPS],
        'notes': 'exit codes: 0 held, 1 violation (VIOLATION line + replay file), 3 checker error (never a verdict). Known findings: known_findings.json.',
    }
    json.dump(m, open(os.path.join(ROOT, 'MANIFEST.json'), 'w'), indent=1)
    print('MANIFEST.json: %d checks' % len(checks))


if __name__ == '__main__':
    main()
