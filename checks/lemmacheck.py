"""Native (bounded) evaluation of the ghost lemmas: every lemma statement -- proved by the engine or, for the one bridge
lemma, assumed -- is evaluated with the executable spec functions on generated concrete inputs.  This guards the *statements*
(a mis-stated lemma that the engine 'proves' through an encoding error, or an assumed lemma that is false) and is labelled
bounded.  For the assumed lemma `symplectic_complete` the check is exhaustive over all strings w for every generated tableau."""
import itertools
import numpy as np

from contracts import gens
from pyvc import concrete


def _linalg_args(lem, rng):
    """arguments for the GF(2) linear-algebra lemmas (dot_*, ordg_is_dot, lead_*, rank_*)"""
    name = lem.name
    m = int(rng.integers(0, 4))
    cols = int(rng.integers(1, 4))
    M = rng.integers(-2, 3, size=(max(m, 1) + 1, cols)).astype(np.int64)
    c = int(rng.integers(0, cols))
    if name == 'dot_shift':
        o1, o2 = int(rng.integers(0, 3)), int(rng.integers(0, 3))
        win = rng.integers(-2, 3, size=m)
        u = rng.integers(-2, 3, size=o1 + m + 2); v = rng.integers(-2, 3, size=o2 + m + 2)
        u[o1:o1 + m] = win; v[o2:o2 + m] = win
        return {'u': u, 'o1': o1, 'v': v, 'o2': o2, 'M': M, 'm': m, 'c': c}
    if name == 'dot_add':
        off = int(rng.integers(0, 3))
        u = gens.bits(rng, off + m + 1); v = gens.bits(rng, off + m + 1)
        return {'u': u, 'v': v, 'w': (u + v) % 2, 'off': off, 'M': M, 'm': m, 'c': c}
    if name == 'dot_unit':
        off = int(rng.integers(0, 3)); row = int(rng.integers(0, m + 2))
        u = rng.integers(-2, 3, size=off + m + 1)
        u[off:off + m] = [1 if k == row else 0 for k in range(m)]
        M = rng.integers(-2, 3, size=(max(m, row) + 1, cols)).astype(np.int64)
        return {'u': u, 'off': off, 'M': M, 'm': m, 'c': c, 'row': row}
    if name == 'ordg_is_dot':
        return {'crow': gens.bits(rng, m + 1), 'gs': gens.bits(rng, m + 1, cols), 'n': m, 'c': c}
    if name in ('split_acq', 'acqout_ext'):
        N = int(rng.integers(0, 5)); K = int(rng.integers(0, N + 1))
        mk = gens.bits(rng, N)
        x, y = gens.bits(rng, 2 * N + 2), gens.bits(rng, 2 * N + 2)
        if name == 'split_acq':
            return {'x': x, 'y': y, 'mask': mk, 'N': N, 'K': K}
        x2, y2 = x.copy(), y.copy()
        for k in range(N):
            if mk[k]:
                x2[2 * k:2 * k + 2] = gens.bits(rng, 2); y2[2 * k:2 * k + 2] = gens.bits(rng, 2)
        return {'x': x, 'x2': x2, 'y': y, 'y2': y2, 'mask': mk, 'K': K}
    if name == 'expand_sums':
        N = int(rng.integers(0, 5)); K = int(rng.integers(0, N + 1))
        mk = gens.bits(rng, N)
        return {'g': gens.bits(rng, 2 * int(mk.sum()) + 2), 'x': gens.bits(rng, 2 * N + 2), 'mask': mk, 'N': N, 'K': K}
    if name == 'rot_preserve':
        N = int(rng.integers(0, 4))
        return {'r': gens.bits(rng, 2 * N + 1), 'a': gens.bits(rng, 2 * N + 1), 'b': gens.bits(rng, 2 * N + 1), 'N': N}
    if name == 'acq_local':
        n = int(rng.integers(0, 4)); k = int(rng.integers(-1, n + 1))
        x = np.zeros(2 * n + 2, dtype=np.int64)
        if 0 <= k:
            x[2 * k:2 * k + 2] = gens.bits(rng, 2)
        return {'x': x, 'y': gens.bits(rng, 2 * n + 2), 'n': n, 'k': k}
    if name == 'acq_unit':
        n = int(rng.integers(0, 4)); mm = 2 * n + int(rng.integers(0, 3))
        return {'g': rng.integers(-1, 3, size=2 * n + 3), 'i': int(rng.integers(0, 2 * n + 2)), 'm': mm, 'n': n}
    if name in ('inq_exists', 'inq_member'):
        n = int(rng.integers(0, 5))
        qq = rng.integers(0, 5, size=n + 1)
        return {'q': qq, 'n': n, 'c': int(rng.integers(0, 6)), 'k': int(rng.integers(0, max(n, 1)))}
    if name == 'mask_ext':
        n = int(rng.integers(0, 7))
        mk = gens.bits(rng, n + 2)
        m2 = mk * rng.integers(1, 4, size=n + 2)
        m2[n:] = gens.bits(rng, 2)
        return {'m': mk, 'm2': m2, 'n': n}
    if name == 'mask_index':
        n = int(rng.integers(0, 7))
        mk = gens.bits(rng, n + 2)
        if rng.integers(0, 5) == 0:
            mk[:n] = 0
        return {'m': mk, 'n': n}
    if name == 'lead_char':
        n = int(rng.integers(1, 6)); i = int(rng.integers(0, n))
        row = gens.bits(rng, n); row[:i] = 0; row[i] = 1
        return {'row': row, 'n': n, 'i': i}
    if name == 'lead_zero':
        n = int(rng.integers(0, 6))
        return {'row': np.zeros(n + 1, dtype=np.int64), 'n': n}
    if name == 'lead_range':
        n = int(rng.integers(0, 6))
        return {'row': gens.bits(rng, n + 1), 'n': n}
    if name in ('toks_range', 'toks_mono', 'toks_range_c', 'toks_mono_c'):
        n = int(rng.integers(0, 7))
        if name.endswith('_c'):
            a = np.array([ord(ch) for ch in rng.choice(list('IXYZ+-iq'), size=n + 1)], dtype=np.int64)
        else:
            a = rng.integers(-1, 10, size=n + 1)
        k = int(rng.integers(0, n + 1))
        return {'a': a, 'k': k, 'j': int(rng.integers(0, max(k, 1)))}
    if name in ('tokens_no_prefix', 'tokens_roundtrip'):
        N = int(rng.integers(0, 5))
        g = gens.bits(rng, 2 * N); p_ = int(rng.integers(0, 4))
        t = np.array([{(0, 0): 0, (1, 0): 1, (1, 1): 2, (0, 1): 3}[(int(g[2 * i]), int(g[2 * i + 1]))] for i in range(N)] + [{0: 4, 1: 6, 2: 5, 3: 7}[p_]], dtype=np.int64)
        if rng.integers(0, 6) == 0 and N > 0:
            t[int(rng.integers(0, N))] = int(rng.integers(0, 8))          # sometimes not a token row of (g, p): requires filter it
        return {'t': t, 'g': g, 'p': p_, 'N': N, 'k': int(rng.integers(0, N + 1))}
    if name == 'chars_codes_agree':
        n = int(rng.integers(0, 7))
        sym = 'IXYZ+-'
        c = rng.integers(0, 6, size=n)
        s_ = np.array([ord(sym[int(x)]) for x in c], dtype=np.int64)
        if rng.integers(0, 6) == 0 and n > 0:
            c[int(rng.integers(0, n))] = int(rng.integers(0, 8))
        return {'s': s_, 'c': c, 'k': int(rng.integers(0, n + 1))}
    if name in ('ordg_selext', 'ordp_selext'):
        N = int(rng.integers(0, 4)); n = int(rng.integers(0, 2 * N + 1))
        sel = gens.bits(rng, 2 * N + 1)
        sel2 = sel * rng.integers(1, 4, size=2 * N + 1)
        if rng.integers(0, 5) == 0 and n > 0:
            sel2[int(rng.integers(0, n))] ^= 1          # sometimes a different selection: requires filter it
        sel2[n:] = gens.bits(rng, 2 * N + 1 - n)
        return {'sel': sel, 'sel2': sel2, 'G': gens.bits(rng, 2 * N + 1, 2 * N), 'P': rng.integers(0, 4, size=2 * N + 1), 'n': n, 'N': N, 'c': int(rng.integers(0, max(2 * N, 1)))}
    if name in ('member_expect', 'sample_expect_one'):
        N = int(rng.integers(1, 4)); r = int(rng.integers(0, N + 1))
        gs, ps = gens.rand_tableau(rng, N)
        sel = gens.bits(rng, N); sel[:r] = 0
        if name == 'member_expect':
            from contracts import spec_pauli as sp_
            obs = np.array([sp_.OrdG(sel, gs, N, k) for k in range(2 * N)], dtype=np.int64)
            pobs = int(sp_.OrdP(sel, gs, ps, N, N))
            if rng.integers(0, 6) == 0:
                pobs = (pobs + 2) % 4                      # sometimes the wrong sign: the requires filter it
            return {'gs': gs, 'ps': ps, 'sel': sel, 'obs': obs, 'pobs': pobs, 'r': r, 'N': N}
        return {'gs': gs, 'ps': ps, 'c': sel[r:].copy(), 'r': r, 'N': N}
    if name in ('ordg_nosel', 'ordg_slice', 'ordp_slice'):
        N = int(rng.integers(1, 4)); r = int(rng.integers(0, N + 1)); n = int(rng.integers(0, N - r + 1))
        gs = gens.bits(rng, 2 * N, 2 * N); ps = rng.integers(0, 4, size=2 * N)
        if name == 'ordg_nosel':
            m = int(rng.integers(0, N + 1))
            sel = gens.bits(rng, N + 1); sel[:m] = 0
            return {'sel': sel, 'G': gs, 'P': ps, 'm': m, 'N': N, 'c': int(rng.integers(0, 2 * N))}
        return {'c': gens.bits(rng, N - r + 1), 'gs': gs, 'ps': ps, 'r': r, 'N': N, 'n': n, 'col': int(rng.integers(0, 2 * N))}
    if name == 'map_state_roundtrip':
        N = int(rng.integers(0, 4))
        M = gens.bits(rng, 2 * N, 2 * N); MP = rng.integers(0, 4, size=2 * N)
        S = np.zeros_like(M); SP = np.zeros_like(MP)
        for i in range(N):
            S[i], S[N + i], SP[i], SP[N + i] = M[2 * i + 1], M[2 * i], MP[2 * i + 1], MP[2 * i]
        M2 = np.zeros_like(M); MP2 = np.zeros_like(MP)
        for i in range(N):
            M2[2 * i + 1], M2[2 * i], MP2[2 * i + 1], MP2[2 * i] = S[i], S[N + i], SP[i], SP[N + i]
        if rng.integers(0, 6) == 0 and N > 0:
            M2[0, 0] ^= 1                               # sometimes not the conversion result: the requires filter it
        return {'M': M, 'MP': MP, 'S': S, 'SP': SP, 'M2': M2, 'MP2': MP2, 'N': N}
    if name in ('rank_swap', 'rank_rowadd', 'rank_echelon'):
        nr, nc = int(rng.integers(1, 5)), int(rng.integers(1, 5))
        A = gens.bits(rng, nr, nc)
        if name == 'rank_swap':
            i, k = int(rng.integers(0, nr)), int(rng.integers(0, nr))
            B_ = A.copy(); B_[[i, k]] = B_[[k, i]]
            return {'A': A, 'B': B_, 'nr': nr, 'nc': nc, 'i': i, 'k': k}
        if name == 'rank_rowadd':
            j, r = int(rng.integers(0, nr)), int(rng.integers(0, nr))
            B_ = A.copy()
            if j != r:
                B_[j] = (A[j] + A[r]) % 2
            return {'A': A, 'B': B_, 'nr': nr, 'nc': nc, 'j': j, 'r': r}
        # a random echelon form: strictly increasing leading columns, arbitrary entries to the right, zero rows below
        r = int(rng.integers(0, min(nr, nc) + 1))
        leads = sorted(rng.choice(nc, size=r, replace=False).tolist())
        E = np.zeros((nr, nc), dtype=np.int64)
        for k, l in enumerate(leads):
            E[k, l] = 1
            E[k, l + 1:] = gens.bits(rng, nc - l - 1)
        if rng.integers(0, 4) == 0 and nr > r:          # sometimes NOT an echelon form: requires must filter it out
            E[nr - 1, int(rng.integers(0, nc))] = 1
        return {'A': E, 'nr': nr, 'nc': nc, 'r': r}
    return None


def _rand_args(lib, lem, rng):
    la = _linalg_args(lem, rng)
    if la is not None:
        return la
    """concrete arguments for a lemma, by parameter name/type conventions of contracts/*.py"""
    N = int(rng.integers(1, 4))
    gs, ps = gens.rand_tableau(rng, N)
    gm, pm = gens.state_to_map_order(gs, ps)
    needs_map = any('gram_map' in r for r in lem.requires)
    needs_tab = any('gram(' in r for r in lem.requires)
    args = {}
    for (p, t) in lem.params:
        if t == 'int2':
            args[p] = gm if needs_map else (gs if needs_tab else gens.bits(rng, 2 * N, 2 * N))
        elif t == 'int1':
            args[p] = 2 * gens.bits(rng, 2 * N) if p in ('pm', 'ps') else gens.bits(rng, 2 * N)
        elif t == 'int':
            if p in ('N',):
                args[p] = N
            elif p in ('n', 'm'):
                args[p] = int(rng.integers(0, N + 1)) if not needs_map else int(rng.integers(0, 2 * N + 1))
            elif p in ('i', 'j', 'l', 'i0'):
                args[p] = int(rng.integers(0, 2 * N)) if (needs_map or needs_tab) else int(rng.integers(-1, N))
            elif p == 'c':
                args[p] = int(rng.integers(0, 2 * N))
            else:
                args[p] = int(rng.integers(0, 3))
        else:
            args[p] = 0
    # a few lemmas relate their arguments: make the relation hold often enough
    if lem.name in ('ipowsum_ext', 'acqsum_ext'):
        args['a2'] = args['a'].copy()
    if lem.name == 'acq_diff2':
        a2 = args['a'].copy()
        for q in (args['i'], args['j']):
            if 0 <= q < len(a2) // 2:
                a2[2 * q:2 * q + 2] = gens.bits(rng, 2)
        args['a2'] = a2
    if lem.name == 'acq_zero':
        args['z'] = np.zeros_like(args['x'])
    if lem.name == 'onsite_flat':
        g = np.zeros_like(args['g'])
        if 0 <= args['i0'] < len(g) // 2:
            g[2 * args['i0']:2 * args['i0'] + 2] = gens.bits(rng, 2)
        args['g'] = g
    if 'n' in args and lem.name in ('ordg_acq', 'selacq_gram', 'ordg_bits'):
        args['n'] = int(rng.integers(0, N + 1))
    return args


def run(run_, names, per_lemma=60):
    lib = run_.library()
    ev = run_.ev
    rng = np.random.default_rng(run_.seed + 7)
    out = {'cases': 0, 'nontrivial': 0, 'failures': [], 'bound': 'N <= 3, %d generated inputs per lemma; symplectic_complete: all 4^N strings w per generated tableau' % per_lemma,
           'exhaustive': False, 'samples': []}
    for name in names:
        lem = lib.lemmas[name]
        held = 0
        for _ in range(per_lemma):
            args = _rand_args(lib, lem, rng)
            if name == 'symplectic_complete':
                N = args['N']
                ws = [np.array(w, dtype=np.int64) for w in itertools.product([0, 1], repeat=2 * N)]
            else:
                ws = [None]
            for w in ws:
                if w is not None:
                    args['w'] = w
                try:
                    if not all(bool(ev.eval(r, args, args)) for r in lem.requires):
                        continue
                    ok = all(bool(ev.eval(e, args, args)) for e in lem.ensures)
                except Exception as e:          # noqa
                    ok = False
                out['cases'] += 1
                held += 1
                if len(out['samples']) < 2:
                    out['samples'].append({'lemma': name, 'args': concrete.to_jsonable(args)})
                if not ok:
                    out['failures'].append({'id': 'lemma_%s' % name, 'what': 'lemma %s is false on a concrete input' % name, 'input': concrete.to_jsonable(args)})
                    break
        if held == 0:
            out['failures'].append({'id': 'lemma_%s_vacuous' % name, 'what': 'no generated input satisfies the requires of lemma %s' % name, 'input': None})
        out['nontrivial'] += held
    return out
