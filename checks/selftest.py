"""Generator self-test (thorough tier): a fixed set of single-token mutants of the kernels is applied to a scratch copy of
pyclifford/utils.py (outside /repo and /verif, removed afterwards); for every mutant the verifier must report at least one
undischarged obligation in the mutated function.  A surviving mutant means the engine or a contract is too weak: it is
reported as a CHECKER-ERROR (never as a verdict about /repo)."""
import os
import shutil
import tempfile

from pyvc import driver, solve

U = 'pyclifford/utils.py::'
MUTANTS = [
    ('ipow', 'ipow += g1z * g2x - g1x * g2z + 2*((gx//2) * gz + gx * (gz//2))', 'ipow += g1z * g2x - g1x * g2z + ((gx//2) * gz + gx * (gz//2))'),
    ('acq', 'acq += g1[2*i+1]*g2[2*i] - g1[2*i]*g2[2*i+1]', 'acq += g1[2*i+1]*g2[2*i] - g1[2*i]*g2[2*i]'),
    ('ps0', '    return ps0 % 4', '    return ps0 % 2'),
    ('pauli_combine', 'ipow(gs_out[j_out], gs_in[j_in])', 'ipow(gs_in[j_in], gs_out[j_out])'),
    ('pauli_transform', 'ps_out = (ps_in + ps0(gs_in) + ps_out)%4', 'ps_out = (ps_in + ps_out)%4'),
    ('clifford_rotate', 'ps[j] = (ps[j] + p + 1 + ipow(gs[j], g))%4', 'ps[j] = (ps[j] + p + ipow(gs[j], g))%4'),
    ('map_to_state', '        gs_out[N+i] = gs_in[2*i]\n        gs_out[i] = gs_in[2*i+1]', '        gs_out[N+i] = gs_in[2*i+1]\n        gs_out[i] = gs_in[2*i]'),
    ('stabilizer_expect', 'if j < N + r: # if gs_stb[j] is active stablizer or standby.', 'if j <= N + r: # if gs_stb[j] is active stablizer or standby.'),
    ('stabilizer_measure', '            log2prob -= 1.', '            log2prob -= 2.'),
    ('stabilizer_project', '            q = (p+N)%(2*N) # get q as dual of p \n            gs_stb[q] = gs_stb[p] # move gs_stb[p] to gs_stb[q]\n            gs_stb[p] = gs_obs[k] # add gs_obs[k] to gs_stb[p]\n            if extend:\n                r -= 1 # rank will reduce under extension\n                # bring new stabilizer from p to r\n                if p == r:\n                    pass\n                elif q == r:\n                    gs_stb[numpy.array([p,q])] = gs_stb[numpy.array([q,p])] # swap p,q\n                else:\n                    s = (r+N)%(2*N) # get s as dual of r\n                    gs_stb[numpy.array([p,r])] = gs_stb[numpy.array([r,p])] # swap p,r\n                    gs_stb[numpy.array([q,s])] = gs_stb[numpy.array([s,q])] # swap q,s\n    return gs_stb, r',
     '            q = (p+N+1)%(2*N) # get q as dual of p \n            gs_stb[q] = gs_stb[p] # move gs_stb[p] to gs_stb[q]\n            gs_stb[p] = gs_obs[k] # add gs_obs[k] to gs_stb[p]\n            if extend:\n                r -= 1 # rank will reduce under extension\n                # bring new stabilizer from p to r\n                if p == r:\n                    pass\n                elif q == r:\n                    gs_stb[numpy.array([p,q])] = gs_stb[numpy.array([q,p])] # swap p,q\n                else:\n                    s = (r+N)%(2*N) # get s as dual of r\n                    gs_stb[numpy.array([p,r])] = gs_stb[numpy.array([r,p])] # swap p,r\n                    gs_stb[numpy.array([q,s])] = gs_stb[numpy.array([s,q])] # swap q,s\n    return gs_stb, r'),
    ('stabilizer_postselection', '        prob = prob/2.0', '        prob = prob/4.0'),
    ('pauli_diagonalize1', '            g[2*i0] = 1 # such that g also anticommute with Z0\n            gs.append(g)\n            g1 = (g1 + g)%2\n        # now g1 anticommute with Z0                \n        g = g1.copy()\n        g[2*i0+1] = (g[2*i0+1] + 1)%2 # g = g1 (*) Z0\n        gs.append(g)\n        g1 = (g1 + g)%2\n        # now g1 has been transformed to Z0\n    return gs\n',
     '            g[2*i0] = 0 # such that g also anticommute with Z0\n            gs.append(g)\n            g1 = (g1 + g)%2\n        # now g1 anticommute with Z0                \n        g = g1.copy()\n        g[2*i0+1] = (g[2*i0+1] + 1)%2 # g = g1 (*) Z0\n        gs.append(g)\n        g1 = (g1 + g)%2\n        # now g1 has been transformed to Z0\n    return gs\n'),
    ('random_pair', 'g2[2*i+1] = (g2[2*i+1] + g1[2*i] + g1[2*i+1])%2', 'g2[2*i+1] = (g2[2*i+1] + g1[2*i])%2'),
    ('pauli_tokenize', 'ts[j,i] = 3*gs[j,2*i+1] + (-1)**gs[j,2*i+1] * gs[j,2*i]', 'ts[j,i] = 2*gs[j,2*i+1] + (-1)**gs[j,2*i+1] * gs[j,2*i]'),
    ('state_to_map', '        ps_out[2*i] = ps_in[N+i]', '        ps_out[2*i] = ps_in[i]'),
    ('z2rank', '            for k in range(r + 1, nr):', '            for k in range(i + 1, nr):'),
    ('z2rank', '                mat[j, i:] = (mat[j, i:] + mat[r, i:])%2', '                mat[j, i+1:] = (mat[j, i+1:] + mat[r, i+1:])%2'),
    ('z2inv', '    for i in range(n-1,0,-1):', '    for i in range(n-1,1,-1):'),
    ('z2inv', '    return a[:,n:]', '    return a[:,:n]'),
    ('pauli_diagonalize2', '        g[2*i0] = 0\n        g[2*i0+1] = 1\n        gs.append(g)\n        g2 = (g2 + g)%2', '        g[2*i0] = 1\n        g[2*i0+1] = 1\n        gs.append(g)\n        g2 = (g2 + g)%2'),
    ('stabilizer_entropy', '        entropy = numpy.sum(mask) - (L - z2rank(gs[:, ~mask2]))', '        entropy = numpy.sum(mask) - (L - z2rank(gs[:, mask2]))'),
    ('random_pauli', '        gs[2*i+1,2*i:2*i+2] = g2', '        gs[2*i+1,2*i:2*i+2] = g1'),
    ('condense', '    return g[numpy.repeat(mask, 2)], qubits', '    return g[numpy.repeat(mask, 2)], qubits + 1'),
    ('random_clifford.random_clifford_', '            gs[1] = g2\n            random_clifford_', '            gs[1] = g1\n            random_clifford_'),
    ('random_clifford.random_clifford_', '        if n == 1:\n            gs[0] = g1', '        if n <= 2:\n            gs[0] = g1'),
    ('clifford_rotate_signless', '            gs[j] = (gs[j] + g)%2\n    return gs\n', '            gs[j] = (gs[j] + g + 1)%2\n    return gs\n'),
]


CLASS_MUTANTS = [
    # (file, contract key suffix, old, new)
    ('pyclifford/stabilizer.py', 'CliffordMap.inverse', 'ps_inv = (- ps_mis - ps0(gs_inv))%4', 'ps_inv = (- ps_mis + ps0(gs_inv))%4'),
    ('pyclifford/stabilizer.py', 'CliffordMap.compose', 'gs, ps = pauli_transform(self.gs, self.ps, other.gs, other.ps)', 'gs, ps = pauli_transform(other.gs, other.ps, self.gs, self.ps)'),
    ('pyclifford/stabilizer.py', 'StabilizerState.entropy#mask', 'return stabilizer_entropy(self.stabilizers.gs, subsys)', 'return stabilizer_entropy(self.gs, subsys)'),
    ('pyclifford/paulialg.py', 'PauliList.rotate_by#mask', 'generator.g, generator.p, self.gs[:,mask2], self.ps)', 'generator.g, generator.p + 2, self.gs[:,mask2], self.ps)'),
    ('pyclifford/paulialg.py', 'PauliPolynomial.copy', 'return PauliPolynomial(self.gs.copy(), self.ps.copy()).set_cs(self.cs.copy())', 'return PauliPolynomial(self.gs.copy(), self.ps.copy()).set_cs(self.cs)'),
    ('pyclifford/paulialg.py', 'Pauli.__matmul__#Pauli', 'p = (self.p + other.p + ipow(self.g, other.g)) % 4', 'p = (self.p + other.p + ipow(other.g, self.g)) % 4'),
    ('pyclifford/circuit.py', 'CliffordGate.backward#generator_local', '                obj.rotate_by(-self.generator, mask(self.qubits, obj.N))', '                obj.rotate_by(self.generator, mask(self.qubits, obj.N))'),
    ('pyclifford/circuit.py', 'CliffordGate.compile#generator', 'self.backward_map = clifford_rotation_map(-self.generator)', 'self.backward_map = clifford_rotation_map(self.generator)'),
    ('pyclifford/paulialg.py', 'pauli#chars', "        elif mu == 5 or mu == '-':\n            p = 2", "        elif mu == 5 or mu == '-':\n            p += 2"),
    ('pyclifford/paulialg.py', 'pauli#codes', '        return Pauli(g[:-2*h], p)', '        return Pauli(g[:-h], p)'),
    ('pyclifford/circuit.py', 'MeasureLayer.backward#record', "                    tmp[self.qubits[-ii]]=3\n                    tmp_res = int((1-measure_result[-ii])/2)", "                    tmp[self.qubits[-ii]]=4\n                    tmp_res = int((1-measure_result[-ii])/2)"),
    ('pyclifford/circuit.py', 'CliffordLayer.forward#state', '            for gate in self.gates:\n                gate.forward(obj)', '            for gate in self.gates:\n                gate.backward(obj)'),
    ('pyclifford/circuit.py', 'CliffordGate.forward#any_state', '                obj.rotate_by(self.generator, mask(self.qubits, obj.N))', '                obj.rotate_by(self.generator, mask(self.qubits[1:], obj.N))'),
    ('pyclifford/circuit.py', 'CliffordGate.copy#generator', '            gate.generator = self.generator.copy()', '            gate.generator = self.generator'),
    ('pyclifford/stabilizer.py', 'StabilizerState.sample', '        gs, ps = pauli_combine(C, self.gs[self.r:self.N], self.ps[self.r:self.N])\n        return PauliList(gs, ps)\n    def get_prob', '        gs, ps = pauli_combine(C, self.gs[self.r:self.N], self.ps[:self.N-self.r])\n        return PauliList(gs, ps)\n    def get_prob'),
    ('pyclifford/stabilizer.py', 'stabilizer_state#list', '    state.ps[state.r:state.N] = stabilizers.ps', '    state.ps[:state.N-state.r] = stabilizers.ps'),
    ('pyclifford/stabilizer.py', 'random_bit_state_gs_ps', '        gs[N+i,2*i]=1', '        gs[N+i,2*i+1]=1'),
    ('pyclifford/paulialg.py', 'PauliPolynomial.__getitem__#slice', '        return PauliPolynomial(self.gs[item], self.ps[item]).set_cs(self.cs[item])', '        return PauliPolynomial(self.gs[item]).set_cs(self.cs[item])'),
    ('pyclifford/circuit.py', 'CliffordGate.independent_from', 'return len(set(self.qubits) & set(other_gate.qubits))==0', 'return len(set(self.qubits[1:]) & set(other_gate.qubits))==0'),
]


def run(run_, timeout_s=12):
    lib = run_.library()
    out = run_kernels(run_, lib, timeout_s)
    out2 = run_class(run_, lib, timeout_s)
    return {'mutants': out['mutants'] + out2['mutants'], 'killed': out['killed'] + out2['killed'], 'survived': out['survived'] + out2['survived'],
            'skipped': out['skipped'] + out2['skipped'], 'details': out['details'] + out2['details']}


def run_class(run_, lib, timeout_s):
    killed, survived, skipped = [], [], []
    scratch = tempfile.mkdtemp(prefix='pyvc_selftest_')
    try:
        shutil.copytree(os.path.join(driver.REPO, 'pyclifford'), os.path.join(scratch, 'pyclifford'))
        for (f, suffix, old, new) in CLASS_MUTANTS:
            keys = [k for k in lib.contracts if k.endswith('::' + suffix)]
            src = open(os.path.join(driver.REPO, f)).read()
            if not keys or src.count(old) != 1:
                skipped.append('%s (pattern occurs %d times in the current source)' % (suffix, src.count(old)))
                continue
            key = keys[0]

            def discharged(key=key):
                vcs, info = driver.gen_function_vcs(lib, key)
                if info['status'] != 'ok':
                    return None, info
                res = solve.discharge(vcs, timeout_s=timeout_s, theory=lib.theory, want_model=False, retry=False)
                obl = driver.aggregate(vcs, res)
                return {o for o, r in obl.items() if r['discharged']}, info
            base, _ = discharged()
            if base is None:
                skipped.append('%s (not verifiable on the current source)' % suffix)
                continue
            open(os.path.join(scratch, f), 'w').write(src.replace(old, new))
            saved_repo, saved_cache = driver.REPO, dict(driver._src_cache)
            driver.REPO = scratch
            driver._src_cache.clear()
            driver.MODULES.info.clear()
            try:
                good, info = discharged()
                if good is None:
                    killed.append({'function': suffix, 'by': 'extraction: ' + info.get('error', '')[:100]})
                else:
                    lost = sorted(base - good)
                    if lost:
                        killed.append({'function': suffix, 'by': lost[:3]})
                    else:
                        survived.append(suffix)
            finally:
                driver.REPO = saved_repo
                driver._src_cache.clear()
                driver._src_cache.update(saved_cache)
                driver.MODULES.info.clear()
                open(os.path.join(scratch, f), 'w').write(src)
    finally:
        shutil.rmtree(scratch, ignore_errors=True)
    return {'mutants': len(CLASS_MUTANTS), 'killed': len(killed), 'survived': survived, 'skipped': skipped, 'details': killed}


def run_kernels(run_, lib, timeout_s=12):
    src_path = os.path.join(driver.REPO, 'pyclifford', 'utils.py')
    src = open(src_path).read()
    scratch = tempfile.mkdtemp(prefix='pyvc_selftest_')
    killed, survived, skipped = [], [], []
    baseline = {}

    def discharged_set(fn):
        vcs, info = driver.gen_function_vcs(lib, U + fn)
        if info['status'] != 'ok':
            return None, info
        res = solve.discharge(vcs, timeout_s=timeout_s, theory=lib.theory, want_model=False, retry=False)
        obl = driver.aggregate(vcs, res)
        return {o for o, r in obl.items() if r['discharged']}, info
    try:
        os.makedirs(os.path.join(scratch, 'pyclifford'))
        for (fn, old, new) in MUTANTS:
            if src.count(old) != 1:
                skipped.append('%s (pattern occurs %d times in the current source)' % (fn, src.count(old)))
                continue
            if fn not in baseline:
                baseline[fn], _ = discharged_set(fn)        # unmutated source (driver.REPO is the real tree here)
                if baseline[fn] is None:
                    skipped.append('%s (not verifiable on the current source)' % fn)
                    del baseline[fn]
                    continue
            open(os.path.join(scratch, 'pyclifford', 'utils.py'), 'w').write(src.replace(old, new))
            saved_repo, saved_cache = driver.REPO, dict(driver._src_cache)
            driver.REPO = scratch
            driver._src_cache.clear()
            driver.MODULES.info.clear()
            try:
                good, info = discharged_set(fn)
                if good is None:
                    killed.append({'function': fn, 'by': 'extraction: ' + info.get('error', '')[:100]})
                    continue
                # killed = an obligation that is discharged on the unmutated source under the SAME budget is not any more
                lost = sorted(baseline[fn] - good)
                if lost:
                    killed.append({'function': fn, 'by': lost[:3]})
                else:
                    survived.append(fn)
            finally:
                driver.REPO = saved_repo
                driver._src_cache.clear()
                driver._src_cache.update(saved_cache)
                driver.MODULES.info.clear()
    finally:
        shutil.rmtree(scratch, ignore_errors=True)
    return {'mutants': len(MUTANTS), 'killed': len(killed), 'survived': survived, 'skipped': skipped, 'details': killed}
